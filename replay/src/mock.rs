//! Scripted mock transport: a `quic::Connection<Bytes>` whose incoming streams, read results, open/write
//! readiness are read from a script, and which records everything h3 does to it (bytes per outgoing stream,
//! close / reset / stop_sending calls). Used to replay mirsym counterexamples against the real code.
#![allow(dead_code)]
use std::collections::{HashMap, VecDeque};
use std::sync::{Arc, Mutex};
use std::task::{Context, Poll};

use bytes::{Buf, Bytes};
use h3::quic::{self, ConnectionErrorIncoming, StreamErrorIncoming, StreamId, WriteBuf};

#[derive(Clone, Debug)]
pub enum RecvEvent {
    Data(Vec<u8>),
    Fin,
    Reset(u64),
    ConnClose(u64),
    Pending,
}

#[derive(Clone, Debug)]
pub enum Ready {
    Ok,
    Pending,
    Err,
}

#[derive(Default)]
pub struct Log {
    pub closed: Vec<(u64, Vec<u8>)>,
    pub sent: HashMap<u64, Vec<u8>>,
    pub finished: Vec<u64>,
    pub resets: Vec<(u64, u64)>,
    pub stop_sendings: Vec<(u64, u64)>,
    pub opened_send: Vec<u64>,
}

#[derive(Default)]
pub struct World {
    pub incoming_uni: VecDeque<MockRecv>,
    pub incoming_bidi: VecDeque<MockBidi>,
    pub accept_error: Option<u64>,
    /// results of successive poll_open_send calls (default when exhausted: Ok)
    pub open_send: VecDeque<Ready>,
    /// results of successive poll_ready calls per outgoing stream id (default: Ok)
    pub ready: HashMap<u64, VecDeque<Ready>>,
    pub next_uni_id: u64,
    pub next_bidi_id: u64,
    /// events that reach an incoming stream only after the test has put them here (consulted when the stream's own
    /// script is exhausted): lets a scenario deliver bytes AFTER a given API call has returned
    pub late: HashMap<u64, VecDeque<RecvEvent>>,
    /// results of successive poll_open_bidi calls (default when exhausted: Ok)
    pub open_bidi: VecDeque<Ready>,
    /// receive scripts for successive locally opened bidirectional streams (default: nothing arrives)
    pub opened_bidi_events: VecDeque<Vec<RecvEvent>>,
    pub log: Log,
}

#[derive(Clone)]
pub struct Mock {
    pub world: Arc<Mutex<World>>,
    pub server: bool,
}

impl Mock {
    pub fn new(server: bool) -> Self {
        let mut w = World::default();
        // locally opened streams: server uni = 3,7,.. ; client uni = 2,6,.. ; client bidi 0,4,..; server bidi 1,5,..
        w.next_uni_id = if server { 3 } else { 2 };
        w.next_bidi_id = if server { 1 } else { 0 };
        Mock { world: Arc::new(Mutex::new(w)), server }
    }
    pub fn push_uni(&self, id: u64, events: Vec<RecvEvent>) {
        let r = MockRecv { id, events: events.into(), world: self.world.clone() };
        self.world.lock().unwrap().incoming_uni.push_back(r);
    }
    pub fn push_bidi(&self, id: u64, events: Vec<RecvEvent>) {
        let b = MockBidi {
            recv: MockRecv { id, events: events.into(), world: self.world.clone() },
            send: MockSend { id, world: self.world.clone(), pending: Vec::new() },
        };
        self.world.lock().unwrap().incoming_bidi.push_back(b);
    }
}

pub struct MockRecv {
    pub id: u64,
    pub events: VecDeque<RecvEvent>,
    world: Arc<Mutex<World>>,
}

impl quic::RecvStream for MockRecv {
    type Buf = Bytes;
    fn poll_data(&mut self, _cx: &mut Context<'_>) -> Poll<Result<Option<Bytes>, StreamErrorIncoming>> {
        if self.events.is_empty() {
            if let Some(q) = self.world.lock().unwrap().late.get_mut(&self.id) {
                if let Some(ev) = q.pop_front() {
                    self.events.push_back(ev);
                }
            }
        }
        match self.events.pop_front() {
            None | Some(RecvEvent::Pending) => Poll::Pending,
            Some(RecvEvent::Data(d)) => Poll::Ready(Ok(Some(Bytes::from(d)))),
            Some(RecvEvent::Fin) => {
                self.events.push_front(RecvEvent::Fin);
                Poll::Ready(Ok(None))
            }
            Some(RecvEvent::Reset(c)) => {
                self.events.push_front(RecvEvent::Reset(c));
                Poll::Ready(Err(StreamErrorIncoming::StreamTerminated { error_code: c }))
            }
            Some(RecvEvent::ConnClose(c)) => {
                self.events.push_front(RecvEvent::ConnClose(c));
                Poll::Ready(Err(StreamErrorIncoming::ConnectionErrorIncoming {
                    connection_error: ConnectionErrorIncoming::ApplicationClose { error_code: c },
                }))
            }
        }
    }
    fn stop_sending(&mut self, error_code: u64) {
        self.world.lock().unwrap().log.stop_sendings.push((self.id, error_code));
    }
    fn recv_id(&self) -> StreamId {
        StreamId::try_from(self.id).unwrap()
    }
}

pub struct MockSend {
    pub id: u64,
    world: Arc<Mutex<World>>,
    pending: Vec<u8>,
}

impl quic::SendStream<Bytes> for MockSend {
    fn poll_ready(&mut self, _cx: &mut Context<'_>) -> Poll<Result<(), StreamErrorIncoming>> {
        let mut w = self.world.lock().unwrap();
        let r = w.ready.get_mut(&self.id).and_then(|q| q.pop_front()).unwrap_or(Ready::Ok);
        match r {
            Ready::Ok => {
                let p = std::mem::take(&mut self.pending);
                w.log.sent.entry(self.id).or_default().extend_from_slice(&p);
                Poll::Ready(Ok(()))
            }
            Ready::Pending => Poll::Pending,
            Ready::Err => Poll::Ready(Err(StreamErrorIncoming::StreamTerminated { error_code: 0x10c })),
        }
    }
    fn send_data<T: Into<WriteBuf<Bytes>>>(&mut self, data: T) -> Result<(), StreamErrorIncoming> {
        let mut b: WriteBuf<Bytes> = data.into();
        while b.has_remaining() {
            let c = b.chunk().to_vec();
            assert!(!c.is_empty(), "WriteBuf::chunk() empty while remaining() > 0");
            self.pending.extend_from_slice(&c);
            b.advance(c.len());
        }
        Ok(())
    }
    fn poll_finish(&mut self, _cx: &mut Context<'_>) -> Poll<Result<(), StreamErrorIncoming>> {
        self.world.lock().unwrap().log.finished.push(self.id);
        Poll::Ready(Ok(()))
    }
    fn reset(&mut self, reset_code: u64) {
        self.world.lock().unwrap().log.resets.push((self.id, reset_code));
    }
    fn send_id(&self) -> StreamId {
        StreamId::try_from(self.id).unwrap()
    }
}

pub struct MockBidi {
    pub recv: MockRecv,
    pub send: MockSend,
}

impl quic::RecvStream for MockBidi {
    type Buf = Bytes;
    fn poll_data(&mut self, cx: &mut Context<'_>) -> Poll<Result<Option<Bytes>, StreamErrorIncoming>> {
        self.recv.poll_data(cx)
    }
    fn stop_sending(&mut self, error_code: u64) {
        self.recv.stop_sending(error_code)
    }
    fn recv_id(&self) -> StreamId {
        self.recv.recv_id()
    }
}

impl quic::SendStream<Bytes> for MockBidi {
    fn poll_ready(&mut self, cx: &mut Context<'_>) -> Poll<Result<(), StreamErrorIncoming>> {
        self.send.poll_ready(cx)
    }
    fn send_data<T: Into<WriteBuf<Bytes>>>(&mut self, data: T) -> Result<(), StreamErrorIncoming> {
        self.send.send_data(data)
    }
    fn poll_finish(&mut self, cx: &mut Context<'_>) -> Poll<Result<(), StreamErrorIncoming>> {
        self.send.poll_finish(cx)
    }
    fn reset(&mut self, reset_code: u64) {
        self.send.reset(reset_code)
    }
    fn send_id(&self) -> StreamId {
        self.send.send_id()
    }
}

impl quic::BidiStream<Bytes> for MockBidi {
    type SendStream = MockSend;
    type RecvStream = MockRecv;
    fn split(self) -> (MockSend, MockRecv) {
        (self.send, self.recv)
    }
}

impl quic::OpenStreams<Bytes> for Mock {
    type BidiStream = MockBidi;
    type SendStream = MockSend;
    fn poll_open_bidi(&mut self, _cx: &mut Context<'_>) -> Poll<Result<MockBidi, StreamErrorIncoming>> {
        let mut w = self.world.lock().unwrap();
        match w.open_bidi.pop_front().unwrap_or(Ready::Ok) {
            Ready::Pending => return Poll::Pending,
            Ready::Err => return Poll::Ready(Err(StreamErrorIncoming::StreamTerminated { error_code: 0 })),
            Ready::Ok => {}
        }
        let id = w.next_bidi_id;
        w.next_bidi_id += 4;
        let events: VecDeque<RecvEvent> = w.opened_bidi_events.pop_front().unwrap_or_default().into();
        Poll::Ready(Ok(MockBidi {
            recv: MockRecv { id, events, world: self.world.clone() },
            send: MockSend { id, world: self.world.clone(), pending: Vec::new() },
        }))
    }
    fn poll_open_send(&mut self, _cx: &mut Context<'_>) -> Poll<Result<MockSend, StreamErrorIncoming>> {
        let mut w = self.world.lock().unwrap();
        match w.open_send.pop_front().unwrap_or(Ready::Ok) {
            Ready::Pending => Poll::Pending,
            Ready::Err => Poll::Ready(Err(StreamErrorIncoming::StreamTerminated { error_code: 0 })),
            Ready::Ok => {
                let id = w.next_uni_id;
                w.next_uni_id += 4;
                w.log.opened_send.push(id);
                Poll::Ready(Ok(MockSend { id, world: self.world.clone(), pending: Vec::new() }))
            }
        }
    }
    fn close(&mut self, code: h3::error::Code, reason: &[u8]) {
        self.world.lock().unwrap().log.closed.push((code.value(), reason.to_vec()));
    }
}

impl quic::Connection<Bytes> for Mock {
    type RecvStream = MockRecv;
    type OpenStreams = Mock;
    fn poll_accept_recv(&mut self, _cx: &mut Context<'_>) -> Poll<Result<MockRecv, ConnectionErrorIncoming>> {
        let mut w = self.world.lock().unwrap();
        if let Some(c) = w.accept_error {
            return Poll::Ready(Err(ConnectionErrorIncoming::ApplicationClose { error_code: c }));
        }
        match w.incoming_uni.pop_front() {
            Some(s) => Poll::Ready(Ok(s)),
            None => Poll::Pending,
        }
    }
    fn poll_accept_bidi(&mut self, _cx: &mut Context<'_>) -> Poll<Result<MockBidi, ConnectionErrorIncoming>> {
        let mut w = self.world.lock().unwrap();
        if let Some(c) = w.accept_error {
            return Poll::Ready(Err(ConnectionErrorIncoming::ApplicationClose { error_code: c }));
        }
        match w.incoming_bidi.pop_front() {
            Some(s) => Poll::Ready(Ok(s)),
            None => Poll::Pending,
        }
    }
    fn opener(&self) -> Mock {
        self.clone()
    }
}

// ---------------------------------------------------------------------------------------------
// a minimal executor: poll a future with a waker that counts wake-ups

use std::future::Future;
use std::pin::Pin;
use std::sync::atomic::{AtomicUsize, Ordering};
use std::task::{Wake, Waker};

pub struct CountWaker(pub AtomicUsize);
impl Wake for CountWaker {
    fn wake(self: Arc<Self>) {
        self.0.fetch_add(1, Ordering::SeqCst);
    }
}

pub fn counting_waker() -> (Arc<CountWaker>, Waker) {
    let c = Arc::new(CountWaker(AtomicUsize::new(0)));
    (c.clone(), Waker::from(c))
}

/// Poll `fut` until it is ready, at most `max` times (the mock never blocks for real: a Pending that is not
/// followed by progress means the script left the future parked).
pub fn drive<F: Future>(fut: F, max: usize) -> Option<F::Output> {
    let (_c, w) = counting_waker();
    let mut cx = Context::from_waker(&w);
    let mut fut = Box::pin(fut);
    for _ in 0..max {
        if let Poll::Ready(v) = Pin::as_mut(&mut fut).poll(&mut cx) {
            return Some(v);
        }
    }
    None
}
