//! Native replay of mirsym counterexamples against the real h3 code through the scripted mock transport.
//! usage: h3-verif-replay <scenario> [args...]   — exit 1 = violation reproduced, 0 = not reproduced, 2 = usage error.
mod mock;

use std::sync::atomic::Ordering;
use std::sync::Arc;
use std::task::{Context, Poll};

use bytes::Bytes;
use h3::error::internal_error::InternalConnectionError;
use h3::error::Code;
use h3::error::connection_error_creators::CloseStream;
use h3::error::{ConnectionError, LocalError, StreamError};
use h3::{ConnectionState, SharedState};
use mock::*;

fn main() {
    let args: Vec<String> = std::env::args().collect();
    if args.len() < 2 {
        eprintln!("usage: h3-verif-replay <scenario> [args]");
        std::process::exit(2);
    }
    // a panic inside h3 while a scenario runs is itself a reproduction (no peer behaviour may make h3 panic)
    let scenario = args[1].clone();
    let rc = match std::panic::catch_unwind(std::panic::AssertUnwindSafe(|| run_scenario(&args))) {
        Ok(rc) => rc,
        Err(_) => {
            println!("REPRODUCED: h3 panicked while scenario '{}' ran", scenario);
            1
        }
    };
    std::process::exit(rc);
}

fn run_scenario(args: &[String]) -> i32 {
    let rc = match args[1].as_str() {
        "c05_lost_wakeup" => c05_lost_wakeup(args.get(2).map(|s| s.as_str()).unwrap_or("")),
        "c02_decoder_memo" => c02_decoder_memo(),
        "c02_truncated_data" => c02_truncated_data(),
        "c11_static_find" => c11_static_find(
            args.get(2).map(|s| s.as_str()).unwrap_or(""),
            args.get(3).map(|s| s.as_str()).unwrap_or(""),
        ),
        "c03_empty_data" => c03_empty_data(),
        "c05_second_error" => c05_second_error(),
        "c07_reset_inside_frame" => c07_reset_inside_frame(args.get(2).and_then(|s| s.parse().ok()).unwrap_or(0x10c)),
        "c09_refused_request_blocks_shutdown" => c09_refused_request_blocks_shutdown(),
        "c12_refusal" => c12_refusal(args.get(2).map(|s| s.as_str()).unwrap_or("client")),
        "c12_field_gate" => c12_field_gate(
            args.get(2).map(|s| s.as_str()).unwrap_or(""),
            args.get(3).map(|s| s.as_str()).unwrap_or(""),
        ),
        "c12_request_gate" => c12_request_gate(args.get(2).map(|s| s.as_str()).unwrap_or("")),
        "c12_send_order" => c12_send_order(),
        "c12_field_sequence" => c12_field_sequence(args.get(2).map(|s| s.as_str()).unwrap_or("ab=x,Ab=y")),
        "c10_stale_limit" => c10_stale_limit(),
        "c02_chunking_independence" => c02_chunking_independence(),
        "c06_poll_next_spin" => c06_poll_next_spin(),
        "c03_frame_after_trailers" => c03_frame_after_trailers(),
        "c08_client_goaways" => c08_client_goaways(args.get(2).map(|s| s.as_str()).unwrap_or("8,4,8")),
        "c10_431_respects_client_limit" => c10_431_respects_client_limit(),
        "c04_uni_streams" => c04_uni_streams(args.get(2).map(|s| s.as_str()).unwrap_or("duplicates")),
        "c09_split_halves" => c09_split_halves(),
        "c09_end_order" => c09_end_order(args.get(2).map(|s| s.as_str()).unwrap_or("0,8,4")),
        "c19_payload_with_header" => c19_payload_with_header(),
        "c19_uni_header" => c19_uni_header(
            args.get(2).map(|s| s.as_str()).unwrap_or(""),
            args.get(3).map(|s| s.as_str()).unwrap_or(""),
            args.get(4).map(|s| s == "surfaced").unwrap_or(false),
        ),
        "c08_shutdown_sequence" => c08_shutdown_sequence(
            args.get(2).and_then(|s| s.parse().ok()).unwrap_or(2),
            args.get(3).and_then(|s| s.parse().ok()).unwrap_or(0),
        ),
        "c04_frame_lost" => c04_frame_lost(args.get(2).map(|s| s == "no_backpressure").unwrap_or(false)),
        "c08_goaway" => c08_goaway(
            args.get(2).and_then(|s| s.parse().ok()).unwrap_or(0),
            args.get(3).and_then(|s| s.parse().ok()).unwrap_or(0),
        ),
        other => {
            eprintln!("unknown scenario {}", other);
            2
        }
    };
    rc
}

/// Schedule found by the solver: driver get() -> stream get_or_init() -> stream wake() -> driver register().
/// The stream task's raise is run from a pre-emption point inside the driver's poll. `hook` names the point, or
/// "any" tries every pre-emption point whose name starts with "driver:" in turn (fresh connection each time).
fn c05_lost_wakeup(hook: &str) -> i32 {
    if hook != "any" && !hook.is_empty() {
        return c05_lost_wakeup_at(hook, 0).0;
    }
    // discover the driver's pre-emption points by firing order
    let mut k = 0;
    loop {
        let (rc, fired) = c05_lost_wakeup_at("", k);
        if rc == 1 {
            return 1;
        }
        if !fired {
            break;
        }
        k += 1;
    }
    // the mirror image: the driver is polled from a pre-emption point inside the request task's raise
    let rc = c05_driver_polled_inside_raise();
    if rc == 0 {
        println!("no pre-emption point left: schedule not reproduced");
    }
    rc
}

/// A request task raises a connection error (set_conn_error_and_wake); at the pre-emption point inside that call the
/// driver - already parked with a registered waker, as a spawned driver task is - gets polled once (what an executor does
/// with a task that was just woken, or a driver that is polled for another reason). Whatever the order of 'store' and
/// 'wake' inside the raise, afterwards the driver must not be parked with the error stored and no wake-up pending.
fn c05_driver_polled_inside_raise() -> i32 {
    let mock = Mock::new(true);
    let conn: h3::server::Connection<Mock, Bytes> =
        drive(h3::server::builder().build(mock.clone()), 10).expect("build completes").expect("build ok");
    let shared = conn.inner.shared.clone();
    let conn = Arc::new(std::sync::Mutex::new(conn));
    let (count, waker) = counting_waker();
    // the driver parks first
    {
        let mut cx = Context::from_waker(&waker);
        let r = conn.lock().unwrap().inner.poll_connection_error(&mut cx);
        if !matches!(r, Poll::Pending) {
            println!("driver not parked at the start");
            return 0;
        }
    }
    let polled = Arc::new(std::sync::Mutex::new(Vec::<(String, bool, usize)>::new()));
    let (conn2, waker2, polled2, count2) = (conn.clone(), waker.clone(), polled.clone(), count.clone());
    h3::verif_hooks::set_preempt(Some(Box::new(move |name: &'static str| {
        if name.starts_with("stream:") {
            let woken_before = count2.0.load(Ordering::SeqCst);
            let mut cx = Context::from_waker(&waker2);
            let r = conn2.lock().unwrap().inner.poll_connection_error(&mut cx);
            polled2.lock().unwrap().push((name.to_string(), matches!(r, Poll::Pending), woken_before));
        }
    })));
    let _ = shared.set_conn_error_and_wake(InternalConnectionError::new(Code::H3_FRAME_UNEXPECTED, "raised by a request task".to_string()));
    h3::verif_hooks::set_preempt(None);
    let error_set = shared.get_conn_error().is_some();
    let woken_total = count.0.load(Ordering::SeqCst);
    let p = polled.lock().unwrap().clone();
    let mut rc = 0;
    for (name, pending, woken_before) in &p {
        // wake-ups delivered AFTER this poll of the driver
        let woken_after = woken_total - woken_before;
        println!(
            "driver polled at '{}': returned Pending: {}, wake-ups before that poll {}, after it {}, error stored at the end: {}",
            name, pending, woken_before, woken_after, error_set
        );
        if *pending && error_set && woken_after == 0 {
            println!("REPRODUCED: the driver is parked (Pending, no wake-up after its poll) although a connection error is stored");
            rc = 1;
        }
    }
    if p.is_empty() {
        println!("no pre-emption point inside the raise fired");
    }
    std::mem::forget(conn);
    rc
}

/// Run the raise at the pre-emption point named `hook`, or (hook empty) at the k-th firing of any "driver:" point.
fn c05_lost_wakeup_at(hook: &str, k: usize) -> (i32, bool) {
    let mock = Mock::new(true);
    let mut conn: h3::server::Connection<Mock, Bytes> =
        drive(h3::server::builder().build(mock.clone()), 10).expect("build completes").expect("build ok");
    let shared = conn.inner.shared.clone();
    let hook_name = hook.to_string();
    let raised = Arc::new(std::sync::atomic::AtomicUsize::new(0));
    let seen = Arc::new(std::sync::atomic::AtomicUsize::new(0));
    let at = Arc::new(std::sync::Mutex::new(String::new()));
    let (raised2, seen2, at2) = (raised.clone(), seen.clone(), at.clone());
    let shared2 = shared.clone();
    h3::verif_hooks::set_preempt(Some(Box::new(move |name: &'static str| {
        let hit = if hook_name.is_empty() {
            name.starts_with("driver:") && seen2.fetch_add(1, Ordering::SeqCst) == k
        } else {
            name == hook_name
        };
        if hit && raised2.fetch_add(1, Ordering::SeqCst) == 0 {
            *at2.lock().unwrap() = name.to_string();
            // what a request handle does when it detects a connection error (CloseStream::
            // handle_connection_error_on_stream): store the error, then wake the driver
            let _ = shared2.set_conn_error_and_wake(InternalConnectionError::new(
                Code::H3_FRAME_UNEXPECTED,
                "raised by a request task".to_string(),
            ));
        }
    })));
    let (count, waker) = counting_waker();
    let mut cx = Context::from_waker(&waker);
    let r = conn.inner.poll_connection_error(&mut cx);
    h3::verif_hooks::set_preempt(None);
    let pending = matches!(r, Poll::Pending);
    let error_set = shared.get_conn_error().is_some();
    let woken = count.0.load(Ordering::SeqCst);
    let fired = raised.load(Ordering::SeqCst) > 0;
    println!(
        "pre-emption at '{}': fired {}, driver poll returned Pending: {}, error stored: {}, driver waker woken {} time(s)",
        at.lock().unwrap(), fired, pending, error_set, woken
    );
    std::mem::forget(conn);
    if fired && pending && error_set && woken == 0 {
        println!("REPRODUCED: the driver is parked (Pending, waker never woken) although a connection error is stored");
        (1, true)
    } else {
        (0, fired)
    }
}


/// Decode varints of a byte string (no error handling needed: h3 wrote them).
fn varint_at(b: &[u8], pos: usize) -> (u64, usize) {
    let n = 1usize << (b[pos] >> 6);
    let mut v = (b[pos] & 0x3f) as u64;
    for i in 1..n {
        v = (v << 8) | b[pos + i] as u64;
    }
    (v, n)
}

/// All GOAWAY ids written on the (server's) control stream, in order.
fn goaway_ids(control: &[u8]) -> Vec<u64> {
    let mut out = vec![];
    let (_ty, mut pos) = varint_at(control, 0); // stream type
    while pos < control.len() {
        let (ft, a) = varint_at(control, pos);
        let (len, b) = varint_at(control, pos + a);
        let start = pos + a + b;
        if ft == 0x7 {
            out.push(varint_at(control, start).0);
        }
        pos = start + len as usize;
    }
    out
}

/// Server: accept `accepted` requests (stream ids 0, 4, ...), call shutdown(n), then let the request whose id EQUALS
/// the announced GOAWAY id arrive. Reproduces (exit 1) if (a) the announced id is not greater than the id of a request
/// already handed to the application, or (b) the arriving request with id == GOAWAY id is handed to the application.
fn c08_goaway(accepted: u64, n: usize) -> i32 {
    let mock = Mock::new(true);
    let mut conn: h3::server::Connection<Mock, Bytes> =
        drive(h3::server::builder().build(mock.clone()), 10).expect("build completes").expect("build ok");
    let (_c, waker) = counting_waker();
    let mut cx = Context::from_waker(&waker);
    let mut last = None;
    for k in 0..accepted {
        mock.push_bidi(4 * k, vec![]);
        match conn.poll_accept_request_stream(&mut cx) {
            Poll::Ready(Ok(Some(s))) => {
                last = Some(4 * k);
                std::mem::forget(s);
            }
            _ => {
                println!("request {} was not handed out before shutdown", 4 * k);
                return 0;
            }
        }
    }
    let r = drive(conn.shutdown(n), 10);
    if !matches!(r, Some(Ok(()))) {
        println!("shutdown did not complete");
        return 0;
    }
    let ctrl = mock.world.lock().unwrap().log.sent.get(&3).cloned().unwrap_or_default();
    let ids = goaway_ids(&ctrl);
    println!("accepted before shutdown: {:?}; shutdown({}) wrote GOAWAY ids {:?}", last, n, ids);
    let Some(&announced) = ids.last() else {
        println!("no GOAWAY written");
        return 0;
    };
    let mut rc = 0;
    if let Some(l) = last {
        if announced <= l {
            println!("REPRODUCED: GOAWAY id {} is not greater than request {} which the application is already serving", announced, l);
            rc = 1;
        }
    }
    mock.push_bidi(announced, vec![]);
    match conn.poll_accept_request_stream(&mut cx) {
        Poll::Ready(Ok(Some(s))) => {
            println!("REPRODUCED: request with stream id {} == last GOAWAY id sent was handed to the application", announced);
            std::mem::forget(s);
            rc = 1;
        }
        other => {
            let w = mock.world.lock().unwrap();
            println!(
                "request {} not handed out ({}); resets {:?}, stop_sendings {:?}",
                announced,
                match other { Poll::Pending => "Pending", Poll::Ready(Ok(None)) => "None", _ => "Err" },
                w.log.resets, w.log.stop_sendings
            );
        }
    }
    std::mem::forget(conn);
    rc
}


/// Server: the client's control stream carries SETTINGS then GOAWAY(0) while the transport withholds the credit to
/// open the server's grease stream (poll_open_send Pending) for two polls. Every control frame must still be acted
/// upon: once the GOAWAY has been processed and no request is in flight, accept reports 'no more requests'
/// (Ready(Ok(None))). Reproduces (exit 1) if the accept call is still Pending after the credit came back: the GOAWAY
/// was taken from the stream and dropped.
fn c04_frame_lost(no_backpressure: bool) -> i32 {
    let mock = Mock::new(true);
    let mut conn: h3::server::Connection<Mock, Bytes> =
        drive(h3::server::builder().build(mock.clone()), 10).expect("build completes").expect("build ok");
    {
        let mut w = mock.world.lock().unwrap();
        w.open_send.clear();
        if !no_backpressure {
            w.open_send.push_back(Ready::Pending);
            w.open_send.push_back(Ready::Pending);
        }
    }
    // client-initiated unidirectional stream 2: type 0x00 (control), SETTINGS (empty), GOAWAY(0)
    mock.push_uni(2, vec![RecvEvent::Data(vec![0x00, 0x04, 0x00]), RecvEvent::Data(vec![0x07, 0x01, 0x00])]);
    let (_c, waker) = counting_waker();
    let mut cx = Context::from_waker(&waker);
    let mut last = String::new();
    for i in 0..6 {
        let r = conn.poll_accept_request_stream(&mut cx);
        last = match &r {
            Poll::Pending => "Pending".to_string(),
            Poll::Ready(Ok(None)) => "Ready(Ok(None))".to_string(),
            Poll::Ready(Ok(Some(_))) => "Ready(Ok(Some))".to_string(),
            Poll::Ready(Err(e)) => format!("Ready(Err({:?}))", e),
        };
        println!("poll {}: {}", i, last);
        if let Poll::Ready(Ok(Some(s))) = r {
            std::mem::forget(s);
        }
        if last != "Pending" {
            break;
        }
    }
    std::mem::forget(conn);
    if last == "Pending" {
        println!("REPRODUCED: the peer's GOAWAY was read while the grease stream could not be opened and was dropped: accept() never reports 'no more requests'");
        1
    } else {
        0
    }
}


/// A request handle as far as connection errors are concerned: shares the connection's SharedState.
struct Handle(Arc<SharedState>);
impl ConnectionState for Handle {
    fn shared_state(&self) -> &SharedState {
        &self.0
    }
}
impl CloseStream for Handle {}

/// Two request tasks detect two different connection errors one after the other: the second must report the FIRST
/// error (the connection's single outcome), and the driver must close with the first error's code.
fn c05_second_error() -> i32 {
    let mock = Mock::new(true);
    let mut conn: h3::server::Connection<Mock, Bytes> =
        drive(h3::server::builder().build(mock.clone()), 10).expect("build completes").expect("build ok");
    let mut h1 = Handle(conn.inner.shared.clone());
    let mut h2 = Handle(conn.inner.shared.clone());
    let code_of = |e: &StreamError| match e {
        StreamError::ConnectionError(ConnectionError::Local { error: LocalError::Application { code, .. } }) => Some(code.value()),
        _ => None,
    };
    let e1 = h1.handle_connection_error_on_stream(InternalConnectionError::new(Code::H3_FRAME_UNEXPECTED, "first".to_string()));
    let e2 = h2.handle_connection_error_on_stream(InternalConnectionError::new(Code::H3_ID_ERROR, "second".to_string()));
    let (_c, waker) = counting_waker();
    let mut cx = Context::from_waker(&waker);
    let d = conn.inner.poll_connection_error(&mut cx);
    let dcode = match &d {
        Poll::Ready(Err(ConnectionError::Local { error: LocalError::Application { code, .. } })) => Some(code.value()),
        _ => None,
    };
    let closed = mock.world.lock().unwrap().log.closed.clone();
    println!(
        "first handle reports {:?}, second handle reports {:?}, driver reports {:?}, close calls {:?}",
        code_of(&e1), code_of(&e2), dcode, closed.iter().map(|c| c.0).collect::<Vec<_>>()
    );
    std::mem::forget(conn);
    let first = Code::H3_FRAME_UNEXPECTED.value();
    if code_of(&e1) != Some(first) || code_of(&e2) != Some(first) || dcode != Some(first) || closed.len() != 1 || closed[0].0 != first {
        println!("REPRODUCED: not every party reports / closes with the first connection error (0x{:x})", first);
        1
    } else {
        0
    }
}

/// Server: accept one request (id 0), shutdown(n1), shutdown(n2); then requests arrive with every id from 0 up to the
/// first announced id. GOAWAY ids must never increase and every arriving id >= the LAST GOAWAY id must be rejected.
fn c08_shutdown_sequence(n1: usize, n2: usize) -> i32 {
    let mock = Mock::new(true);
    let mut conn: h3::server::Connection<Mock, Bytes> =
        drive(h3::server::builder().build(mock.clone()), 10).expect("build completes").expect("build ok");
    let (_c, waker) = counting_waker();
    let mut cx = Context::from_waker(&waker);
    mock.push_bidi(0, vec![]);
    if let Poll::Ready(Ok(Some(s))) = conn.poll_accept_request_stream(&mut cx) {
        std::mem::forget(s);
    }
    let _ = drive(conn.shutdown(n1), 10);
    let _ = drive(conn.shutdown(n2), 10);
    let ctrl = mock.world.lock().unwrap().log.sent.get(&3).cloned().unwrap_or_default();
    let ids = goaway_ids(&ctrl);
    println!("shutdown({}) then shutdown({}) wrote GOAWAY ids {:?}", n1, n2, ids);
    let mut rc = 0;
    for w in ids.windows(2) {
        if w[1] > w[0] {
            println!("REPRODUCED: GOAWAY ids increase: {} then {}", w[0], w[1]);
            rc = 1;
        }
    }
    let (Some(&first), Some(&last)) = (ids.first(), ids.last()) else {
        println!("no GOAWAY written");
        return rc;
    };
    let mut id = 4;
    while id <= first.max(last) + 4 {
        mock.push_bidi(id, vec![]);
        let handed_out = match conn.poll_accept_request_stream(&mut cx) {
            Poll::Ready(Ok(Some(s))) => {
                std::mem::forget(s);
                true
            }
            _ => false,
        };
        if handed_out && id >= last {
            println!("REPRODUCED: request {} >= last GOAWAY id {} was handed to the application", id, last);
            rc = 1;
        }
        if !handed_out && id < last {
            println!("REPRODUCED: request {} < last GOAWAY id {} was not handed out", id, last);
            rc = 1;
        }
        id += 4;
    }
    std::mem::forget(conn);
    rc
}


/// Server receives HEADERS, DATA(0), DATA(3)="abc", FIN on one request stream and reads it with the documented call
/// pattern (recv_data until None, then recv_trailers). The sequence is valid (RFC 9114 4.1; DATA frames may be empty):
/// the body must be "abc" and no error may occur.
fn c03_empty_data() -> i32 {
    let mock = Mock::new(true);
    let mut conn: h3::server::Connection<Mock, Bytes> =
        drive(h3::server::builder().build(mock.clone()), 10).expect("build completes").expect("build ok");
    // field section: :method GET, :scheme https, :path /, :authority "a" (static name reference 0, plain value)
    let block = [0x00u8, 0x00, 0xd1, 0xd7, 0xc1, 0x50, 0x01, b'a'];
    let mut bytes = vec![0x01, block.len() as u8];
    bytes.extend_from_slice(&block);
    bytes.extend_from_slice(&[0x00, 0x00]); // DATA, length 0
    bytes.extend_from_slice(&[0x00, 0x03, b'a', b'b', b'c']); // DATA "abc"
    mock.push_bidi(0, vec![RecvEvent::Data(bytes), RecvEvent::Fin]);
    let resolver = match drive(conn.accept(), 10) {
        Some(Ok(Some(r))) => r,
        _ => {
            println!("request not accepted");
            return 0;
        }
    };
    let (_req, mut stream) = match drive(resolver.resolve_request(), 10) {
        Some(Ok(x)) => x,
        other => {
            println!("request headers not resolved: {:?}", other.map(|r| r.map(|_| ())));
            return 0;
        }
    };
    let mut body = Vec::new();
    let mut rc = 0;
    loop {
        match drive(stream.recv_data(), 10) {
            Some(Ok(Some(mut b))) => {
                use bytes::Buf;
                while b.has_remaining() {
                    body.push(b.chunk()[0]);
                    b.advance(1);
                }
            }
            Some(Ok(None)) => break,
            Some(Err(e)) => {
                println!("recv_data error: {:?}", e);
                rc = 1;
                break;
            }
            None => {
                println!("recv_data pending");
                break;
            }
        }
    }
    let trailers = drive(stream.recv_trailers(), 10);
    println!("body delivered before end-of-body: {:?}; recv_trailers: {:?}", String::from_utf8_lossy(&body), trailers.as_ref().map(|r| r.as_ref().map(|_| ())));
    if body != b"abc" || !matches!(trailers, Some(Ok(None))) {
        println!("REPRODUCED: an empty DATA frame ended the body early / the following DATA frame became a connection error; close calls {:?}",
            mock.world.lock().unwrap().log.closed.iter().map(|c| c.0).collect::<Vec<_>>());
        rc = 1;
    }
    std::mem::forget(stream);
    std::mem::forget(conn);
    rc
}


/// Server: the client's control stream delivers SETTINGS, then an unknown frame (type 0x21, 40 payload bytes) whose
/// bytes arrive in two transport chunks with a poll in between, immediately followed by GOAWAY(0) in the second chunk.
/// Chunking must not matter: the GOAWAY is complete in the buffer and must be acted upon, so with no request in flight
/// accept reports 'no more requests'. Reproduces (exit 1) if the accept call stays Pending.
fn c02_decoder_memo() -> i32 {
    let mock = Mock::new(true);
    let mut conn: h3::server::Connection<Mock, Bytes> =
        drive(h3::server::builder().build(mock.clone()), 10).expect("build completes").expect("build ok");
    let mut first = vec![0x00, 0x04, 0x00, 0x21, 40];
    first.extend_from_slice(&[0xaa; 10]);
    let mut second = vec![0xaa; 30];
    second.extend_from_slice(&[0x07, 0x01, 0x00]);
    mock.push_uni(2, vec![RecvEvent::Data(first), RecvEvent::Pending, RecvEvent::Pending, RecvEvent::Pending, RecvEvent::Data(second)]);
    let (_c, waker) = counting_waker();
    let mut cx = Context::from_waker(&waker);
    let mut last = String::new();
    for i in 0..10 {
        let r = conn.poll_accept_request_stream(&mut cx);
        last = match &r {
            Poll::Pending => "Pending".to_string(),
            Poll::Ready(Ok(None)) => "Ready(Ok(None))".to_string(),
            Poll::Ready(Ok(Some(_))) => "Ready(Ok(Some))".to_string(),
            Poll::Ready(Err(e)) => format!("Ready(Err({:?}))", e),
        };
        println!("poll {}: {}", i, last);
        if let Poll::Ready(Ok(Some(s))) = r {
            std::mem::forget(s);
        }
        if last != "Pending" {
            break;
        }
    }
    std::mem::forget(conn);
    if last != "Ready(Ok(None))" {
        println!("REPRODUCED: the GOAWAY that follows an unknown frame delivered in two chunks is not acted upon ({})", last);
        1
    } else {
        0
    }
}


/// Server request stream: HEADERS, then a DATA frame announcing 4 payload bytes of which only "ab" arrive; the
/// transport then reports the end of the stream in a later poll (chunk boundary == truncation point). The cut-off
/// frame must be reported as an error (H3_FRAME_ERROR); reproduces (exit 1) if recv_data reports a clean end of body.
fn c02_truncated_data() -> i32 {
    let mock = Mock::new(true);
    let mut conn: h3::server::Connection<Mock, Bytes> =
        drive(h3::server::builder().build(mock.clone()), 10).expect("build completes").expect("build ok");
    let block = [0x00u8, 0x00, 0xd1, 0xd7, 0xc1, 0x50, 0x01, b'a'];
    let mut bytes = vec![0x01, block.len() as u8];
    bytes.extend_from_slice(&block);
    bytes.extend_from_slice(&[0x00, 0x04, b'a', b'b']); // DATA, declared length 4, two bytes present
    mock.push_bidi(0, vec![RecvEvent::Data(bytes), RecvEvent::Pending, RecvEvent::Pending, RecvEvent::Pending, RecvEvent::Fin]);
    let resolver = match drive(conn.accept(), 10) {
        Some(Ok(Some(r))) => r,
        _ => {
            println!("request not accepted");
            return 0;
        }
    };
    let (_req, mut stream) = match drive(resolver.resolve_request(), 10) {
        Some(Ok(x)) => x,
        _ => {
            println!("request headers not resolved");
            return 0;
        }
    };
    let (_c, waker) = counting_waker();
    let mut cx = Context::from_waker(&waker);
    let mut outcome = String::new();
    for i in 0..6 {
        let r = stream.poll_recv_data(&mut cx);
        outcome = match &r {
            Poll::Pending => "Pending".to_string(),
            Poll::Ready(Ok(Some(_))) => "chunk".to_string(),
            Poll::Ready(Ok(None)) => "end of body".to_string(),
            Poll::Ready(Err(e)) => format!("error {:?}", e),
        };
        println!("recv_data poll {}: {}", i, outcome);
        if outcome == "end of body" || outcome.starts_with("error") {
            break;
        }
    }
    std::mem::forget(stream);
    std::mem::forget(conn);
    if outcome == "end of body" {
        println!("REPRODUCED: a DATA payload cut off by the end of the stream is reported as a clean end of body");
        1
    } else {
        0
    }
}

/// QPACK encoder look-up: encode the single field (name, value) with encode_stateless and decode the bytes again with
/// decode_stateless (whose static table the Kani harnesses compare with RFC 9204 Appendix A row by row). Reproduces
/// (exit 1) if the decoded field differs from the input.
fn c11_static_find(name: &str, value: &str) -> i32 {
    use h3::qpack::{decode_stateless, encode_stateless, HeaderField};
    let field = HeaderField::new(name.as_bytes().to_vec(), value.as_bytes().to_vec());
    let mut block = Vec::new();
    if encode_stateless(&mut block, vec![field.clone()]).is_err() {
        println!("encode failed");
        return 0;
    }
    let mut r = &block[..];
    match decode_stateless(&mut r, u64::MAX) {
        Ok(d) if d.fields.len() == 1 && d.fields[0] == field => {
            println!("round trip ok for {:?}: {:?}", name, value);
            0
        }
        other => {
            println!("encoded {:?}: {:?} as {:02x?}; decodes to {:?}", name, value, block, other.map(|d| d.fields));
            println!("REPRODUCED: the field section h3 wrote does not decode to the input field");
            1
        }
    }
}


/// Server request stream: HEADERS, then a DATA frame announcing 8 bytes of which 3 arrive with the header; the peer
/// then RESETs the stream (code given as argument, default 0x10c H3_REQUEST_CANCELLED). The reset is a fault confined to this request: recv_data
/// must end in StreamError::RemoteTerminate with the peer's code and the connection must stay healthy. Reproduces
/// (exit 1) if a connection error is raised or another error is reported.
fn c07_reset_inside_frame(reset_code: u64) -> i32 {
    let mock = Mock::new(true);
    let mut conn: h3::server::Connection<Mock, Bytes> =
        drive(h3::server::builder().build(mock.clone()), 10).expect("build completes").expect("build ok");
    let shared = conn.inner.shared.clone();
    let block = [0x00u8, 0x00, 0xd1, 0xd7, 0xc1, 0x50, 0x01, b'a'];
    let mut bytes = vec![0x01, block.len() as u8];
    bytes.extend_from_slice(&block);
    bytes.extend_from_slice(&[0x00, 0x08, b'a', b'b', b'c']);
    mock.push_bidi(0, vec![RecvEvent::Data(bytes), RecvEvent::Reset(reset_code)]);
    let resolver = match drive(conn.accept(), 10) {
        Some(Ok(Some(r))) => r,
        _ => {
            println!("request not accepted");
            return 0;
        }
    };
    let (_req, mut stream) = match drive(resolver.resolve_request(), 10) {
        Some(Ok(x)) => x,
        _ => {
            println!("request headers not resolved");
            return 0;
        }
    };
    let (_c, waker) = counting_waker();
    let mut cx = Context::from_waker(&waker);
    let mut outcome = String::new();
    let mut ok = false;
    println!("reset code {:#x}", reset_code);
    for i in 0..6 {
        let r = stream.poll_recv_data(&mut cx);
        outcome = match &r {
            Poll::Pending => "Pending".to_string(),
            Poll::Ready(Ok(Some(_))) => "chunk".to_string(),
            Poll::Ready(Ok(None)) => "end of body".to_string(),
            Poll::Ready(Err(StreamError::RemoteTerminate { code })) => {
                ok = code.value() == reset_code;
                format!("RemoteTerminate({:#x})", code.value())
            }
            Poll::Ready(Err(e)) => format!("error {:?}", e),
        };
        println!("recv_data poll {}: {}", i, outcome);
        if outcome != "chunk" && outcome != "Pending" {
            break;
        }
    }
    let conn_err = shared.get_conn_error().is_some();
    println!("connection error stored: {}", conn_err);
    std::mem::forget(stream);
    std::mem::forget(conn);
    if !ok || conn_err {
        println!("REPRODUCED: the peer's RESET of one request is not reported as RemoteTerminate with its code / harms the connection");
        1
    } else {
        0
    }
}


/// Server: one request stream arrives and is finished by the client before any HEADERS (FIN only). The application
/// accepts it and tries to resolve it (refused: H3_REQUEST_INCOMPLETE). The client then sends GOAWAY. Every request
/// the server handed out has ended, so accept must report 'no more requests'. Reproduces (exit 1) if it stays Pending.
fn c09_refused_request_blocks_shutdown() -> i32 {
    let mock = Mock::new(true);
    let mut conn: h3::server::Connection<Mock, Bytes> =
        drive(h3::server::builder().build(mock.clone()), 10).expect("build completes").expect("build ok");
    mock.push_bidi(0, vec![RecvEvent::Fin]);
    let resolver = match drive(conn.accept(), 10) {
        Some(Ok(Some(r))) => r,
        _ => {
            println!("request not accepted");
            return 0;
        }
    };
    let r = drive(resolver.resolve_request(), 10);
    println!("resolve_request on a stream finished before HEADERS: {:?}", r.as_ref().map(|x| x.as_ref().map(|_| ()).map_err(|e| format!("{:?}", e))));
    drop(r);
    // the client's control stream: SETTINGS, GOAWAY(0)
    mock.push_uni(2, vec![RecvEvent::Data(vec![0x00, 0x04, 0x00, 0x07, 0x01, 0x00])]);
    let (_c, waker) = counting_waker();
    let mut cx = Context::from_waker(&waker);
    let mut last = String::new();
    for i in 0..6 {
        let r = conn.poll_accept_request_stream(&mut cx);
        last = match &r {
            Poll::Pending => "Pending".to_string(),
            Poll::Ready(Ok(None)) => "Ready(Ok(None))".to_string(),
            Poll::Ready(Ok(Some(_))) => "Ready(Ok(Some))".to_string(),
            Poll::Ready(Err(e)) => format!("Ready(Err({:?}))", e),
        };
        println!("accept poll {}: {}", i, last);
        if let Poll::Ready(Ok(Some(s))) = r {
            std::mem::forget(s);
        }
        if last != "Pending" {
            break;
        }
    }
    std::mem::forget(conn);
    if last == "Pending" {
        println!("REPRODUCED: the refused request is never reported as ended: after the peer's GOAWAY accept() waits forever");
        1
    } else {
        0
    }
}


fn unhex(s: &str) -> Vec<u8> {
    (0..s.len() / 2).map(|i| u8::from_str_radix(&s[2 * i..2 * i + 2], 16).unwrap_or(0)).collect()
}

/// HEADERS frame carrying one literal field line with a literal name (RFC 9204 4.5.6), no Huffman.
fn headers_frame_literal(fields: &[(&[u8], &[u8])]) -> Vec<u8> {
    let mut block = vec![0x00u8, 0x00];
    for (n, v) in fields {
        assert!(n.len() < 7 && v.len() < 127);
        block.push(0x20 | n.len() as u8);
        block.extend_from_slice(n);
        block.push(v.len() as u8);
        block.extend_from_slice(v);
    }
    let mut f = vec![0x01, block.len() as u8];
    f.extend_from_slice(&block);
    f
}

/// A malformed message (a field whose name has an upper-case letter) arrives as a response (role "client"), a request
/// ("server") or trailers ("trailers"): it must be refused with StreamError{code: H3_MESSAGE_ERROR} and every signal sent
/// on that stream (STOP_SENDING / RESET_STREAM) must carry H3_MESSAGE_ERROR.
fn c12_refusal(role: &str) -> i32 {
    let msg = Code::H3_MESSAGE_ERROR.value();
    let code_of = |e: &StreamError| match e {
        StreamError::StreamError { code, .. } => Some(code.value()),
        _ => None,
    };
    let (api, sid, mock) = match role {
        "client" => {
            let mock = Mock::new(false);
            mock.world.lock().unwrap().opened_bidi_events.push_back(vec![
                RecvEvent::Data(headers_frame_literal(&[(b"Bad", b"x")])),
                RecvEvent::Fin,
            ]);
            let (mut conn, mut send) = drive(h3::client::builder().build::<_, _, Bytes>(mock.clone()), 10)
                .expect("build completes").expect("build ok");
            let req = http::Request::builder().uri("https://a/").body(()).unwrap();
            let mut stream = drive(send.send_request(req), 10).expect("send_request completes").expect("send_request ok");
            let r = drive(stream.recv_response(), 10);
            let api = r.map(|r| r.map(|_| ()).map_err(|e| (code_of(&e), format!("{:?}", e))));
            std::mem::forget(stream);
            std::mem::forget(send);
            std::mem::forget(conn);
            (api, 0u64, mock)
        }
        "server" | "trailers" => {
            let mock = Mock::new(true);
            let mut conn: h3::server::Connection<Mock, Bytes> =
                drive(h3::server::builder().build(mock.clone()), 10).expect("build completes").expect("build ok");
            let good = [0x00u8, 0x00, 0xd1, 0xd7, 0xc1, 0x50, 0x01, b'a'];
            let mut bytes = Vec::new();
            if role == "server" {
                bytes.extend_from_slice(&headers_frame_literal(&[(b"Bad", b"x")]));
            } else {
                bytes.extend_from_slice(&[0x01, good.len() as u8]);
                bytes.extend_from_slice(&good);
                bytes.extend_from_slice(&headers_frame_literal(&[(b"Bad", b"x")]));
            }
            mock.push_bidi(0, vec![RecvEvent::Data(bytes), RecvEvent::Fin]);
            let resolver = match drive(conn.accept(), 10) {
                Some(Ok(Some(r))) => r,
                _ => {
                    println!("request not accepted");
                    return 0;
                }
            };
            let api = match drive(resolver.resolve_request(), 10) {
                None => None,
                Some(Err(e)) => Some(Err((code_of(&e), format!("{:?}", e)))),
                Some(Ok((_req, mut stream))) => {
                    if role == "server" {
                        std::mem::forget(stream);
                        Some(Ok(()))
                    } else {
                        let _ = drive(stream.recv_data(), 10);
                        let t = drive(stream.recv_trailers(), 10);
                        std::mem::forget(stream);
                        t.map(|r| r.map(|_| ()).map_err(|e| (code_of(&e), format!("{:?}", e))))
                    }
                }
            };
            std::mem::forget(conn);
            (api, 0u64, mock)
        }
        _ => return 2,
    };
    let w = mock.world.lock().unwrap();
    let stops: Vec<u64> = w.log.stop_sendings.iter().filter(|s| s.0 == sid).map(|s| s.1).collect();
    let resets: Vec<u64> = w.log.resets.iter().filter(|s| s.0 == sid).map(|s| s.1).collect();
    println!("{}: API result {:?}; STOP_SENDING codes {:x?}; RESET_STREAM codes {:x?}", role, api, stops, resets);
    let mut bad = false;
    match &api {
        Some(Err((Some(c), _))) if *c == msg => {}
        _ => {
            println!("REPRODUCED: the malformed message is not refused with StreamError{{code: H3_MESSAGE_ERROR}}");
            bad = true;
        }
    }
    if stops.iter().chain(resets.iter()).any(|c| *c != msg) {
        println!("REPRODUCED: a signal sent on the refused stream carries a code other than H3_MESSAGE_ERROR (0x{:x})", msg);
        bad = true;
    }
    if stops.is_empty() {
        println!("REPRODUCED: the refused stream is not stopped");
        bad = true;
    }
    bad as i32
}

/// One field (name, value given in hex) through the real gate; reproduces if the gate accepts a field the property
/// excludes: empty name, a byte outside lower-case tchar in a regular name, an undefined ':x' pseudo name, or an illegal
/// value byte in a regular field.
fn c12_field_gate(name_hex: &str, value_hex: &str) -> i32 {
    use h3::proto::headers::Header;
    use h3::qpack::HeaderField;
    let name = unhex(name_hex);
    let value = unhex(value_hex);
    let accepted = Header::try_from(vec![HeaderField::new(name.clone(), value.clone())]).is_ok();
    let defined: [&[u8]; 6] = [b":method", b":scheme", b":authority", b":path", b":status", b":protocol"];
    let tchar = |b: &u8| b.is_ascii_lowercase() || b.is_ascii_digit() || b"!#$%&'*+-.^_`|~".contains(b);
    let legal = if name.is_empty() {
        false
    } else if name[0] == b':' {
        defined.contains(&name.as_slice())
    } else {
        name.iter().all(tchar) && value.iter().all(|b| *b == b'\t' || (*b >= 0x20 && *b != 0x7f))
    };
    println!("name {:?} value {:?}: accepted={} legal={}", String::from_utf8_lossy(&name), String::from_utf8_lossy(&value), accepted, legal);
    if accepted && !legal {
        println!("REPRODUCED: the field gate accepts a field the property excludes");
        return 1;
    }
    if !accepted && legal && (name[0] != b':') {
        println!("REPRODUCED: the field gate refuses a legal regular field");
        return 1;
    }
    0
}

/// Request assembly for a combination of flags (letters): m = :method present, a = :authority "a", h = Host "a",
/// H = Host "b" (contradicts :authority "a"), C = Host "A" (differs from :authority "a" in letter case only). Reproduces if the outcome differs from the rule in the property.
fn c12_request_gate(flags: &str) -> i32 {
    use h3::proto::headers::Header;
    use h3::qpack::HeaderField;
    let mut f: Vec<HeaderField> = vec![HeaderField::new(&b":scheme"[..], &b"https"[..]), HeaderField::new(&b":path"[..], &b"/"[..])];
    if flags.contains('m') {
        f.push(HeaderField::new(&b":method"[..], &b"GET"[..]));
    }
    if flags.contains('a') {
        f.push(HeaderField::new(&b":authority"[..], &b"a"[..]));
    }
    if flags.contains('h') {
        f.push(HeaderField::new(&b"host"[..], &b"a"[..]));
    }
    if flags.contains('H') {
        f.push(HeaderField::new(&b"host"[..], &b"b"[..]));
    }
    if flags.contains('C') {
        // differs from :authority "a" only in letter case
        f.push(HeaderField::new(&b"host"[..], &b"A"[..]));
    }
    let accepted = Header::try_from(f).map(|h| h.into_request_parts().is_ok()).unwrap_or(false);
    let has_auth = flags.contains('a') || flags.contains('h') || flags.contains('H') || flags.contains('C');
    let contradict = flags.contains('a') && (flags.contains('H') || flags.contains('C'));
    let legal = flags.contains('m') && has_auth && !contradict;
    println!("flags {:?}: accepted={} legal={}", flags, accepted, legal);
    if accepted != legal {
        println!("REPRODUCED: request assembly {} a request it must {}", if accepted { "accepts" } else { "refuses" }, if legal { "accept" } else { "refuse" });
        return 1;
    }
    0
}

/// Field order of messages h3 builds: every pseudo-header field before any regular field, each at most once.
fn c12_send_order() -> i32 {
    use h3::proto::headers::Header;
    let mut map = http::HeaderMap::new();
    map.insert("x-a", http::HeaderValue::from_static("1"));
    map.append("x-a", http::HeaderValue::from_static("2"));
    let uri: http::Uri = "https://a/p?q".parse().unwrap();
    let hs = [
        Header::request(http::Method::GET, uri.clone(), map.clone(), Default::default()).expect("request header"),
        Header::request(http::Method::CONNECT, uri, map.clone(), Default::default()).expect("request header"),
        Header::response(http::StatusCode::OK, map),
    ];
    let mut rc = 0;
    for h in hs {
        let names: Vec<Vec<u8>> = h.into_iter().map(|f| f.into_inner().0.to_vec()).collect();
        let mut seen_regular = false;
        let mut seen: Vec<&[u8]> = Vec::new();
        for n in &names {
            if n[0] != b':' {
                seen_regular = true;
                continue;
            }
            if seen_regular || seen.contains(&n.as_slice()) {
                rc = 1;
            }
            seen.push(n);
        }
        println!("emitted: {:?}", names.iter().map(|n| String::from_utf8_lossy(n).to_string()).collect::<Vec<_>>());
    }
    if rc == 1 {
        println!("REPRODUCED: a pseudo-header field is emitted after a regular field or twice");
    }
    rc
}


/// An incoming unidirectional stream whose bytes (hex) arrive as scripted: D<k> = a chunk of k bytes, P = nothing yet
/// (poll again), F = FIN, R = reset, C = connection closed. A push stream (type 0x01) is fed to a client, a WebTransport
/// stream (0x54) to a server with WebTransport enabled. Reproduces if h3 closes the connection with H3_INTERNAL_ERROR:
/// a stream header can be incomplete, never malformed.
fn c19_uni_header(script: &str, bytes_hex: &str, must_surface: bool) -> i32 {
    let data = unhex(bytes_hex);
    let mut events = Vec::new();
    let mut pos = 0usize;
    let mut polls = 2;
    for ev in script.split(',').filter(|e| !e.is_empty()) {
        match &ev[..1] {
            "D" => {
                let k: usize = ev[1..].parse().unwrap_or(1);
                let end = usize::min(pos + k, data.len());
                events.push(RecvEvent::Data(data[pos..end].to_vec()));
                pos = end;
            }
            "P" => {
                events.push(RecvEvent::Pending);
                polls += 1;
            }
            "F" => events.push(RecvEvent::Fin),
            "R" => events.push(RecvEvent::Reset(0x10c)),
            "C" => events.push(RecvEvent::ConnClose(0x100)),
            _ => return 2,
        }
    }
    let (ty, _) = if data.is_empty() { (0, 0) } else { varint_at(&data, 0) };
    let (_c, waker) = counting_waker();
    let mut cx = Context::from_waker(&waker);
    let mock;
    let mut surfaced = None;
    if ty == 0x01 {
        mock = Mock::new(false);
        let (mut conn, send) = drive(h3::client::builder().build::<_, _, Bytes>(mock.clone()), 10)
            .expect("build completes").expect("build ok");
        mock.push_uni(3, events);
        for i in 0..polls {
            let r = conn.poll_close(&mut cx);
            println!("client poll {}: {}", i, match r { Poll::Pending => "Pending".to_string(), Poll::Ready(e) => format!("Ready({:?})", e) });
        }
        std::mem::forget(send);
        std::mem::forget(conn);
    } else {
        mock = Mock::new(true);
        let mut b = h3::server::builder();
        b.enable_webtransport(true).enable_extended_connect(true).enable_datagram(true).max_webtransport_sessions(1);
        let mut conn: h3::server::Connection<Mock, Bytes> = drive(b.build(mock.clone()), 10).expect("build completes").expect("build ok");
        mock.push_uni(2, events);
        for i in 0..polls {
            let r = conn.poll_accept_request_stream(&mut cx);
            println!("server poll {}: {}", i, match r {
                Poll::Pending => "Pending".to_string(),
                Poll::Ready(Ok(_)) => "Ready(Ok)".to_string(),
                Poll::Ready(Err(e)) => format!("Ready(Err({:?}))", e),
            });
        }
        surfaced = Some(conn.inner.accepted_streams_mut().wt_uni_streams.len());
        println!("WebTransport streams surfaced: {}", surfaced.unwrap());
        std::mem::forget(conn);
    }
    let closed = mock.world.lock().unwrap().log.closed.clone();
    println!("close calls: {:x?}", closed.iter().map(|c| c.0).collect::<Vec<_>>());
    if closed.iter().any(|c| c.0 == Code::H3_INTERNAL_ERROR.value()) {
        println!("REPRODUCED: the stream header, split across transport chunks, closes the connection with H3_INTERNAL_ERROR");
        return 1;
    }
    // with `surfaced`: the delivered bytes hold the complete WebTransport stream header (0x54 + session id)
    if must_surface && ty == 0x54 && surfaced == Some(0) {
        let tn = varint_at(&data, 0).1;
        if pos > tn && pos >= tn + varint_at(&data, tn).1 {
            println!("REPRODUCED: the complete stream header (and the payload behind it) is buffered but the stream is not surfaced");
            return 1;
        }
    }
    0
}


/// Client: send_request has to wait for stream credit (poll_open_bidi pending); meanwhile the server's SETTINGS arrive
/// with max_field_section_size = 50; then credit is granted. The request's field section is far larger than 50, so the
/// call must end in HeaderTooBig and nothing may be written on the request stream. Reproduces if HEADERS bytes go out.
fn c10_stale_limit() -> i32 {
    use std::future::Future;
    let mock = Mock::new(false);
    let (mut conn, mut send) = drive(h3::client::builder().build::<_, _, Bytes>(mock.clone()), 10)
        .expect("build completes").expect("build ok");
    mock.world.lock().unwrap().open_bidi.push_back(Ready::Pending);
    let req = http::Request::builder()
        .uri("https://a/")
        .header("x-big", "0123456789012345678901234567890123456789012345678901234567890123456789")
        .body(())
        .unwrap();
    let (_c, waker) = counting_waker();
    let mut cx = Context::from_waker(&waker);
    let mut fut = Box::pin(send.send_request(req));
    let first = fut.as_mut().poll(&mut cx);
    println!("send_request poll 0: {}", if first.is_pending() { "Pending (no stream credit yet)" } else { "Ready" });
    // the peer's control stream: type 0x00, SETTINGS { MAX_FIELD_SECTION_SIZE (0x06) = 50 }
    mock.push_uni(3, vec![RecvEvent::Data(vec![0x00, 0x04, 0x02, 0x06, 50])]);
    let d = conn.poll_close(&mut cx);
    println!("driver poll: {}", if d.is_pending() { "Pending" } else { "Ready" });
    let second = fut.as_mut().poll(&mut cx);
    let outcome = match &second {
        Poll::Pending => "Pending".to_string(),
        Poll::Ready(Ok(_)) => "Ok(request stream)".to_string(),
        Poll::Ready(Err(e)) => format!("Err({:?})", e),
    };
    let sent = mock.world.lock().unwrap().log.sent.get(&0).map(|b| b.len()).unwrap_or(0);
    println!("send_request poll 1: {}; bytes written on the request stream: {}", outcome, sent);
    std::mem::forget(second);
    std::mem::forget(fut);
    std::mem::forget(conn);
    if sent > 0 {
        println!("REPRODUCED: a field section larger than the limit the peer has advertised (50) was sent");
        return 1;
    }
    0
}


/// Server with WebTransport enabled: a unidirectional WebTransport stream (type 0x54, session id 8, payload "hello", FIN)
/// arrives under several chunkings, among them every cut of the 8 bytes into two chunks and 'everything at once'; the
/// stream is surfaced by the connection and then read through quic::RecvStream::poll_data as h3-webtransport does.
/// Reproduces if for some chunking the session id is not 8 or the payload is not exactly "hello".
fn c19_payload_with_header() -> i32 {
    use h3::quic::RecvStream as _;
    let wire = [0x40u8, 0x54, 0x08, b'h', b'e', b'l', b'l', b'o'];
    let mut scripts: Vec<Vec<RecvEvent>> = vec![vec![RecvEvent::Data(wire.to_vec()), RecvEvent::Fin]];
    for cut in 1..wire.len() {
        scripts.push(vec![RecvEvent::Data(wire[..cut].to_vec()), RecvEvent::Data(wire[cut..].to_vec()), RecvEvent::Fin]);
        scripts.push(vec![RecvEvent::Data(wire[..cut].to_vec()), RecvEvent::Pending, RecvEvent::Data(wire[cut..].to_vec()), RecvEvent::Fin]);
    }
    scripts.push(wire.iter().map(|b| RecvEvent::Data(vec![*b])).chain(std::iter::once(RecvEvent::Fin)).collect());
    let (_c, waker) = counting_waker();
    let mut cx = Context::from_waker(&waker);
    let mut rc = 0;
    for script in scripts {
        let desc = format!("{:?}", script);
        let mock = Mock::new(true);
        let mut b = h3::server::builder();
        b.enable_webtransport(true).enable_extended_connect(true).enable_datagram(true).max_webtransport_sessions(1);
        let mut conn: h3::server::Connection<Mock, Bytes> = drive(b.build(mock.clone()), 10).expect("build completes").expect("build ok");
        mock.push_uni(2, script);
        for _ in 0..12 {
            let _ = conn.poll_accept_request_stream(&mut cx);
        }
        let mut streams = std::mem::take(&mut conn.inner.accepted_streams_mut().wt_uni_streams);
        if streams.len() != 1 {
            println!("{}: {} streams surfaced", desc, streams.len());
            println!("REPRODUCED: the WebTransport stream is not surfaced");
            rc = 1;
            std::mem::forget(conn);
            continue;
        }
        let (id, mut stream) = streams.pop().unwrap();
        let mut payload = Vec::new();
        for _ in 0..20 {
            match stream.poll_data(&mut cx) {
                Poll::Ready(Ok(Some(c))) => payload.extend_from_slice(&c),
                Poll::Ready(Ok(None)) => break,
                Poll::Ready(Err(_)) => break,
                Poll::Pending => {}
            }
        }
        let want = h3::webtransport::SessionId::try_from(8u64).unwrap();
        if id != want || payload != b"hello" {
            println!("{}: session id {:?}, payload {:?}", desc, id, String::from_utf8_lossy(&payload));
            println!("REPRODUCED: the payload behind the stream header is not delivered complete and unmodified");
            rc = 1;
        }
        std::mem::forget(stream);
        std::mem::forget(conn);
    }
    if rc == 0 {
        println!("session id 8 and payload \"hello\" under every chunking tried");
    }
    rc
}


/// Server: one request is accepted, resolved and split into its send and receive halves; the peer then announces
/// GOAWAY(0). One half is dropped, the other is kept: the request is still in progress, so accept() must NOT report
/// 'no more requests'. After the second half is dropped it must. Tried with either half dropped first.
fn c09_split_halves() -> i32 {
    let mut rc = 0;
    for drop_send_first in [true, false] {
        let mock = Mock::new(true);
        let mut conn: h3::server::Connection<Mock, Bytes> =
            drive(h3::server::builder().build(mock.clone()), 10).expect("build completes").expect("build ok");
        let block = [0x00u8, 0x00, 0xd1, 0xd7, 0xc1, 0x50, 0x01, b'a'];
        let mut bytes = vec![0x01, block.len() as u8];
        bytes.extend_from_slice(&block);
        mock.push_bidi(0, vec![RecvEvent::Data(bytes)]);
        let resolver = match drive(conn.accept(), 10) {
            Some(Ok(Some(r))) => r,
            _ => {
                println!("request not accepted");
                return 0;
            }
        };
        let (_req, stream) = match drive(resolver.resolve_request(), 10) {
            Some(Ok(x)) => x,
            _ => {
                println!("request not resolved");
                return 0;
            }
        };
        let (send_half, recv_half) = stream.split();
        // the client's control stream: SETTINGS, then GOAWAY(0)
        mock.push_uni(2, vec![RecvEvent::Data(vec![0x00, 0x04, 0x00, 0x07, 0x01, 0x00])]);
        let mut kept_send = None;
        let mut kept_recv = None;
        if drop_send_first {
            drop(send_half);
            kept_recv = Some(recv_half);
        } else {
            drop(recv_half);
            kept_send = Some(send_half);
        }
        let (_c, waker) = counting_waker();
        let mut cx = Context::from_waker(&waker);
        let mut early = false;
        for i in 0..4 {
            let r = conn.poll_accept_request_stream(&mut cx);
            let d = match &r {
                Poll::Pending => "Pending".to_string(),
                Poll::Ready(Ok(None)) => "Ready(Ok(None))".to_string(),
                Poll::Ready(Ok(Some(_))) => "Ready(Ok(Some))".to_string(),
                Poll::Ready(Err(e)) => format!("Ready(Err({:?}))", e),
            };
            println!("{} half dropped, other half alive, accept poll {}: {}", if drop_send_first { "send" } else { "recv" }, i, d);
            if matches!(r, Poll::Ready(Ok(None))) {
                early = true;
            }
            std::mem::forget(r);
        }
        if early {
            println!("REPRODUCED: accept() reports 'no more requests' while one half of a split request is still in use");
            rc = 1;
        }
        drop(kept_send);
        drop(kept_recv);
        let mut ended = false;
        for _ in 0..4 {
            if matches!(conn.poll_accept_request_stream(&mut cx), Poll::Ready(Ok(None))) {
                ended = true;
            }
        }
        println!("both halves dropped: accept reports 'no more requests': {}", ended);
        if !ended {
            println!("REPRODUCED: accept() does not end after both halves of the request were dropped");
            rc = 1;
        }
        std::mem::forget(conn);
    }
    rc
}


/// Server, classification of incoming unidirectional streams (poll_accept_recv):
///  duplicates: a second control / QPACK encoder / QPACK decoder stream (in the same poll as the first, or in a later
///              poll) must close the connection with H3_STREAM_CREATION_ERROR; the first of each kind must not;
///  unknown:    streams of unknown type (0x21, 0x3f) and streams that end or are reset before their type is known must be
///              tolerated: no close; the unknown ones are stop_sending'ed with H3_STREAM_CREATION_ERROR;
///  wt:         a WebTransport unidirectional stream is handed on iff the extension is enabled, never an error.
fn c04_uni_streams(mode: &str) -> i32 {
    let (_c, waker) = counting_waker();
    let mut cx = Context::from_waker(&waker);
    let creation = Code::H3_STREAM_CREATION_ERROR.value();
    let mut rc = 0;
    let server = |wt: bool| -> (Mock, h3::server::Connection<Mock, Bytes>) {
        let mock = Mock::new(true);
        let mut b = h3::server::builder();
        if wt {
            b.enable_webtransport(true).enable_extended_connect(true).enable_datagram(true).max_webtransport_sessions(1);
        }
        let conn = drive(b.build(mock.clone()), 10).expect("build completes").expect("build ok");
        (mock, conn)
    };
    match mode {
        "duplicates" => {
            for (ty, name) in [(0x00u8, "control"), (0x02, "QPACK encoder"), (0x03, "QPACK decoder")] {
                for same_poll in [true, false] {
                    let (mock, mut conn) = server(false);
                    let first = if ty == 0 { vec![0x00, 0x04, 0x00] } else { vec![ty] };
                    mock.push_uni(2, vec![RecvEvent::Data(first)]);
                    if !same_poll {
                        let _ = conn.poll_accept_request_stream(&mut cx);
                        let closed = mock.world.lock().unwrap().log.closed.len();
                        if closed != 0 {
                            println!("REPRODUCED: the first {} stream closes the connection", name);
                            rc = 1;
                        }
                    }
                    mock.push_uni(6, vec![RecvEvent::Data(vec![ty])]);
                    let _ = conn.poll_accept_request_stream(&mut cx);
                    let _ = conn.poll_accept_request_stream(&mut cx);
                    let closed: Vec<u64> = mock.world.lock().unwrap().log.closed.iter().map(|c| c.0).collect();
                    println!("second {} stream ({}): close calls {:x?}", name, if same_poll { "same poll" } else { "later poll" }, closed);
                    if closed != vec![creation] {
                        println!("REPRODUCED: a second {} stream is not the connection error H3_STREAM_CREATION_ERROR", name);
                        rc = 1;
                    }
                    std::mem::forget(conn);
                }
            }
            // one of each kind is legal
            let (mock, mut conn) = server(false);
            mock.push_uni(2, vec![RecvEvent::Data(vec![0x00, 0x04, 0x00])]);
            mock.push_uni(6, vec![RecvEvent::Data(vec![0x02])]);
            mock.push_uni(10, vec![RecvEvent::Data(vec![0x03])]);
            for _ in 0..3 {
                let _ = conn.poll_accept_request_stream(&mut cx);
            }
            let closed: Vec<u64> = mock.world.lock().unwrap().log.closed.iter().map(|c| c.0).collect();
            println!("one control, one encoder, one decoder stream: close calls {:x?}", closed);
            if !closed.is_empty() {
                println!("REPRODUCED: the first stream of a critical kind is refused");
                rc = 1;
            }
            std::mem::forget(conn);
        }
        "unknown" => {
            let (mock, mut conn) = server(false);
            mock.push_uni(2, vec![RecvEvent::Data(vec![0x21, 1, 2, 3])]);
            mock.push_uni(6, vec![RecvEvent::Data(vec![0x3f])]);
            mock.push_uni(10, vec![RecvEvent::Fin]);
            mock.push_uni(14, vec![RecvEvent::Reset(0x10c)]);
            mock.push_uni(18, vec![RecvEvent::Data(vec![0x40]), RecvEvent::Fin]);
            for _ in 0..3 {
                let _ = conn.poll_accept_request_stream(&mut cx);
            }
            let w = mock.world.lock().unwrap();
            let closed: Vec<u64> = w.log.closed.iter().map(|c| c.0).collect();
            let stops = w.log.stop_sendings.clone();
            println!("unknown / early-ended streams: close calls {:x?}, stop_sending {:x?}", closed, stops);
            if !closed.is_empty() {
                println!("REPRODUCED: an unknown or early-ended unidirectional stream closes the connection");
                rc = 1;
            }
            for id in [2u64, 6] {
                if stops.iter().filter(|s| s.0 == id).map(|s| s.1).collect::<Vec<_>>() != vec![creation] {
                    println!("REPRODUCED: the unknown stream {} is not stop_sending'ed with H3_STREAM_CREATION_ERROR exactly once", id);
                    rc = 1;
                }
            }
            drop(w);
            std::mem::forget(conn);
        }
        "wt" => {
            for enabled in [true, false] {
                let (mock, mut conn) = server(enabled);
                mock.push_uni(2, vec![RecvEvent::Data(vec![0x40, 0x54, 0x08, b'x'])]);
                for _ in 0..3 {
                    let _ = conn.poll_accept_request_stream(&mut cx);
                }
                let n = conn.inner.accepted_streams_mut().wt_uni_streams.len();
                let closed = mock.world.lock().unwrap().log.closed.len();
                println!("WebTransport enabled={}: streams handed on {}, close calls {}", enabled, n, closed);
                if (n == 1) != enabled || closed != 0 {
                    println!("REPRODUCED: a WebTransport unidirectional stream is {} although the extension is {}",
                        if n == 1 { "handed on" } else { "not handed on" }, if enabled { "enabled" } else { "not enabled" });
                    rc = 1;
                }
                std::mem::forget(conn);
            }
        }
        _ => return 2,
    }
    rc
}


/// Server with a small limit (10) receives a request whose field section is larger; the client has advertised
/// MAX_FIELD_SECTION_SIZE = L. The automatic 431 answer is a 42-byte field section (":status" + "431" + 32): with L = 41
/// it must be withheld (nothing written on the request stream), with L = 42 it must be sent. Either way the call ends in
/// a header-too-big error, never a connection error.
fn c10_431_respects_client_limit() -> i32 {
    let mut rc = 0;
    for limit in [41u8, 42] {
        let mock = Mock::new(true);
        let mut b = h3::server::builder();
        b.max_field_section_size(10);
        let mut conn: h3::server::Connection<Mock, Bytes> = drive(b.build(mock.clone()), 10).expect("build completes").expect("build ok");
        // client's control stream: SETTINGS { MAX_FIELD_SECTION_SIZE = limit }
        mock.push_uni(2, vec![RecvEvent::Data(vec![0x00, 0x04, 0x02, 0x06, limit])]);
        let block = [0x00u8, 0x00, 0xd1, 0xd7, 0xc1, 0x50, 0x01, b'a'];
        let mut bytes = vec![0x01, block.len() as u8];
        bytes.extend_from_slice(&block);
        mock.push_bidi(0, vec![RecvEvent::Data(bytes), RecvEvent::Fin]);
        let resolver = match drive(conn.accept(), 10) {
            Some(Ok(Some(r))) => r,
            _ => {
                println!("request not accepted");
                return 0;
            }
        };
        let r = drive(resolver.resolve_request(), 10);
        let outcome = match &r {
            None => "Pending".to_string(),
            Some(Ok(_)) => "Ok(request)".to_string(),
            Some(Err(e)) => format!("Err({:?})", e),
        };
        let too_big = matches!(&r, Some(Err(StreamError::HeaderTooBig { .. })));
        std::mem::forget(r);
        let w = mock.world.lock().unwrap();
        let sent = w.log.sent.get(&0).map(|b| b.len()).unwrap_or(0);
        let closed = w.log.closed.len();
        println!("client limit {}: resolve_request -> {}; bytes written on the request stream {}; close calls {}", limit, outcome, sent, closed);
        if limit == 41 && sent > 0 {
            println!("REPRODUCED: the 431 answer (42 bytes) is sent although the client's limit is 41");
            rc = 1;
        }
        if limit == 42 && sent == 0 {
            println!("REPRODUCED: the 431 answer is withheld although it fits the client's limit");
            rc = 1;
        }
        if !too_big || closed != 0 {
            println!("REPRODUCED: the oversized request does not end in a header-too-big stream outcome without connection error");
            rc = 1;
        }
        drop(w);
        std::mem::forget(conn);
    }
    rc
}


fn varint_bytes(v: u64) -> Vec<u8> {
    if v < 1 << 6 {
        vec![v as u8]
    } else if v < 1 << 14 {
        (v as u16 | 0x4000).to_be_bytes().to_vec()
    } else if v < 1 << 30 {
        (v as u32 | 0x8000_0000).to_be_bytes().to_vec()
    } else {
        (v | 0xc000_0000_0000_0000).to_be_bytes().to_vec()
    }
}

/// Client: the server's control stream carries SETTINGS and then GOAWAY frames with the given ids (comma separated), all
/// in one chunk. Rule (RFC 9114 5.2 / 7.2.6): an id that is not a client-initiated bidirectional stream id, or that is
/// larger than the id of the GOAWAY before it, is the connection error H3_ID_ERROR; any other sequence is accepted.
fn c08_client_goaways(ids: &str) -> i32 {
    let ids: Vec<u64> = ids.split(',').filter_map(|x| x.trim().parse().ok()).collect();
    let mock = Mock::new(false);
    let (mut conn, send) = drive(h3::client::builder().build::<_, _, Bytes>(mock.clone()), 10)
        .expect("build completes").expect("build ok");
    let mut bytes = vec![0x00, 0x04, 0x00];
    for id in &ids {
        let v = varint_bytes(*id);
        bytes.push(0x07);
        bytes.push(v.len() as u8);
        bytes.extend_from_slice(&v);
    }
    mock.push_uni(3, vec![RecvEvent::Data(bytes)]);
    let (_c, waker) = counting_waker();
    let mut cx = Context::from_waker(&waker);
    for _ in 0..(ids.len() + 2) {
        let _ = conn.poll_close(&mut cx);
    }
    let closed: Vec<u64> = mock.world.lock().unwrap().log.closed.iter().map(|c| c.0).collect();
    let mut expect_error = false;
    for (i, id) in ids.iter().enumerate() {
        if id & 3 != 0 || (i > 0 && *id > ids[i - 1]) {
            expect_error = true;
            break;
        }
    }
    let got_error = closed.contains(&Code::H3_ID_ERROR.value());
    println!("GOAWAY ids {:?}: close calls {:x?}; H3_ID_ERROR expected: {}", ids, closed, expect_error);
    std::mem::forget(send);
    std::mem::forget(conn);
    if got_error != expect_error || (!expect_error && !closed.is_empty()) {
        println!("REPRODUCED: the GOAWAY sequence is {} although it must be {}", if got_error { "refused with H3_ID_ERROR" } else { "accepted" }, if expect_error { "refused with H3_ID_ERROR" } else { "accepted" });
        return 1;
    }
    0
}


/// Server request stream: HEADERS, DATA "abc", HEADERS (trailers) arrive in one chunk and the stream stays open. The
/// application follows the documented pattern (recv_data until None, then recv_trailers). While nothing else has arrived
/// recv_trailers must NOT complete the message (the stream has not ended: anything may still follow). Then a frame that
/// must not follow trailers arrives (DATA; in a second run SETTINGS): the outcome must be the connection error
/// H3_FRAME_UNEXPECTED, not a delivered message.
fn c03_frame_after_trailers() -> i32 {
    let mut rc = 0;
    for (name, late) in [("DATA", vec![0x00u8, 0x01, b'x']), ("SETTINGS", vec![0x04, 0x00])] {
        let mock = Mock::new(true);
        let mut conn: h3::server::Connection<Mock, Bytes> =
            drive(h3::server::builder().build(mock.clone()), 10).expect("build completes").expect("build ok");
        let block = [0x00u8, 0x00, 0xd1, 0xd7, 0xc1, 0x50, 0x01, b'a'];
        let mut bytes = vec![0x01, block.len() as u8];
        bytes.extend_from_slice(&block);
        bytes.extend_from_slice(&[0x00, 0x03, b'a', b'b', b'c']);
        bytes.extend_from_slice(&headers_frame_literal(&[(b"t", b"v")]));
        mock.push_bidi(0, vec![RecvEvent::Data(bytes)]);
        let resolver = match drive(conn.accept(), 10) {
            Some(Ok(Some(r))) => r,
            _ => {
                println!("request not accepted");
                return 0;
            }
        };
        let (_req, mut stream) = match drive(resolver.resolve_request(), 10) {
            Some(Ok(x)) => x,
            _ => {
                println!("request not resolved");
                return 0;
            }
        };
        loop {
            match drive(stream.recv_data(), 3) {
                Some(Ok(Some(_))) => continue,
                _ => break,
            }
        }
        let (_c, waker) = counting_waker();
        let mut cx = Context::from_waker(&waker);
        let show = |t: &Poll<Result<Option<http::HeaderMap>, StreamError>>| match t {
            Poll::Pending => "Pending".to_string(),
            Poll::Ready(Ok(Some(_))) => "Ok(Some(trailers))".to_string(),
            Poll::Ready(Ok(None)) => "Ok(None)".to_string(),
            Poll::Ready(Err(e)) => format!("Err({:?})", e),
        };
        let first = stream.poll_recv_trailers(&mut cx);
        println!("recv_trailers while the stream is open and nothing follows yet: {}", show(&first));
        if matches!(first, Poll::Ready(Ok(_))) {
            println!("REPRODUCED: the message is completed before the end of the stream was seen; a {} frame arriving next is never examined", name);
            rc = 1;
            std::mem::forget(stream);
            std::mem::forget(conn);
            continue;
        }
        mock.world.lock().unwrap().late.entry(0).or_default().extend([RecvEvent::Data(late), RecvEvent::Fin]);
        let mut second = stream.poll_recv_trailers(&mut cx);
        if second.is_pending() {
            second = stream.poll_recv_trailers(&mut cx);
        }
        println!("{} after the trailers, in a later chunk: recv_trailers -> {}", name, show(&second));
        let unexpected = matches!(&second, Poll::Ready(Err(StreamError::ConnectionError(ConnectionError::Local { error: LocalError::Application { code, .. } }))) if *code == Code::H3_FRAME_UNEXPECTED);
        if !unexpected {
            println!("REPRODUCED: a frame sequence with {} after the trailers does not end in H3_FRAME_UNEXPECTED", name);
            rc = 1;
        }
        std::mem::forget(second);
        std::mem::forget(stream);
        std::mem::forget(conn);
    }
    rc
}


/// Server: a request stream delivers frames cut inside (every cut position of a HEADERS frame with a 70-byte payload, i.e.
/// a 3-byte frame header, and the two bytes 40 41 of a WebTransport frame type without its session id), and nothing more
/// arrives. resolve_request / the frame layer must return Pending (and stay responsive); run under a watchdog: if one
/// poll does not return within 3 s the call spins.
fn c06_poll_next_spin() -> i32 {
    let (tx, rx) = std::sync::mpsc::channel::<String>();
    std::thread::spawn(move || {
        // HEADERS frame, 70-byte payload: field section prefix + one literal field with a 64-byte value
        let mut block = vec![0x00u8, 0x00, 0x21, b'n', 0x40];
        block.extend(std::iter::repeat(b'v').take(64));
        block.truncate(69);
        block[4] = 64;
        let mut frame = vec![0x01, 0x40, block.len() as u8];
        frame.extend_from_slice(&block);
        let mut inputs: Vec<Vec<u8>> = (1..frame.len()).map(|cut| frame[..cut].to_vec()).collect();
        inputs.push(vec![0x40, 0x41]);
        for input in inputs {
            let mock = Mock::new(true);
            let mut conn: h3::server::Connection<Mock, Bytes> =
                drive(h3::server::builder().build(mock.clone()), 10).expect("build completes").expect("build ok");
            let n = input.len();
            mock.push_bidi(0, vec![RecvEvent::Data(input)]);
            let resolver = match drive(conn.accept(), 10) {
                Some(Ok(Some(r))) => r,
                _ => continue,
            };
            tx.send(format!("start {}", n)).ok();
            let r = drive(resolver.resolve_request(), 3);
            tx.send(format!("done {} {}", n, if r.is_none() { "Pending" } else { "Ready" })).ok();
            std::mem::forget(r);
            std::mem::forget(conn);
        }
        tx.send("end".to_string()).ok();
    });
    let mut current = String::new();
    loop {
        match rx.recv_timeout(std::time::Duration::from_secs(3)) {
            Ok(m) if m == "end" => {
                println!("every truncated input left resolve_request Pending (or refused) without spinning");
                return 0;
            }
            Ok(m) => current = m,
            Err(_) => {
                println!("watchdog: no answer within 3 s after '{}' (bytes of the cut frame buffered, nothing more arrives)", current);
                println!("REPRODUCED: a poll of the frame layer never returns");
                return 1;
            }
        }
    }
}


/// A list of fields "name=value,name=value,.." through the real gate (Header::try_from): it must be accepted iff EVERY name
/// is a non-empty lower-case token (no pseudo names here) and every value is legal - whatever precedes a field.
fn c12_field_sequence(list: &str) -> i32 {
    use h3::proto::headers::Header;
    use h3::qpack::HeaderField;
    let pairs: Vec<(Vec<u8>, Vec<u8>)> = list
        .split(',')
        .filter_map(|p| p.split_once('='))
        .map(|(n, v)| (n.as_bytes().to_vec(), v.as_bytes().to_vec()))
        .collect();
    let tchar = |b: &u8| b.is_ascii_lowercase() || b.is_ascii_digit() || b"!#$%&'*+-.^_`|~".contains(b);
    let legal = pairs.iter().all(|(n, v)| !n.is_empty() && n.iter().all(tchar) && v.iter().all(|b| *b == b'\t' || (*b >= 0x20 && *b != 0x7f)));
    let accepted = Header::try_from(pairs.iter().map(|(n, v)| HeaderField::new(n.clone(), v.clone())).collect::<Vec<_>>()).is_ok();
    println!("fields {:?}: accepted={} legal={}", list, accepted, legal);
    if accepted && !legal {
        println!("REPRODUCED: a field list with an illegal field name or value is accepted");
        return 1;
    }
    if !accepted && legal {
        println!("REPRODUCED: a legal field list is refused");
        return 1;
    }
    0
}


/// Server: requests on the streams 0, 4, 8 (, 12 ..) are accepted and resolved, the peer announces GOAWAY, and the requests
/// end (their handles are dropped) in the given order, accept() being polled after each end. While one of them is still in
/// progress accept() must stay Pending; after the last one it must report 'no more requests'.
fn c09_end_order(order: &str) -> i32 {
    let order: Vec<u64> = order.split(',').filter_map(|x| x.trim().parse().ok()).collect();
    let mut ids: Vec<u64> = order.clone();
    ids.sort();
    let mock = Mock::new(true);
    let mut conn: h3::server::Connection<Mock, Bytes> =
        drive(h3::server::builder().build(mock.clone()), 10).expect("build completes").expect("build ok");
    let block = [0x00u8, 0x00, 0xd1, 0xd7, 0xc1, 0x50, 0x01, b'a'];
    let mut bytes = vec![0x01, block.len() as u8];
    bytes.extend_from_slice(&block);
    let mut streams = std::collections::HashMap::new();
    for id in &ids {
        mock.push_bidi(*id, vec![RecvEvent::Data(bytes.clone())]);
        let resolver = match drive(conn.accept(), 10) {
            Some(Ok(Some(r))) => r,
            _ => {
                println!("request {} not accepted", id);
                return 0;
            }
        };
        match drive(resolver.resolve_request(), 10) {
            Some(Ok((_req, stream))) => {
                streams.insert(*id, stream);
            }
            _ => {
                println!("request {} not resolved", id);
                return 0;
            }
        }
    }
    // the client's control stream: SETTINGS, then GOAWAY(0)
    mock.push_uni(2, vec![RecvEvent::Data(vec![0x00, 0x04, 0x00, 0x07, 0x01, 0x00])]);
    let (_c, waker) = counting_waker();
    let mut cx = Context::from_waker(&waker);
    let mut rc = 0;
    for (k, id) in order.iter().enumerate() {
        drop(streams.remove(id));
        let mut ended = false;
        for _ in 0..3 {
            if matches!(conn.poll_accept_request_stream(&mut cx), Poll::Ready(Ok(None))) {
                ended = true;
            }
        }
        let last = k + 1 == order.len();
        println!("request {} ended ({} of {}): accept reports 'no more requests': {}", id, k + 1, order.len(), ended);
        if ended && !last {
            println!("REPRODUCED: accept() reports 'no more requests' while a request is still in progress");
            rc = 1;
        }
        if !ended && last {
            println!("REPRODUCED: every request has ended (order {:?}) but accept() still waits", order);
            rc = 1;
        }
    }
    std::mem::forget(conn);
    rc
}


/// Server request stream carrying HEADERS, DATA "hello", an unknown frame (type 0x21, 3 bytes), DATA "abc", FIN, delivered
/// under EVERY way of cutting the byte string into one, two or three transport chunks: whatever the chunking the request
/// resolves and the body delivered is exactly "helloabc", followed by the end of the body and no trailers.
fn c02_chunking_independence() -> i32 {
    let block = [0x00u8, 0x00, 0xd1, 0xd7, 0xc1, 0x50, 0x01, b'a'];
    let mut wire = vec![0x01, block.len() as u8];
    wire.extend_from_slice(&block);
    wire.extend_from_slice(&[0x00, 0x05, b'h', b'e', b'l', b'l', b'o']);
    wire.extend_from_slice(&[0x21, 0x03, 1, 2, 3]);
    wire.extend_from_slice(&[0x00, 0x03, b'a', b'b', b'c']);
    let n = wire.len();
    let mut tried = 0;
    let mut rc = 0;
    for i in 0..=n {
        for j in i..=n {
            let mut events = Vec::new();
            for part in [&wire[..i], &wire[i..j], &wire[j..]] {
                if !part.is_empty() {
                    events.push(RecvEvent::Data(part.to_vec()));
                }
            }
            events.push(RecvEvent::Fin);
            let mock = Mock::new(true);
            let mut conn: h3::server::Connection<Mock, Bytes> =
                drive(h3::server::builder().build(mock.clone()), 10).expect("build completes").expect("build ok");
            mock.push_bidi(0, events);
            tried += 1;
            let outcome = (|| -> Result<Vec<u8>, String> {
                let resolver = match drive(conn.accept(), 10) {
                    Some(Ok(Some(r))) => r,
                    other => return Err(format!("accept: {}", if other.is_none() { "pending" } else { "error / none" })),
                };
                let (_req, mut stream) = match drive(resolver.resolve_request(), 10) {
                    Some(Ok(x)) => x,
                    Some(Err(e)) => return Err(format!("resolve_request: {:?}", e)),
                    None => return Err("resolve_request: pending".to_string()),
                };
                let mut body = Vec::new();
                loop {
                    match drive(stream.recv_data(), 10) {
                        Some(Ok(Some(mut b))) => {
                            use bytes::Buf;
                            while b.has_remaining() {
                                body.push(b.chunk()[0]);
                                b.advance(1);
                            }
                        }
                        Some(Ok(None)) => break,
                        Some(Err(e)) => return Err(format!("recv_data: {:?}", e)),
                        None => return Err("recv_data: pending".to_string()),
                    }
                }
                match drive(stream.recv_trailers(), 10) {
                    Some(Ok(None)) => {}
                    other => return Err(format!("recv_trailers: {:?}", other.map(|r| r.map(|t| t.is_some()).map_err(|e| format!("{:?}", e))))),
                }
                std::mem::forget(stream);
                Ok(body)
            })();
            std::mem::forget(conn);
            if outcome.as_deref() != Ok(&b"helloabc"[..]) {
                if rc == 0 {
                    println!("chunks cut at {} and {} of {} bytes: {:?}", i, j, n, outcome.map(|b| String::from_utf8_lossy(&b).to_string()));
                    println!("REPRODUCED: the outcome depends on how the bytes were cut into transport chunks");
                }
                rc = 1;
            }
        }
    }
    println!("{} chunkings tried", tried);
    rc
}
