//! Native replay of mirsym counterexamples against the real h3 code through the scripted mock transport.
//! usage: h3-verif-replay <scenario> [args...]   — exit 1 = violation reproduced, 0 = not reproduced, 2 = usage error.
mod mock;

use std::sync::atomic::Ordering;
use std::sync::Arc;
use std::task::{Context, Poll};

use bytes::Bytes;
use h3::error::internal_error::InternalConnectionError;
use h3::error::Code;
use h3::ConnectionState;
use mock::*;

fn main() {
    let args: Vec<String> = std::env::args().collect();
    if args.len() < 2 {
        eprintln!("usage: h3-verif-replay <scenario> [args]");
        std::process::exit(2);
    }
    let rc = match args[1].as_str() {
        "c05_lost_wakeup" => c05_lost_wakeup(args.get(2).map(|s| s.as_str()).unwrap_or("")),
        other => {
            eprintln!("unknown scenario {}", other);
            2
        }
    };
    std::process::exit(rc);
}

/// Schedule found by the solver: driver get() -> stream get_or_init() -> stream wake() -> driver register().
/// The stream task's raise is run from a pre-emption point inside the driver's poll. `hook` names the point, or
/// "any" tries every pre-emption point whose name starts with "driver:" in turn (fresh connection each time).
fn c05_lost_wakeup(hook: &str) -> i32 {
    if hook != "any" && !hook.is_empty() {
        return c05_lost_wakeup_at(hook, 0).0;
    }
    // discover the driver's pre-emption points by firing order
    let mut k = 0;
    loop {
        let (rc, fired) = c05_lost_wakeup_at("", k);
        if rc == 1 {
            return 1;
        }
        if !fired {
            println!("no pre-emption point left: schedule not reproduced");
            return 0;
        }
        k += 1;
    }
}

/// Run the raise at the pre-emption point named `hook`, or (hook empty) at the k-th firing of any "driver:" point.
fn c05_lost_wakeup_at(hook: &str, k: usize) -> (i32, bool) {
    let mock = Mock::new(true);
    let mut conn: h3::server::Connection<Mock, Bytes> =
        drive(h3::server::builder().build(mock.clone()), 10).expect("build completes").expect("build ok");
    let shared = conn.inner.shared.clone();
    let hook_name = hook.to_string();
    let raised = Arc::new(std::sync::atomic::AtomicUsize::new(0));
    let seen = Arc::new(std::sync::atomic::AtomicUsize::new(0));
    let at = Arc::new(std::sync::Mutex::new(String::new()));
    let (raised2, seen2, at2) = (raised.clone(), seen.clone(), at.clone());
    let shared2 = shared.clone();
    h3::verif_hooks::set_preempt(Some(Box::new(move |name: &'static str| {
        let hit = if hook_name.is_empty() {
            name.starts_with("driver:") && seen2.fetch_add(1, Ordering::SeqCst) == k
        } else {
            name == hook_name
        };
        if hit && raised2.fetch_add(1, Ordering::SeqCst) == 0 {
            *at2.lock().unwrap() = name.to_string();
            // what a request handle does when it detects a connection error (CloseStream::
            // handle_connection_error_on_stream): store the error, then wake the driver
            let _ = shared2.set_conn_error_and_wake(InternalConnectionError::new(
                Code::H3_FRAME_UNEXPECTED,
                "raised by a request task".to_string(),
            ));
        }
    })));
    let (count, waker) = counting_waker();
    let mut cx = Context::from_waker(&waker);
    let r = conn.inner.poll_connection_error(&mut cx);
    h3::verif_hooks::set_preempt(None);
    let pending = matches!(r, Poll::Pending);
    let error_set = shared.get_conn_error().is_some();
    let woken = count.0.load(Ordering::SeqCst);
    let fired = raised.load(Ordering::SeqCst) > 0;
    println!(
        "pre-emption at '{}': fired {}, driver poll returned Pending: {}, error stored: {}, driver waker woken {} time(s)",
        at.lock().unwrap(), fired, pending, error_set, woken
    );
    std::mem::forget(conn);
    if fired && pending && error_set && woken == 0 {
        println!("REPRODUCED: the driver is parked (Pending, waker never woken) although a connection error is stored");
        (1, true)
    } else {
        (0, fired)
    }
}
