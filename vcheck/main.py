#!/usr/bin/env python3
"""./check <Cxx> [--tier quick|thorough] — decide one property on /repo's current tree.

Exit codes: 0 = held on everything explored (known findings are printed as KNOWN-FINDING lines),
            1 = violation (a line `VIOLATION property=<id> replay=<path>` is printed),
            2 = inconclusive (timeout, out of memory, vacuous harness, unmodelled construct,
                counterexample that does not reproduce) — never reported as success.
"""
import argparse
import hashlib
import json
import os
import re
import subprocess
import sys
import time

HERE = os.path.dirname(os.path.abspath(__file__))
VERIF = os.path.dirname(HERE)
sys.path.insert(0, VERIF)

from vcheck import kani_engine as K  # noqa: E402

KNOWN_PATH = os.path.join(VERIF, "known_findings.json")


def load_known():
    if not os.path.exists(KNOWN_PATH):
        return []
    return json.load(open(KNOWN_PATH)).get("known", [])


def finding_key(harness, failed):
    d = failed["desc"]
    m = re.match(r"^(c\d\d\.[A-Za-z0-9_.]+)", d)
    if m:
        return m.group(1)
    fn = ""
    m = re.search(r" in function (.*)$", failed.get("loc", ""))
    if m:
        fn = m.group(1)
    return f"{harness}:{d}@{fn}"


def repo_state():
    def g(*a):
        try:
            return subprocess.run(["git", "-C", "/repo", *a], capture_output=True, text=True).stdout.strip()
        except Exception:
            return ""
    head = g("rev-parse", "HEAD")
    diff = g("diff", "HEAD", "--", "h3", "h3-datagram", "h3-webtransport", "h3-quinn")
    return {"head": head, "dirty": bool(diff), "diff_sha256": hashlib.sha256(diff.encode()).hexdigest()[:16]}


def main():
    ap = argparse.ArgumentParser()
    ap.add_argument("prop", nargs="?")
    ap.add_argument("--tier", default=os.environ.get("VERIF_TIER", "quick"), choices=["quick", "thorough"])
    ap.add_argument("--jobs", type=int, default=int(os.environ.get("VERIF_JOBS", "8")))
    ap.add_argument("--only", default=None)
    ap.add_argument("--replay", default=None)
    ap.add_argument("--list", action="store_true")
    ap.add_argument("--no-evidence", action="store_true")
    args = ap.parse_args()
    seed = int(os.environ.get("VERIF_SEED", "0"))

    if args.replay:
        return do_replay(args.replay)

    harnesses = K.discover()
    if args.list:
        for h in harnesses:
            print(",".join(h.props), h.tier, h.qualified, h.opts)
        return 0
    prop = args.prop
    if not prop:
        ap.error("property id required")
    t0 = time.time()
    log_dir = os.path.join(VERIF, ".build", "logs", prop)
    all_known = load_known()
    known = [k for k in all_known if k["property"] == prop]
    known_keys = {k["key"]: k for k in known}
    # a harness shared between properties carries assertions labelled with the property they belong to (cNN.…): a listed
    # finding of that other property is the same finding here, reported under its own property id
    foreign_known = {k["key"]: k for k in all_known if k["property"] != prop
                     and re.match(r"^c(\d\d)\.", k["key"]) and "C" + k["key"][1:3] == k["property"]}

    sel = K.select(harnesses, prop, args.tier, args.only)
    mspecs = []
    try:
        from mirsym import registry as MR
        mspecs = MR.select(prop, args.tier, args.only)
    except ImportError:
        MR = None

    if not sel and not mspecs:
        print(f"no harness or spec registered for {prop}")
        return 2

    violations = []     # (key, what, replay_path)
    known_hits = {}     # key -> what
    foreign_hits = {}   # key -> known-finding record of another property (shared harness)
    inconclusive = []   # text
    units = []          # evidence records

    def progress(h, r):
        extra = r.get("reason", "")
        print(f"[K] {h.name}: {r['status']} wall={r.get('wall_s', 0):.1f}s cbmc={r.get('cbmc_s')} "
              f"checks={r.get('n_checks')} covers={r.get('n_covers')} {extra}", flush=True)

    kres = K.run_all(sel, args.tier, args.jobs, log_dir, progress) if sel else []
    need_playback = []
    recs = {}
    for h, r in kres:
        rec = {
            "engine": "kani", "harness": h.qualified, "source": f"kani/src/{h.module}.rs:{h.line}",
            "claim": h.doc, "unwind": h.unwind, "stubs": h.stubs, "status": r["status"],
            "cbmc_checks_decided": r.get("n_checks", 0), "covers": r.get("covers", []),
            "solver_s": r.get("cbmc_s"), "wall_s": round(r.get("wall_s", 0), 1),
        }
        recs[h.name] = rec
        if r["status"] == "failed":
            new = []
            for f in r["failed"]:
                key = finding_key(h.name, f)
                if key in known_keys:
                    known_hits[key] = known_keys[key]["what"]
                elif key in foreign_known and foreign_known[key]["property"] in h.props:
                    foreign_hits[key] = foreign_known[key]
                else:
                    new.append((key, f))
            rec["failed"] = [finding_key(h.name, f) for f in r["failed"]]
            if new:
                need_playback.append((h, new))
        elif r["status"] == "inconclusive":
            inconclusive.append(f"{h.name}: {r.get('reason')}")
            rec["reason"] = r.get("reason")
        units.append(rec)
    if need_playback:
        # concrete playback (a second CBMC run per failing harness + a native test run): in parallel, own dirs
        import concurrent.futures
        replay_dir = os.path.join(VERIF, "replays", prop)
        with concurrent.futures.ThreadPoolExecutor(max_workers=min(4, len(need_playback))) as pool:
            futs = {pool.submit(K.playback, h, replay_dir, log_dir, i % 4): (h, new) for i, (h, new) in enumerate(need_playback)}
            for fu in concurrent.futures.as_completed(futs):
                h, new = futs[fu]
                path, reproduced, note = fu.result()
                recs[h.name]["replay"] = {"path": path, "reproduced": reproduced, "note": note}
                print(f"[K] {h.name}: counterexample; {note}", flush=True)
                if reproduced is False:
                    inconclusive.append(f"{h.name}: counterexample did not reproduce natively ({note})")
                else:
                    for key, f in new:
                        violations.append((key, f["desc"], path))

    mstats = {}
    if mspecs:
        mres = MR.run(prop, mspecs, args.tier, seed, log_dir, known_keys)
        for rec in mres["units"]:
            units.append(rec)
        for key, what in mres.get("known_hits", {}).items():
            known_hits[key] = what
        violations += mres.get("violations", [])
        inconclusive += mres.get("inconclusive", [])
        mstats = mres.get("stats", {})

    # ---- report -------------------------------------------------------------------------
    for key, what in sorted(known_hits.items()):
        print(f"KNOWN-FINDING: property={prop} {key}: {what}")
    for key, k in sorted(foreign_hits.items()):
        print(f"KNOWN-FINDING: property={k['property']} {key}: {k['what']} (assertion of {k['property']} in a harness shared with {prop})")
    seen = set()
    for key, what, path in violations:
        if (key, path) in seen:
            continue
        seen.add((key, path))
        print(f"VIOLATION property={prop} replay={path}")
        print(f"  failing assertion: {key} — {what}")
    for t in inconclusive:
        print(f"INCONCLUSIVE: {t}")

    wall = time.time() - t0
    if not args.no_evidence and not args.only:
        write_evidence(prop, args.tier, seed, units, violations, known_hits, inconclusive, wall, mstats)
    if violations:
        return 1
    if inconclusive:
        return 2
    print(f"OK property={prop} tier={args.tier} units={len(units)} wall={wall:.0f}s")
    return 0


def write_evidence(prop, tier, seed, units, violations, known_hits, inconclusive, wall, mstats):
    ok_units = [u for u in units if u["status"] in ("ok",)]
    decided = [u for u in units if u["status"] in ("ok", "failed", "known")]
    queries = sum(u.get("cbmc_checks_decided", 0) + u.get("smt_queries", 0) for u in units)
    nontrivial = 0
    for u in units:
        if u["status"] not in ("ok", "failed", "known"):
            continue
        if u["engine"] == "kani":
            cov = u.get("covers", [])
            if cov and all(c["status"] == "SATISFIED" for c in cov):
                nontrivial += 1
        else:
            # engine M: every satisfied reachability witness is a distinct, non-trivial class of behaviour the run reached
            w = u.get("witnesses", {})
            nontrivial += sum(1 for v in w.values() if v) if w else (1 if u.get("witness_sat", False) else 0)
    samples = []
    for u in units[:40]:
        s = {k: u[k] for k in ("engine", "harness", "claim", "status", "unwind", "stubs", "bounds",
                                "functions", "solver_s", "cbmc_checks_decided", "smt_queries", "example")
             if k in u and u[k] not in (None, [], "")}
        if u["engine"] == "kani":
            s["reachability_witnesses"] = [c["label"] for c in u.get("covers", []) if c["status"] == "SATISFIED"]
        samples.append(s)
    functions = sorted({f for u in units for f in u.get("functions", [])})
    ev = {
        "property_id": prop,
        "tier": tier,
        "seed": seed,
        "level": "model_checking",
        "coverage": {
            "evaluations": max(queries, 0),
            "distinct_nontrivial": nontrivial,
            "rule": ("one evaluation = one solver-decided obligation: a CBMC property check of a Kani harness "
                     "(assertion, overflow/bounds/unwrap check, unwinding assertion) or one SMT query of a mirsym "
                     "spec; all symbolic inputs within the harness bounds are covered by each query. "
                     "distinct_nontrivial counts, for engine K, the harnesses whose every reachability witness (kani::cover!) "
                     "was satisfied (non-vacuous harnesses), and for engine M the individual reachability witnesses satisfied "
                     "(each names a distinct class of behaviour the exploration reached: e.g. 'duplicate control stream refused', "
                     "'partial writes complete'). states / transitions (engine M) = completed symbolic paths / solver queries. "
                     "traces_validated_against_impl = native scenarios (scripted mock transport or real quinn loopback) run "
                     "against the real build in this run whose outcome agreed with the spec's verdict."),
            "samples": samples,
            "units_total": len(units),
            "units_ok": len(ok_units),
            "units_decided": len(decided),
            "obligations": queries,
            "discharged": sum(u.get("cbmc_checks_decided", 0) + u.get("smt_queries", 0) for u in ok_units),
            "solver_time_s": round(sum((u.get("solver_s") or 0) for u in units), 2),
            "functions_encoded": functions,
            "inconclusive": inconclusive,
            "known_findings_hit": sorted(known_hits),
            "repo": repo_state(),
            "exhaustive": False,
        },
        "assumptions": sorted({a for u in units for a in u.get("assumptions", [])} | {
            "bounded model checking: nothing is claimed outside each unit's stated bounds (sizes, unwind, sequence length)",
            "Kani harness stubs: fastrand::u64 -> any value in range; alloc::fmt::format -> empty string (only where listed per unit)",
        }),
        "wall_s": round(wall, 1),
        "violations": len({k for k, _, _ in violations}),
    }
    ev["coverage"].update(mstats)
    os.makedirs(os.path.join(VERIF, "evidence"), exist_ok=True)
    with open(os.path.join(VERIF, "evidence", prop + ".json"), "w") as f:
        json.dump(ev, f, indent=1, sort_keys=False)
        f.write("\n")


def do_replay(path):
    if path.endswith(".rs"):
        body = open(path).read()
        m = re.search(r"harness (\w+)::(\w+)", body)
        if not m:
            print("not a Kani playback file")
            return 2
        ok, note = K.run_playback_file(path, m.group(1), os.path.join(VERIF, ".build", "logs", "replay"))
        print(note)
        return 1 if ok else 0
    try:
        from mirsym import registry as MR
        return MR.replay(path)
    except ImportError:
        print("no replay engine for", path)
        return 2


if __name__ == "__main__":
    sys.exit(main())
