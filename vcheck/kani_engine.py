"""Engine K: run Kani/CBMC proof harnesses of /verif/kani against /repo's current tree.

Each harness is one bounded solver query family over the compiled h3 code. The verdict is CBMC's:
  * every check SUCCESS and every cover SATISFIED  -> harness holds within its stated bounds
  * some check FAILURE                             -> counterexample (replayed by concrete playback)
  * cover not SATISFIED                            -> vacuous harness  -> inconclusive
  * timeout / out of memory / ICE / Status: ERROR  -> inconclusive
"""
import os
import re
import resource
import shutil
import subprocess
import threading
import time
import queue

VERIF = os.path.dirname(os.path.dirname(os.path.abspath(__file__)))
KANI_DIR = os.path.join(VERIF, "kani")
BUILD = os.path.join(VERIF, ".build")
REPO = "/repo"

CHECK_RE = re.compile(r"^/// @check\s+(\S+)\s+(quick|thorough)(.*)$")
FN_RE = re.compile(r"^\s*(?:pub\s+)?fn\s+([A-Za-z0-9_]+)\s*\(")


class Harness:
    def __init__(self, module, name, props, tier, opts, doc, unwind, stubs, line):
        self.module = module
        self.name = name
        self.props = props
        self.tier = tier
        self.opts = opts
        self.doc = doc
        self.unwind = unwind
        self.stubs = stubs
        self.line = line

    @property
    def qualified(self):
        return f"{self.module}::{self.name}"


def discover():
    """Parse `/// @check <props> <tier> [k=v ...]` annotations in kani/src/*.rs."""
    out = []
    src = os.path.join(KANI_DIR, "src")
    for fn in sorted(os.listdir(src)):
        if not fn.endswith(".rs"):
            continue
        module = fn[:-3]
        lines = open(os.path.join(src, fn)).read().split("\n")
        i = 0
        while i < len(lines):
            m = CHECK_RE.match(lines[i])
            if not m:
                i += 1
                continue
            props = m.group(1).split(",")
            tier = m.group(2)
            opts = dict(kv.split("=", 1) for kv in m.group(3).split() if "=" in kv)
            doc = []
            unwind = None
            stubs = []
            j = i + 1
            name = None
            while j < len(lines):
                l = lines[j]
                if l.startswith("///"):
                    doc.append(l[3:].strip())
                mu = re.search(r"kani::unwind\((\d+)\)", l)
                if mu:
                    unwind = int(mu.group(1))
                ms = re.search(r"kani::stub\(([^,]+),\s*([^)]+)\)", l)
                if ms:
                    stubs.append(f"{ms.group(1).strip()} -> {ms.group(2).strip()}")
                mf = FN_RE.match(l)
                if mf:
                    name = mf.group(1)
                    break
                j += 1
            if name:
                out.append(Harness(module, name, props, tier, opts, " ".join(doc), unwind, stubs, i + 1))
            i = j + 1
    return out


def select(harnesses, prop, tier, only=None):
    sel = []
    for h in harnesses:
        if prop not in h.props:
            continue
        if tier == "quick" and h.tier != "quick":
            continue
        if only and not re.search(only, h.name):
            continue
        sel.append(h)
    return sel


def prepare():
    os.makedirs(BUILD, exist_ok=True)
    lock_src = os.path.join(REPO, "Cargo.lock")
    lock_dst = os.path.join(KANI_DIR, "Cargo.lock")
    if os.path.exists(lock_src):
        a = open(lock_src, "rb").read()
        b = open(lock_dst, "rb").read() if os.path.exists(lock_dst) else None
        # cargo rewrites our copy (prunes unused packages); only refresh when /repo's lock changed
        stamp = lock_dst + ".src"
        prev = open(stamp, "rb").read() if os.path.exists(stamp) else None
        if b is None or prev != a:
            shutil.copyfile(lock_src, lock_dst)
            open(stamp, "wb").write(a)


def _limit(mem_gb):
    def f():
        lim = int(mem_gb * (1 << 30))
        resource.setrlimit(resource.RLIMIT_AS, (lim, lim))
        os.setsid()
    return f


def kani_env():
    env = dict(os.environ)
    env["RUSTFLAGS"] = "--cfg hyperium_h3_verif"
    env["CARGO_NET_OFFLINE"] = "true"
    env.pop("RUSTUP_TOOLCHAIN", None)
    return env


def kani_cmd(h, target_dir, extra=()):
    cmd = ["cargo", "kani", "--target-dir", target_dir, "--harness", h.qualified, "--exact",
           "-Z", "stubbing"]
    cmd += list(extra)
    return cmd


CHK_HEAD = re.compile(r"^Check (\d+): (.+)$")


def parse_output(text):
    """Return dict with checks(list), covers(list), verdict, time."""
    checks = []
    cur = None
    for line in text.split("\n"):
        m = CHK_HEAD.match(line)
        if m:
            cur = {"n": int(m.group(1)), "name": m.group(2), "status": None, "desc": "", "loc": ""}
            checks.append(cur)
            continue
        if cur is not None:
            s = line.strip()
            if s.startswith("- Status:"):
                cur["status"] = s.split(":", 1)[1].strip()
            elif s.startswith("- Description:"):
                cur["desc"] = s.split(":", 1)[1].strip().strip('"')
            elif s.startswith("- Location:"):
                cur["loc"] = s.split(":", 1)[1].strip()
            elif s == "":
                cur = None
    verdict = None
    m = re.search(r"^VERIFICATION:- (\w+)", text, re.M)
    if m:
        verdict = m.group(1)
    t = None
    m = re.search(r"^Verification Time: ([0-9.]+)s", text, re.M)
    if m:
        t = float(m.group(1))
    summ = re.search(r"^ \*\* (\d+) of (\d+) failed", text, re.M)
    summary = (int(summ.group(1)), int(summ.group(2))) if summ else None
    covers = [c for c in checks if ".cover." in c["name"]]
    asserts = [c for c in checks if ".cover." not in c["name"]]
    return {"asserts": asserts, "covers": covers, "verdict": verdict, "time": t, "summary": summary}


def run_one(h, target_dir, tier, log_dir):
    timeout = int(h.opts.get("timeout", 900 if tier == "quick" else 3600))
    if tier == "thorough" and "ttimeout" in h.opts:
        timeout = int(h.opts["ttimeout"])
    if os.environ.get("VERIF_TIMEOUT"):
        timeout = int(os.environ["VERIF_TIMEOUT"])
    mem = float(h.opts.get("mem", 16))
    t0 = time.time()
    log_path = os.path.join(log_dir, h.name + ".log")
    cmd = kani_cmd(h, target_dir)
    res = {"harness": h.name, "module": h.module, "cmd": " ".join(cmd), "log": log_path,
           "timeout_s": timeout, "mem_gb": mem}
    try:
        with open(log_path, "w") as lf:
            p = subprocess.Popen(cmd, cwd=KANI_DIR, env=kani_env(), stdout=lf, stderr=subprocess.STDOUT,
                                 preexec_fn=_limit(mem))
            try:
                rc = p.wait(timeout=timeout)
            except subprocess.TimeoutExpired:
                try:
                    os.killpg(p.pid, 9)
                except ProcessLookupError:
                    pass
                p.wait()
                res.update(status="inconclusive", reason=f"timeout after {timeout}s", wall_s=time.time() - t0)
                return res
    except Exception as e:  # pragma: no cover
        res.update(status="inconclusive", reason=f"could not run: {e}", wall_s=time.time() - t0)
        return res
    text = open(log_path, errors="replace").read()
    parsed = parse_output(text)
    res["wall_s"] = time.time() - t0
    res["cbmc_s"] = parsed["time"]
    res["n_checks"] = len(parsed["asserts"])
    res["n_covers"] = len(parsed["covers"])
    failed = [c for c in parsed["asserts"] if c["status"] == "FAILURE"]
    errored = [c for c in parsed["asserts"] if c["status"] not in ("SUCCESS", "FAILURE", "UNREACHABLE")]
    bad_covers = [c for c in parsed["covers"] if c["status"] != "SATISFIED"]
    res["covers"] = [{"label": c["desc"], "status": c["status"]} for c in parsed["covers"]]
    res["failed"] = [{"check": c["name"], "desc": c["desc"], "loc": c["loc"]} for c in failed]
    nfail_parsed = len(failed)
    if parsed["summary"] is not None and (parsed["summary"][0] != nfail_parsed or
                                           parsed["summary"][1] not in (len(parsed["asserts"]),
                                                                        len(parsed["asserts"]) + len(parsed["covers"]))):
        res.update(status="inconclusive", reason=f"output parse mismatch: summary {parsed['summary']} vs parsed "
                   f"{nfail_parsed} failed of {len(parsed['asserts'])}")
        return res
    if parsed["verdict"] is None:
        reason = "no verdict (compile error, ICE, out of memory or crash)"
        m = re.search(r"^(error(\[E\d+\])?:.*)$", text, re.M)
        if m:
            reason += ": " + m.group(1)[:200]
        res.update(status="inconclusive", reason=reason)
    elif errored:
        res.update(status="inconclusive", reason="checks with undetermined status: " +
                   ", ".join(sorted({c['status'] or '?' for c in errored})))
    elif failed:
        res.update(status="failed")
    elif bad_covers:
        res.update(status="inconclusive", reason="vacuous: cover(s) not satisfied: " +
                   ", ".join(c["desc"] for c in bad_covers))
    elif parsed["verdict"] == "SUCCESSFUL":
        res.update(status="ok")
    else:
        res.update(status="inconclusive", reason=f"verdict {parsed['verdict']} without failing check")
    return res


def run_all(hs, tier, jobs, log_dir, progress=None):
    os.makedirs(log_dir, exist_ok=True)
    prepare()
    q = queue.Queue()
    # longest first
    for h in sorted(hs, key=lambda h: -int(h.opts.get("cost", 10))):
        q.put(h)
    results = []
    lock = threading.Lock()

    def worker(i):
        td = os.path.join(BUILD, f"w{os.environ.get('VERIF_BUILD_TAG', '')}{i}")
        while True:
            try:
                h = q.get_nowait()
            except queue.Empty:
                return
            r = run_one(h, td, tier, log_dir)
            with lock:
                results.append((h, r))
                if progress:
                    progress(h, r)

    n = max(1, min(jobs, len(hs)))
    ths = [threading.Thread(target=worker, args=(i,)) for i in range(n)]
    for t in ths:
        t.start()
    for t in ths:
        t.join()
    return results


def playback(h, replay_dir, log_dir, slot=0):
    """Ask Kani for a concrete counterexample test, then run it natively (dev profile).

    Returns (replay_path, reproduced: bool|None, note). reproduced None = playback not possible
    (e.g. the harness uses a stub, which playback does not apply)."""
    os.makedirs(replay_dir, exist_ok=True)
    td = os.path.join(BUILD, f"playback{slot}")
    cmd = kani_cmd(h, td, extra=["-Z", "concrete-playback", "--concrete-playback=print"])
    log = os.path.join(log_dir, h.name + ".playback.log")
    try:
        with open(log, "w") as lf:
            subprocess.run(cmd, cwd=KANI_DIR, env=kani_env(), stdout=lf, stderr=subprocess.STDOUT,
                           timeout=int(h.opts.get("timeout", 900)) * 2, preexec_fn=_limit(24))
    except subprocess.TimeoutExpired:
        return (log, None, "playback generation timed out")
    text = open(log, errors="replace").read()
    tests = re.findall(r"```\n(.*?)```", text, re.S)
    tests = [t for t in tests if "kani_concrete_playback" in t and "Check for `cover`" not in t]
    path = os.path.join(replay_dir, h.name + ".rs")
    if not tests:
        open(path, "w").write("// Kani produced no concrete playback test; see log " + log + "\n")
        return (path, None, "no concrete playback test produced")
    body = "\n".join(tests)
    header = (f"// Counterexample(s) for harness {h.qualified} found by CBMC on /repo's current tree.\n"
              f"// Replay: ./check --replay {path}\n"
              f"// (appends this test to a scratch copy of /verif/kani/src/{h.module}.rs and runs\n"
              f"//  `cargo kani playback -Z concrete-playback`)\n")
    open(path, "w").write(header + body)
    if h.stubs:
        return (path, None, "harness uses stubs; Kani playback does not apply stubs, native replay skipped")
    ok, note = run_playback_file(path, h.module, log_dir, slot)
    return (path, ok, note)


def run_playback_file(path, module, log_dir, slot=0):
    scratch = os.path.join(BUILD, f"playback_crate{slot}")
    if os.path.exists(scratch):
        shutil.rmtree(scratch)
    shutil.copytree(KANI_DIR, scratch, ignore=shutil.ignore_patterns("target"))
    body = open(path).read()
    names = re.findall(r"fn (kani_concrete_playback_\w+)", body)
    with open(os.path.join(scratch, "src", module + ".rs"), "a") as f:
        f.write("\n" + body + "\n")
    env = kani_env()
    env["CARGO_TARGET_DIR"] = os.path.join(BUILD, f"playback_target{slot}")
    os.makedirs(log_dir, exist_ok=True)
    log = os.path.join(log_dir, os.path.basename(path) + ".run.log")
    reproduced = False
    with open(log, "w") as lf:
        for n in names:
            p = subprocess.run(["cargo", "kani", "playback", "-Z", "concrete-playback", "--", n],
                               cwd=scratch, env=env, stdout=lf, stderr=subprocess.STDOUT, timeout=1800)
            if p.returncode != 0:
                reproduced = True
    text = open(log, errors="replace").read()
    if "error: could not compile" in text or "error[E" in text:
        return (None, "playback test did not compile, see " + log)
    if reproduced and ("panicked at" in text or "FAILED" in text):
        return (True, "counterexample reproduced natively (dev profile), see " + log)
    return (False, "concrete playback passed natively: counterexample NOT reproduced, see " + log)
