//! C20 — stateful QPACK, reduced to its arithmetic core (see DESIGN.md §5 C20): the index-space
//! arithmetic of `vas.rs` as one-step inductive checks from an arbitrary valid state, and the
//! Required-Insert-Count / Base codec of `HeaderPrefix` (RFC 9204 §4.5.1). The table, eviction and
//! blocked-stream histories (HashMap/BTreeMap/VecDeque) are outside what CBMC can execute.

use h3::qpack::verif_hooks::{HeaderPrefix, ParseError, VasError, VirtualAddressSpace};

const BOUND: usize = 1 << 62;

fn any_vas() -> (VirtualAddressSpace, usize, usize) {
    let inserted: usize = kani::any();
    let dropped: usize = kani::any();
    kani::assume(inserted < BOUND && dropped <= inserted);
    // representation invariant: delta = inserted - dropped = number of entries in the table
    (VirtualAddressSpace::verif_from_parts(inserted, dropped, inserted - dropped), inserted, dropped)
}

/// @check C20 quick cost=20
/// add / drop from ANY valid state keep the invariant delta = inserted - dropped, add returns the new (1-based)
/// absolute index, nothing over- or underflows (drop is only called on a non-empty table).
#[kani::proof]
fn c20_vas_add_drop_preserve_invariant() {
    let (mut v, inserted, dropped) = any_vas();
    let do_add: bool = kani::any();
    if do_add {
        let abs = v.add();
        assert!(abs == inserted + 1, "c20.vas.add.returns_new_absolute_index");
        assert!(v.verif_parts() == (inserted + 1, dropped, inserted + 1 - dropped), "c20.vas.add.invariant");
    } else {
        kani::assume(inserted > dropped);
        v.drop();
        assert!(v.verif_parts() == (inserted, dropped + 1, inserted - dropped - 1), "c20.vas.drop.invariant");
    }
    assert!(v.largest_ref() == v.verif_parts().2, "c20.vas.largest_ref_is_entry_count");
    assert!(v.total_inserted() == v.verif_parts().0, "c20.vas.total_inserted");
    kani::cover!(do_add && inserted == dropped, "add_to_empty");
    kani::cover!(!do_add && inserted == dropped + 1, "drop_last");
}

/// @check C20,C06 quick cost=30
/// Index translation from ANY valid state and ANY (peer-controlled) index: with RFC 9204 0-based absolute indices
/// (entries present: dropped..inserted-1, position in the table = abs - dropped): an encoder-stream relative index i
/// names abs = inserted-1-i; a field-line relative index names abs = base-1-i; a post-base index names abs = base+i.
/// Ok(pos) is returned exactly when that entry is present, with pos = abs - dropped; otherwise an error, never a
/// panic or wrap-around.
#[kani::proof]
fn c20_vas_index_translation() {
    let (v, inserted, dropped) = any_vas();
    let i: usize = kani::any();
    let base: usize = kani::any();
    kani::assume(base <= inserted);
    // encoder-stream relative
    match v.relative(i) {
        Ok(pos) => {
            assert!(i < inserted && inserted - 1 - i >= dropped, "c20.vas.relative.ok_only_for_present_entry");
            assert!(pos == inserted - 1 - i - dropped, "c20.vas.relative.position");
        }
        Err(e) => {
            assert!(!(i < inserted && inserted - 1 - i >= dropped), "c20.vas.relative.present_entry_refused");
            assert!(e == VasError::RelativeIndex(i), "c20.vas.relative.error_kind");
        }
    }
    // field-line relative to base
    match v.relative_base(base, i) {
        Ok(pos) => {
            assert!(i < base && base - 1 - i >= dropped, "c20.vas.relative_base.ok_only_for_present_entry");
            assert!(pos == base - 1 - i - dropped, "c20.vas.relative_base.position");
            assert!(pos < inserted - dropped, "c20.vas.relative_base.position_in_table");
        }
        Err(_) => {
            assert!(!(i < base && base - 1 - i >= dropped), "c20.vas.relative_base.present_entry_refused");
        }
    }
    // post-base (the index comes from the peer: up to 2^63 + 254, see C15)
    kani::assume(i <= (1usize << 63) + 254);
    match v.post_base(base, i) {
        Ok(pos) => {
            assert!(base + i < inserted && base + i >= dropped, "c20.vas.post_base.ok_only_for_present_entry");
            assert!(pos == base + i - dropped, "c20.vas.post_base.position");
        }
        Err(_) => {
            assert!(!(base + i < inserted && base + i >= dropped), "c20.vas.post_base.present_entry_refused");
        }
    }
    // position -> absolute (1-based) index and eviction test
    match v.index(i) {
        Ok(abs) => {
            assert!(i < inserted - dropped && abs == i + dropped + 1, "c20.vas.index.absolute");
            assert!(!v.evicted(abs), "c20.vas.index.present_entry_not_evicted");
        }
        Err(_) => assert!(i >= inserted - dropped, "c20.vas.index.present_position_refused"),
    }
    let a: usize = kani::any();
    assert!(v.evicted(a) == (a != 0 && a <= dropped), "c20.vas.evicted.iff_absolute_index_dropped");
    kani::cover!(v.relative(i).is_ok() && dropped > 0, "relative_ok_after_eviction");
    kani::cover!(v.relative_base(base, i).is_ok() && base < inserted, "relative_base_ok");
    kani::cover!(v.post_base(base, i).is_ok(), "post_base_ok");
    kani::cover!(v.post_base(base, i).is_err() && i > (1usize << 63), "huge_post_base_index_refused");
    kani::cover!(inserted == dropped, "empty_table");
}

fn prefix_roundtrip(max_cap: usize) {
    let cap: usize = kani::any();
    kani::assume(cap >= 32 && cap <= max_cap);
    let max_entries = cap / 32;
    let total_enc: usize = kani::any(); // encoder's insert count
    let total_dec: usize = kani::any(); // decoder's insert count when the section arrives
    let required: usize = kani::any();
    let base: usize = kani::any();
    kani::assume(total_enc < (1 << 30) && total_dec <= total_enc);
    kani::assume(required >= 1 && required <= total_enc && base <= total_enc);
    // RFC 9204 §4.5.1.1: the encoding is unambiguous when the encoder's value is within MaxEntries of the decoder's
    kani::assume(required <= total_dec + max_entries && required + max_entries > total_dec);
    let p = HeaderPrefix::new(required, base, total_enc, cap);
    let mut wire = [0u8; 24];
    let n = {
        let mut w: &mut [u8] = &mut wire[..];
        p.encode(&mut w);
        24 - w.len()
    };
    let mut r: &[u8] = &wire[..n];
    let q = match HeaderPrefix::decode(&mut r) {
        Ok(q) => q,
        Err(e) => {
            std::mem::forget(e);
            assert!(false, "c20.prefix.own_encoding_rejected");
            return;
        }
    };
    assert!(r.is_empty(), "c20.prefix.decode_consumes_exactly");
    assert!(q.verif_parts() == p.verif_parts(), "c20.prefix.wire_roundtrip");
    match q.get(total_dec, cap) {
        Ok((req2, base2)) => {
            assert!(req2 == required, "c20.prefix.required_insert_count_reconstructed");
            assert!(base2 == base, "c20.prefix.base_reconstructed");
        }
        Err(e) => {
            std::mem::forget(e);
            assert!(false, "c20.prefix.valid_prefix_rejected");
        }
    }
    kani::cover!(required > total_dec, "section_ahead_of_decoder_blocked_case");
    kani::cover!(base < required, "negative_delta_base");
    kani::cover!(base > required, "positive_delta_base");
    kani::cover!(required >= 2 * max_entries, "insert_count_wrapped");
}

/// @check C20 quick cost=300 timeout=1500
/// Required Insert Count and Base survive new -> encode -> decode -> get for every table capacity 32..=256, every
/// encoder/decoder insert-count pair within the RFC 9204 §4.5.1.1 window and every base (wrap-around included).
#[kani::proof]
#[kani::unwind(12)]
fn c20_header_prefix_roundtrip_cap256() {
    prefix_roundtrip(256);
}

/// @check C20 thorough cost=900 timeout=3600
/// Same for capacities up to 1024 (the division / remainder by the symbolic 2 * MaxEntries dominates: capacities up to 4096
/// did not finish within an hour).
#[kani::proof]
#[kani::unwind(12)]
fn c20_header_prefix_roundtrip_cap1024() {
    prefix_roundtrip(1024);
}

/// @check C20,C11,C06 quick cost=60 timeout=900
/// HeaderPrefix::get(0, 0) — the only way h3's public API calls it (the stateless decoder has no dynamic table) — on
/// ARBITRARY decoded prefix fields (peer-controlled, up to the prefix-integer range): never panics or overflows, and
/// only a zero Required Insert Count is accepted. (With a table, get() lacks the RFC 9204 §4.5.1.1 range check and its
/// arithmetic can overflow on hostile values; that path is not reachable through h3's API and is noted in DESIGN.md.)
#[kani::proof]
fn c20_header_prefix_get_stateless_any_input() {
    let eic: usize = kani::any();
    let sign: bool = kani::any();
    let db: usize = kani::any();
    // prefix integers decode to at most 2^63 + 254 (C15)
    kani::assume(eic <= (1usize << 63) + 254 && db <= (1usize << 63) + 254);
    let p = HeaderPrefix::verif_from_parts(eic, sign, db);
    let r = p.get(0, 0);
    match &r {
        Ok((req, base)) => {
            assert!(eic == 0, "c20.prefix.nonzero_insert_count_without_table_accepted");
            assert!(*req == 0 && *base == 0, "c20.prefix.no_table_means_no_references");
        }
        Err(_) => assert!(eic != 0, "c20.prefix.zero_insert_count_without_table_refused"),
    }
    std::mem::forget(r);
    kani::cover!(eic != 0, "nonzero_count_without_table");
    kani::cover!(eic == 0 && db != 0, "zero_count_any_delta_base");
}
