//! C19 — WebTransport session ids (codec part; the gating of WebTransport uni streams on the
//! configuration is decided by engine M).

use std::convert::TryFrom;

use h3::proto::coding::Encode;
use h3::proto::frame::{Frame, FrameError, PayloadLen};
use h3::proto::stream::StreamId;
use h3::stream::{BidiStreamHeader, UniStreamHeader};
use h3::webtransport::SessionId;

use crate::kbuf::KBuf;
use crate::refmodel::{varint_decode, varint_encode};

const MAX: u64 = (1 << 62) - 1;

/// @check C19 quick
/// The session id derived from a CONNECT request stream id IS that stream id (all ids < 2^62).
#[kani::proof]
fn c19_session_id_is_connect_stream_id() {
    let s: u64 = kani::any();
    kani::assume(s <= MAX);
    let stream = StreamId::try_from(s).unwrap();
    let sid = SessionId::from(stream);
    assert!(StreamId::from(sid) == stream, "c19.session_id.equals_connect_stream_id");
    assert!(SessionId::try_from(s).unwrap() == sid, "c19.session_id.same_as_try_from_raw");
    kani::cover!(s == 4, "second_request_stream");
    kani::cover!(s == 0, "first_request_stream");
    kani::cover!(s >= (1 << 30), "eight_byte_id");
}

fn expect_header(out: &[u8; 16], written: usize, ty: u64, sid: u64) {
    let (tb, tn) = varint_encode(ty);
    let (sb, sn) = varint_encode(sid);
    assert!(written == tn + sn, "c19.header.length");
    let mut i = 0;
    while i < 8 {
        if i < tn {
            assert!(out[i] == tb[i], "c19.header.stream_type_bytes");
        }
        if i < sn {
            assert!(out[tn + i] == sb[i], "c19.header.session_id_bytes");
        }
        i += 1;
    }
}

/// @check C19,C14 quick
/// The header written at the start of a server-opened WebTransport stream for a session derived from
/// request stream s is varint(0x54 | 0x41) ++ varint(s), for every s.
#[kani::proof]
#[kani::unwind(10)]
fn c19_stream_headers_carry_session_id() {
    let s: u64 = kani::any();
    kani::assume(s <= MAX);
    let sid = SessionId::from(StreamId::try_from(s).unwrap());
    let uni: bool = kani::any();
    let mut out = [0u8; 16];
    let written = {
        let mut w: &mut [u8] = &mut out[..];
        if uni {
            UniStreamHeader::WebTransportUni(sid).encode(&mut w);
        } else {
            BidiStreamHeader::WebTransportBidi(sid).encode(&mut w);
        }
        16 - w.len()
    };
    expect_header(&out, written, if uni { 0x54 } else { 0x41 }, s);
    kani::cover!(uni && s == 4, "uni_second_request");
    kani::cover!(!uni && s >= (1 << 14), "bidi_four_byte_id");
}

fn decode_case(tyform: u8) {
    let mut bytes: [u8; 17] = kani::any();
    // type 0x41 in the chosen (possibly non-minimal) form; the type bytes are concrete
    let tn: usize = 1 << tyform;
    let mut i = 0;
    while i < 8 {
        if i < tn {
            bytes[i] = if i == 0 { tyform << 6 } else if i == tn - 1 { 0x41 } else { 0 };
        }
        i += 1;
    }
    let mut rest = [0u8; 9];
    let mut j = 0;
    while j < 9 {
        if tn + j < 17 {
            rest[j] = bytes[tn + j];
        }
        j += 1;
    }
    // every cut of the buffer from "type only" to "8-byte session id + 1 payload byte": the cut position
    // is enumerated concretely (CBMC needs concrete lengths), the bytes stay symbolic
    let mut len = tn;
    while len <= tn + 9 {
        decode_cut(&bytes, &rest, tn, len);
        len += 1;
    }
}

fn decode_cut(bytes: &[u8; 17], rest: &[u8; 9], tn: usize, len: usize) {
    let mut r = KBuf::new(&bytes[..len]);
    let got = Frame::<PayloadLen>::decode(&mut r);
    let restlen = len - tn;
    // `got` is only inspected by reference and then forgotten: its drop glue (Bytes vtables) is not
    // the subject of the property and is the most expensive thing CBMC could meet here.
    match varint_decode(rest, restlen) {
        Some((x, n)) => match &got {
            Ok(Frame::WebTransportStream(sid)) => {
                assert!(StreamId::from(*sid).into_inner() == x, "c19.decode.session_id_value");
                assert!(r.consumed() == tn + n, "c19.decode.consumes_exactly_header");
                kani::cover!(n == 8, "eight_byte_session_id");
                kani::cover!(n == 1 && restlen > 1, "payload_follows_in_same_buffer");
            }
            Ok(_) => assert!(false, "c19.decode.wrong_frame_kind"),
            Err(_) => assert!(false, "c19.decode.complete_header_rejected"),
        },
        None => match &got {
            Err(FrameError::Incomplete(_)) => {
                kani::cover!(restlen == 0, "no_session_id_yet");
                kani::cover!(restlen == 3, "truncated_session_id");
            }
            Ok(_) => assert!(false, "c19.decode.truncated_header_accepted"),
            Err(_) => assert!(false, "c19.decode.truncated_header_not_incomplete"),
        },
    }
    std::mem::forget(got);
}

/// @check C19,C02,C06 quick cost=60
/// `0x41 ++ varint(x)` (type in its minimal 2-byte form) decodes to WebTransportStream(x) consuming
/// exactly the header for every form of x; a truncated header is Incomplete, never a frame.
#[kani::proof]
#[kani::unwind(18)]
fn c19_decode_bidi_stream_header_ty2() {
    decode_case(1);
}

/// @check C19,C02,C06 thorough cost=60
/// Same with the type written in its non-minimal 4-byte form.
#[kani::proof]
#[kani::unwind(18)]
fn c19_decode_bidi_stream_header_ty4() {
    decode_case(2);
}

/// @check C19,C02,C06 thorough cost=60
/// Same with the type written in its non-minimal 8-byte form.
#[kani::proof]
#[kani::unwind(18)]
fn c19_decode_bidi_stream_header_ty8() {
    decode_case(3);
}
