//! Kani proof harnesses over the real h3 crates (engine K of /verif/DESIGN.md).
#![allow(dead_code, unused_imports, clippy::all)]

pub mod huffman_table;
pub mod kbuf;
pub mod qpack_static;
pub mod refmodel;
#[cfg(kani)]
mod stubs;
#[cfg(kani)]
mod c16;
#[cfg(kani)]
mod c18;
#[cfg(kani)]
mod c19;
#[cfg(kani)]
mod c15;
#[cfg(kani)]
mod c13;
#[cfg(kani)]
mod framecore;
#[cfg(kani)]
mod c02;
#[cfg(kani)]
mod c14;
#[cfg(kani)]
mod c11;
#[cfg(kani)]
mod c20;
#[cfg(kani)]
mod c11gen;
#[cfg(kani)]
mod c12;
