//! C13 — SETTINGS: configuration -> frame conversion, wire encoding, decoding and application.

use std::convert::TryFrom;

use h3::proto::coding::Encode;
use h3::proto::frame::{Frame, FrameError, PayloadLen, SettingId, Settings, SettingsError};
use h3::stream::UniStreamHeader;
use h3::verif_hooks::{applied_settings, default_settings, settings_from_config};

use crate::kbuf::KBuf;
use crate::refmodel::{varint_decode, varint_encode};
use crate::stubs;

const MAX62: u64 = (1 << 62) - 1;

const ID_MAX_FIELD_SECTION_SIZE: u64 = 0x6;
const ID_ENABLE_CONNECT_PROTOCOL: u64 = 0x8;
const ID_H3_DATAGRAM: u64 = 0x33;
const ID_ENABLE_WEBTRANSPORT: u64 = 0x2b603742;
const ID_WEBTRANSPORT_MAX_SESSIONS: u64 = 0x2b603743;

fn is_h2_reserved(id: u64) -> bool {
    id == 0 || id == 2 || id == 3 || id == 4 || id == 5
}

fn is_grease_form(id: u64) -> bool {
    id >= 0x21 && (id - 0x21) % 0x1f == 0
}

/// Parse the varint at `pos` of `b[..end]`.
fn var_at(b: &[u8; 64], pos: usize, end: usize) -> Option<(u64, usize)> {
    if pos >= end {
        return None;
    }
    let mut w = [0u8; 8];
    let mut i = 0;
    while i < 8 {
        if pos + i < end {
            w[i] = b[pos + i];
        }
        i += 1;
    }
    let avail = if end - pos > 8 { 8 } else { end - pos };
    varint_decode(&w, avail)
}

fn conversion_case(grease: bool) {
    let mfs: u64 = kani::any();
    let wt: bool = kani::any();
    let ec: bool = kani::any();
    let dg: bool = kani::any();
    let ms: u64 = kani::any();
    let res = settings_from_config(grease, mfs, wt, ec, dg, ms);
    let representable = mfs <= MAX62 && ms <= MAX62;
    let settings = match res {
        Ok(s) => s,
        Err(e) => {
            // a configuration that cannot be represented on the wire is refused, not panicked on
            assert!(!representable, "c13.config.representable_config_refused");
            std::mem::forget(e);
            kani::cover!(mfs == u64::MAX, "u64_max_refused");
            kani::cover!(ms == MAX62 + 1 && mfs == 0, "first_unrepresentable_refused");
            return;
        }
    };
    assert!(representable, "c13.config.unrepresentable_value_accepted");

    // what the peer sees: the bytes connection setup writes at the start of the control stream
    let mut out = [0u8; 64];
    let written = {
        let mut w: &mut [u8] = &mut out[..];
        UniStreamHeader::Control(settings).encode(&mut w);
        64 - w.len()
    };
    // the buffer WriteBuf encodes stream type + frame header into (h3/src/stream.rs: WRITE_BUF_ENCODE_SIZE, private) is
    // defined as the sum of these two public constants; a SETTINGS frame that does not fit panics at connection set-up
    let write_buf_size = h3::proto::stream::StreamType::MAX_ENCODED_SIZE + Frame::<PayloadLen>::MAX_ENCODED_SIZE;
    assert!(written <= write_buf_size, "c13.encode.fits_write_buffer");
    assert!(out[0] == 0x00, "c13.encode.control_stream_type_first");
    assert!(out[1] == 0x04, "c13.encode.settings_frame_type");
    let (plen, ln) = var_at(&out, 2, written).unwrap();
    assert!(2 + ln + plen as usize == written, "c13.encode.length_field_matches_payload");
    let mut pos = 2 + ln;
    let (mut s_mfs, mut s_ec, mut s_wt, mut s_dg, mut s_ms, mut s_gr) = (0u8, 0u8, 0u8, 0u8, 0u8, 0u8);
    let mut k = 0;
    while k < 7 {
        if pos < written {
            let (id, a) = match var_at(&out, pos, written) {
                Some(x) => x,
                None => {
                    assert!(false, "c13.encode.entry_id_truncated");
                    return;
                }
            };
            let (val, b) = match var_at(&out, pos + a, written) {
                Some(x) => x,
                None => {
                    assert!(false, "c13.encode.entry_value_truncated");
                    return;
                }
            };
            pos += a + b;
            assert!(!is_h2_reserved(id), "c13.encode.no_h2_reserved_id");
            if id == ID_MAX_FIELD_SECTION_SIZE {
                assert!(val == mfs, "c13.encode.max_field_section_size_value");
                s_mfs += 1;
            } else if id == ID_ENABLE_CONNECT_PROTOCOL {
                assert!(val == ec as u64, "c13.encode.enable_connect_value");
                s_ec += 1;
            } else if id == ID_ENABLE_WEBTRANSPORT {
                assert!(val == wt as u64, "c13.encode.enable_webtransport_value");
                s_wt += 1;
            } else if id == ID_H3_DATAGRAM {
                assert!(val == dg as u64, "c13.encode.h3_datagram_value");
                s_dg += 1;
            } else if id == ID_WEBTRANSPORT_MAX_SESSIONS {
                assert!(val == ms, "c13.encode.max_sessions_value");
                s_ms += 1;
            } else {
                assert!(grease, "c13.encode.unconfigured_id_sent");
                assert!(is_grease_form(id), "c13.encode.extra_id_has_reserved_form");
                s_gr += 1;
            }
        }
        k += 1;
    }
    assert!(pos == written, "c13.encode.no_more_than_seven_entries");
    assert!(s_mfs == 1 && s_ec == 1 && s_wt == 1 && s_dg == 1 && s_ms == 1,
        "c13.encode.every_configured_setting_exactly_once");
    assert!(s_gr <= 1, "c13.encode.at_most_one_grease_setting");
    kani::cover!(mfs == MAX62 && ms == MAX62, "largest_values");
    kani::cover!(mfs == 0 && !wt && !ec && !dg && ms == 0, "all_zero");
    kani::cover!(s_gr == grease as u8, "grease_setting_count_as_configured");
    kani::cover!(mfs == 16384, "four_byte_value");
}

/// @check C13,C14 quick cost=200 timeout=1200
/// Grease off: for ALL u64 field-section sizes / session limits and all boolean options the conversion
/// either yields a SETTINGS frame whose wire bytes carry exactly the configured values (each id once, no
/// HTTP/2-reserved id, length field exact, <= 64 bytes) or refuses the configuration; it never panics.
#[kani::proof]
#[kani::unwind(10)]
#[kani::stub(fastrand::u64, stubs::fastrand_u64_any)]
fn c13_config_to_wire_no_grease() {
    conversion_case(false);
}

/// @check C13,C14 quick cost=300 timeout=1200
/// Grease on (fastrand::u64 stubbed to return ANY value of its range): as above, plus the one extra id has the
/// 0x1f*N+0x21 form and collides with no configured id.
#[kani::proof]
#[kani::unwind(10)]
#[kani::stub(fastrand::u64, stubs::fastrand_u64_any)]
fn c13_config_to_wire_grease() {
    conversion_case(true);
}

/// @check C13 quick cost=30
/// Received SETTINGS are applied exactly: known ids take effect (booleans are value != 0), absent ids keep the
/// protocol defaults, and the defaults (used until SETTINGS arrive) are (2^62-1, false, false, false, 0).
#[kani::proof]
#[kani::unwind(10)]
fn c13_received_settings_applied_exactly() {
    assert!(default_settings() == (MAX62, false, false, false, 0), "c13.defaults.protocol_defaults");
    let mut s = Settings::default();
    let has: [bool; 5] = kani::any();
    let vals: [u64; 5] = kani::any();
    let ids = [
        ID_MAX_FIELD_SECTION_SIZE,
        ID_ENABLE_WEBTRANSPORT,
        ID_ENABLE_CONNECT_PROTOCOL,
        ID_H3_DATAGRAM,
        ID_WEBTRANSPORT_MAX_SESSIONS,
    ];
    let mut i = 0;
    while i < 5 {
        kani::assume(vals[i] <= MAX62);
        if has[i] {
            let r = s.insert(SettingId(ids[i]), vals[i]);
            assert!(r.is_ok(), "c13.apply.insert_distinct_ids");
        }
        i += 1;
    }
    // ids h3 parses but that do not map to a config field must not disturb the others
    let qpack: bool = kani::any();
    if qpack {
        let _ = s.insert(SettingId(0x1), kani::any());
        let _ = s.insert(SettingId(0x7), kani::any());
    }
    let (mfs, wt, ec, dg, ms) = applied_settings(&s);
    assert!(mfs == if has[0] { vals[0] } else { MAX62 }, "c13.apply.max_field_section_size");
    assert!(wt == if has[1] { vals[1] != 0 } else { false }, "c13.apply.enable_webtransport");
    assert!(ec == if has[2] { vals[2] != 0 } else { false }, "c13.apply.enable_extended_connect");
    assert!(dg == if has[3] { vals[3] != 0 } else { false }, "c13.apply.enable_datagram");
    assert!(ms == if has[4] { vals[4] } else { 0 }, "c13.apply.max_webtransport_sessions");
    kani::cover!(has[0] && vals[0] == 0, "limit_zero");
    kani::cover!(!has[0] && !has[1] && !has[2] && !has[3] && !has[4], "empty_settings");
    kani::cover!(has[1] && vals[1] == 2, "bool_from_value_2");
    kani::cover!(qpack, "with_qpack_ids");
}

// ------------------------------------------------------------------------------------------------
// Received SETTINGS payloads

fn is_supported(id: u64) -> bool {
    id == 0x1 || id == 0x6 || id == 0x7 || id == 0x8 || id == 0x33 || id == ID_ENABLE_WEBTRANSPORT
        || id == ID_WEBTRANSPORT_MAX_SESSIONS
}

/// Reference for a SETTINGS payload of `len` bytes (RFC 9114 §7.2.4): walks the (id, value) varint pairs.
/// Returns (verdict, kept entries, count): verdict 0 = accepted, 1 = HTTP/2-reserved id, 2 = repeated id,
/// 3 = truncated entry.
fn settings_ref(p: &[u8; 64], len: usize) -> (u8, [(u64, u64); 4], usize) {
    let mut kept = [(0u64, 0u64); 4];
    let mut n = 0usize;
    let mut pos = 0usize;
    let mut k = 0;
    while k < 5 {
        if pos >= len {
            return (0, kept, n);
        }
        let (id, a) = match var_at(p, pos, len) {
            Some(x) => x,
            None => return (3, kept, n),
        };
        let (val, b) = match var_at(p, pos + a, len) {
            Some(x) => x,
            None => return (3, kept, n),
        };
        pos += a + b;
        if is_h2_reserved(id) {
            return (1, kept, n);
        }
        if is_supported(id) {
            let mut j = 0;
            while j < 4 {
                if j < n && kept[j].0 == id {
                    return (2, kept, n);
                }
                j += 1;
            }
            if n < 4 {
                kept[n] = (id, val);
                n += 1;
            }
        }
        k += 1;
    }
    (0, kept, n)
}

fn decode_case(len: usize) {
    let mut p = [0u8; 64];
    let sym: [u8; 8] = kani::any();
    let mut i = 0;
    while i < 8 {
        p[i] = sym[i];
        i += 1;
    }
    let mut r = KBuf::new(&p[..len]);
    let got = Settings::verif_decode(&mut r);
    let (verdict, kept, n) = settings_ref(&p, len);
    match &got {
        Ok(s) => {
            assert!(verdict == 0, "c13.decode.invalid_payload_accepted");
            let e = s.verif_entries();
            assert!(e.len() == n, "c13.decode.kept_exactly_the_supported_entries");
            let mut j = 0;
            while j < 4 {
                if j < n {
                    assert!(e[j].0 .0 == kept[j].0 && e[j].1 == kept[j].1, "c13.decode.entry_id_and_value");
                    assert!(s.get(SettingId(kept[j].0)) == Some(kept[j].1), "c13.decode.get_returns_received_value");
                }
                j += 1;
            }
            assert!(r.consumed() == len, "c13.decode.consumes_whole_payload");
        }
        Err(SettingsError::InvalidSettingId(_)) => assert!(verdict == 1, "c13.decode.wrong_error.invalid_id"),
        Err(SettingsError::Repeated(_)) => assert!(verdict == 2, "c13.decode.wrong_error.repeated"),
        Err(SettingsError::Malformed) => assert!(verdict == 3, "c13.decode.wrong_error.malformed"),
        Err(_) => assert!(false, "c13.decode.unexpected_error_kind"),
    }
    std::mem::forget(got);
    if len >= 2 {
        kani::cover!(verdict == 0 && n >= 1, "supported_entry_kept");
        kani::cover!(verdict == 0 && n == 0, "unknown_entry_ignored");
        kani::cover!(verdict == 1, "h2_reserved_id");
    }
    if len >= 1 {
        kani::cover!(verdict == 3, "truncated_entry");
    }
}

/// @check C13,C06 quick cost=100 timeout=900
/// EVERY SETTINGS payload of 0..=2 bytes (all bytes symbolic: every id/value varint form that fits, reserved,
/// supported and unknown ids, every truncation): Settings::decode agrees with the RFC 9114 §7.2.4 reference —
/// accepted iff no reserved id, no repeated supported id and no truncated entry; exactly the supported entries
/// are kept, in order, with their values; the error kind names the first offence.
#[kani::proof]
#[kani::unwind(10)]
fn c13_decode_any_payload_len0_2() {
    decode_case(0);
    decode_case(1);
    decode_case(2);
}

/// @check C13,C06 quick cost=300 timeout=1500
/// Same for every 3-byte payload (one entry with a two-byte id or value, or a truncated second entry).
#[kani::proof]
#[kani::unwind(10)]
fn c13_decode_any_payload_len3() {
    decode_case(3);
}

/// @check C13,C06 thorough cost=600 timeout=3000
/// Same for every 4-byte payload (two one-byte entries incl. repeats, or multi-byte forms).
#[kani::proof]
#[kani::unwind(10)]
fn c13_decode_any_payload_len4() {
    decode_case(4);
}

/// @check C13,C06 thorough cost=900 timeout=3600
/// Same for every 5-byte payload.
#[kani::proof]
#[kani::unwind(10)]
fn c13_decode_any_payload_len5() {
    decode_case(5);
}

/// @check C13 quick cost=200 timeout=1500
/// A repeated supported identifier is refused as Repeated wherever it occurs: payload of three one-byte-form
/// entries with symbolic ids and values.
#[kani::proof]
#[kani::unwind(10)]
fn c13_decode_repeated_id() {
    let mut p = [0u8; 64];
    let sym: [u8; 6] = kani::any();
    let mut i = 0;
    while i < 6 {
        kani::assume(sym[i] < 0x40);
        p[i] = sym[i];
        i += 1;
    }
    let mut r = KBuf::new(&p[..6]);
    let got = Settings::verif_decode(&mut r);
    let (verdict, _kept, n) = settings_ref(&p, 6);
    match &got {
        Ok(s) => {
            assert!(verdict == 0, "c13.decode.invalid_payload_accepted");
            assert!(s.verif_entries().len() == n, "c13.decode.kept_exactly_the_supported_entries");
        }
        Err(SettingsError::InvalidSettingId(_)) => assert!(verdict == 1, "c13.decode.wrong_error.invalid_id"),
        Err(SettingsError::Repeated(_)) => assert!(verdict == 2, "c13.decode.wrong_error.repeated"),
        Err(SettingsError::Malformed) => assert!(verdict == 3, "c13.decode.wrong_error.malformed"),
        Err(_) => assert!(false, "c13.decode.unexpected_error_kind"),
    }
    std::mem::forget(got);
    kani::cover!(verdict == 2, "repeated_id");
    kani::cover!(verdict == 2 && sym[0] == sym[4] && sym[2] != sym[0], "repeated_first_and_third");
    kani::cover!(verdict == 0 && n == 3, "three_distinct_supported");
    kani::cover!(verdict == 0 && n == 0, "three_unknown");
}
