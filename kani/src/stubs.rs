//! The only stubs used by the harnesses (see DESIGN.md §2.3).

use std::ops::{Bound, RangeBounds};

/// Stub for `fastrand::u64`: any value inside the requested range.
pub fn fastrand_u64_any(range: impl RangeBounds<u64>) -> u64 {
    let v: u64 = kani::any();
    match range.start_bound() {
        Bound::Included(s) => kani::assume(v >= *s),
        Bound::Excluded(s) => kani::assume(v > *s),
        Bound::Unbounded => {}
    }
    match range.end_bound() {
        Bound::Included(e) => kani::assume(v <= *e),
        Bound::Excluded(e) => kani::assume(v < *e),
        Bound::Unbounded => {}
    }
    v
}

/// Stub for `alloc::fmt::format`: error-message text is not the subject of any property.
pub fn format_empty(_args: core::fmt::Arguments<'_>) -> String {
    String::new()
}

/// Stub for `core::str::from_utf8` in the C12 name-validator harnesses: `http` re-validates (debug builds only) the UTF-8
/// of a header name it has already checked byte by byte against its token table; that re-validation is not the subject.
pub fn from_utf8_trusting(v: &[u8]) -> Result<&str, core::str::Utf8Error> {
    Ok(unsafe { core::str::from_utf8_unchecked(v) })
}
