//! C11 / C10 — QPACK field sections: `decode_stateless` / `encode_stateless` against an independent
//! RFC 9204 §4.5 model (own copy of Appendix A), with a SYMBOLIC size limit (C10: accepted iff the
//! RFC 9114 §4.2.2 size, sum of name + value + 32, is <= limit).
//!
//! Shapes (which representation, string lengths) are concrete; indices' low bits, string bytes, N bits and
//! the limit are symbolic. Instantiation: `KBuf`, `&mut [u8]`.

use h3::qpack::{decode_stateless, encode_stateless, DecoderError, HeaderField};

use crate::kbuf::KBuf;
use crate::qpack_static::STATIC_TABLE;
use crate::refmodel::{huffman_decode, qpack_decode, Huff, QField, QVerdict, QMAX_FIELDS, QMAX_STR};

const MAXCMP: usize = 56; // longest static name/value is 53 bytes

fn slice_eq(a: &[u8], b: &[u8]) -> bool {
    if a.len() != b.len() {
        return false;
    }
    let mut i = 0;
    while i < MAXCMP {
        if i < a.len() && a[i] != b[i] {
            return false;
        }
        i += 1;
    }
    true
}

fn field_matches(h: &HeaderField, f: &QField) -> bool {
    let name_ok = match f.name_static {
        Some(i) => slice_eq(&h.name, STATIC_TABLE[i].0),
        None => slice_eq(&h.name, &f.name[..f.name_len]),
    };
    let value_ok = if f.value_static {
        slice_eq(&h.value, STATIC_TABLE[f.name_static.unwrap()].1)
    } else {
        slice_eq(&h.value, &f.value[..f.value_len])
    };
    name_ok && value_ok
}

/// Compare h3 with an expected outcome: `want` = Some((fields, n, size)) if the section is a valid encoding of those
/// fields, None if it must be rejected as malformed. The size limit is applied line by line, as RFC 9114 §4.2.2
/// counts it. Returns true if h3 accepted.
pub fn expect(section: &[u8; 16], len: usize, limit: u64, want: Option<(&[QField; QMAX_FIELDS], usize)>) -> bool {
    let mut r = KBuf::new(&section[..len]);
    let got = decode_stateless(&mut r, limit);
    let accepted = got.is_ok();
    match want {
        Some((fields, nf)) => {
            let mut size: u64 = 0;
            let mut k = 0;
            while k < QMAX_FIELDS {
                if k < nf {
                    size += (fields[k].name_size() + fields[k].value_size() + 32) as u64;
                }
                k += 1;
            }
            match &got {
                Ok(d) => {
                    assert!(size <= limit, "c10.decode.section_over_limit_accepted");
                    assert!(d.fields.len() == nf, "c11.decode.field_count");
                    let mut k = 0;
                    while k < QMAX_FIELDS {
                        if k < nf {
                            assert!(field_matches(&d.fields[k], &fields[k]), "c11.decode.field_equals_independent_decoding");
                        }
                        k += 1;
                    }
                    assert!(d.mem_size == size, "c10.decode.reported_size_is_rfc_size");
                    assert!(!d.dyn_ref, "c11.decode.no_dynamic_reference_reported");
                }
                Err(DecoderError::HeaderTooLong(_)) => {
                    assert!(size > limit, "c10.decode.section_within_limit_refused_as_too_long");
                }
                Err(_) => {
                    assert!(size > limit, "c11.decode.valid_encoding_rejected");
                    assert!(false, "c10.decode.too_long_reported_as_other_error");
                }
            }
        }
        None => {
            assert!(!accepted, "c11.decode.invalid_encoding_accepted");
            assert!(!matches!(&got, Err(DecoderError::HeaderTooLong(_))), "c10.decode.malformed_reported_as_too_long");
        }
    }
    std::mem::forget(got);
    accepted
}

pub fn static_rows(from: usize, to: usize) {
    let limit: u64 = kani::any();
    let mut accepted_some = false;
    let mut refused_some = false;
    let mut i = from;
    while i < to {
        let mut s = [0u8; 16];
        // §4.5.2: 1 T=1 index(6+)
        let len = if i < 63 {
            s[2] = 0xc0 | i as u8;
            3
        } else {
            s[2] = 0xff;
            s[3] = (i - 63) as u8;
            4
        };
        let mut f = [QField::EMPTY; QMAX_FIELDS];
        f[0].name_static = Some(i);
        f[0].value_static = true;
        let a = expect(&s, len, limit, Some((&f, 1)));
        accepted_some |= a;
        refused_some |= !a;
        i += 1;
    }
    kani::cover!(accepted_some, "row_accepted");
    kani::cover!(refused_some, "row_over_limit");
}

/// `cut`: 0 = decode the whole line; otherwise decode only the first `cut` bytes of the section (must be rejected).
pub fn literal_case(nl: usize, vl: usize, cut: usize) -> bool {
    let limit: u64 = kani::any();
    let name: [u8; QMAX_STR] = kani::any();
    let value: [u8; QMAX_STR] = kani::any();
    // a byte that carries length or index bits must be entirely concrete for CBMC (a symbolic N bit would make the
    // whole prefix integer symbolic and with it the size of the string allocation): N alternates with the shape
    let n_bit: bool = (nl + vl) % 2 == 1;
    let mut s = [0u8; 16];
    // §4.5.6: 0 0 1 N H=0 namelen(3+)
    s[2] = 0x20 | if n_bit { 0x10 } else { 0 } | nl as u8;
    let mut i = 0;
    while i < QMAX_STR {
        if i < nl {
            s[3 + i] = name[i];
        }
        i += 1;
    }
    s[3 + nl] = vl as u8; // H=0, 7-bit length
    let mut j = 0;
    while j < QMAX_STR {
        if j < vl {
            s[4 + nl + j] = value[j];
        }
        j += 1;
    }
    let len = 4 + nl + vl;
    let mut f = [QField::EMPTY; QMAX_FIELDS];
    f[0].name = name;
    f[0].name_len = nl;
    f[0].value = value;
    f[0].value_len = vl;
    if cut == 0 {
        expect(&s, len, limit, Some((&f, 1)))
    } else {
        assert!(cut < len, "harness: cut inside the line");
        expect(&s, cut, limit, None)
    }
}

pub fn name_ref_case(idx: usize, vl: usize, cut: usize) -> bool {
    let limit: u64 = kani::any();
    let value: [u8; QMAX_STR] = kani::any();
    let n_bit: bool = (idx + vl) % 2 == 1; // concrete, see literal_case_opt
    let mut s = [0u8; 16];
    // §4.5.4: 0 1 N T=1 index(4+)
    let mut p = 2;
    let first = 0x50 | if n_bit { 0x20 } else { 0 };
    if idx < 15 {
        s[p] = first | idx as u8;
        p += 1;
    } else {
        s[p] = first | 0x0f;
        s[p + 1] = (idx - 15) as u8;
        p += 2;
    }
    s[p] = vl as u8;
    p += 1;
    let mut j = 0;
    while j < QMAX_STR {
        if j < vl {
            s[p + j] = value[j];
        }
        j += 1;
    }
    let len = p + vl;
    let mut f = [QField::EMPTY; QMAX_FIELDS];
    f[0].name_static = Some(idx);
    f[0].value = value;
    f[0].value_len = vl;
    if cut == 0 {
        expect(&s, len, limit, Some((&f, 1)))
    } else {
        assert!(cut < len, "harness: cut inside the line");
        expect(&s, cut, limit, None)
    }
}


/// One malformed section `00 00 b2 b3 [b4]` of `len` bytes: must be rejected.
pub fn reject_case(b2: u8, b3: u8, b4: u8, len: usize) {
    let limit: u64 = kani::any();
    let mut s = [0u8; 16];
    s[2] = b2;
    s[3] = b3;
    s[4] = b4;
    expect(&s, len, limit, None);
}

/// Prefix `ric db` (concrete one-byte forms) followed by one static line (:method GET); `len` = 1 (prefix cut short),
/// 2 (no lines) or 3. Symbolic prefix bytes make CBMC explore the multi-byte integer paths of both prefix integers
/// and do not finish, so the values are enumerated by the callers; the prefix-integer codec itself is C15's.
pub fn prefix_case(ric: u8, db: u8, len: usize) {
    let limit: u64 = kani::any();
    let mut s = [0u8; 16];
    s[0] = ric;
    s[1] = db;
    s[2] = 0xc0 | 17;
    let mut f = [QField::EMPTY; QMAX_FIELDS];
    f[0].name_static = Some(17);
    f[0].value_static = true;
    if len < 2 {
        expect(&s, len, limit, None);
    } else if ric == 0 {
        expect(&s, len, limit, Some((&f, len - 2)));
    } else {
        expect(&s, len, limit, None);
    }
}
