//! C14 — everything h3 writes is valid HTTP/3: every byte h3 frames goes through one of the
//! `From<..> for WriteBuf<B>` conversions (which call the `Encode` impls) and `impl Buf for WriteBuf`.
//!
//! Header bytes are checked on the `Encode` impls with symbolic ids / lengths; `WriteBuf`'s bookkeeping is
//! checked with concrete headers, symbolic payload bytes and symbolic partial consumption.

use std::convert::TryFrom;

use bytes::{Buf, Bytes};
use h3::proto::coding::Encode;
use h3::proto::frame::{Frame, FrameType, SettingId};
use h3::proto::push::PushId;
use h3::proto::stream::StreamType;
use h3::proto::varint::VarInt;
use h3::stream::{UniStreamHeader, WriteBuf};

use crate::refmodel::{varint_decode, varint_encode};
use crate::stubs;

const MAX62: u64 = (1 << 62) - 1;

/// A `Buf` that only has a length: lets the DATA header be checked for every payload length
/// without allocating the payload.
struct LenBuf(usize);
impl Buf for LenBuf {
    fn remaining(&self) -> usize {
        self.0
    }
    fn chunk(&self) -> &[u8] {
        &[]
    }
    fn advance(&mut self, cnt: usize) {
        self.0 -= cnt;
    }
}

fn encode_to<E: Encode>(e: &E) -> ([u8; 32], usize) {
    let mut out = [0u8; 32];
    let n = {
        let mut w: &mut [u8] = &mut out[..];
        e.encode(&mut w);
        32 - w.len()
    };
    (out, n)
}

fn var_at32(b: &[u8; 32], pos: usize, end: usize) -> Option<(u64, usize)> {
    if pos >= end {
        return None;
    }
    let mut w = [0u8; 8];
    let mut i = 0;
    while i < 8 {
        if pos + i < end {
            w[i] = b[pos + i];
        }
        i += 1;
    }
    let avail = if end - pos > 8 { 8 } else { end - pos };
    varint_decode(&w, avail)
}

fn is_shortest(b: &[u8; 32], pos: usize, v: u64, n: usize) -> bool {
    let (_, m) = varint_encode(v);
    let _ = (b, pos);
    m == n
}

fn is_defined_or_h2_frame_type(t: u64) -> bool {
    t <= 0x9 || t == 0xd || t == 0x41
}

/// @check C14 quick cost=20
/// DATA frame header for EVERY payload length below 2^62: bytes are 0x00 ++ shortest varint(length), i.e. the
/// length field equals the bytes that follow.
#[kani::proof]
#[kani::unwind(10)]
#[kani::stub(fastrand::u64, stubs::fastrand_u64_any)]
fn c14_data_header_any_length() {
    let len: usize = kani::any();
    kani::assume(len as u64 <= MAX62);
    let (out, n) = encode_to(&Frame::Data(LenBuf(len)));
    assert!(out[0] == 0x00, "c14.data.frame_type");
    let (v, ln) = var_at32(&out, 1, n).unwrap();
    assert!(v == len as u64, "c14.data.length_field_equals_payload_length");
    assert!(1 + ln == n, "c14.data.header_is_type_and_length_only");
    assert!(is_shortest(&out, 1, v, ln), "c14.data.length_in_shortest_form");
    kani::cover!(len == 0, "empty_data_frame");
    kani::cover!(len as u64 == MAX62, "largest_length");
    kani::cover!(len == 16384, "four_byte_length");
}

/// @check C14 quick cost=20
/// GOAWAY / CANCEL_PUSH / MAX_PUSH_ID for EVERY id below 2^62: type, length = size of the id varint, id.
#[kani::proof]
#[kani::unwind(10)]
#[kani::stub(fastrand::u64, stubs::fastrand_u64_any)]
fn c14_id_frames_any_id() {
    let id: u64 = kani::any();
    kani::assume(id <= MAX62);
    let which: u8 = kani::any();
    kani::assume(which < 3);
    let (out, n, ty) = if which == 0 {
        let (o, n) = encode_to(&Frame::<LenBuf>::Goaway(VarInt::from_u64(id).unwrap()));
        (o, n, 0x7u8)
    } else if which == 1 {
        let (o, n) = encode_to(&Frame::<LenBuf>::CancelPush(PushId::try_from(id).unwrap()));
        (o, n, 0x3u8)
    } else {
        let (o, n) = encode_to(&Frame::<LenBuf>::MaxPushId(PushId::try_from(id).unwrap()));
        (o, n, 0xdu8)
    };
    assert!(out[0] == ty, "c14.id_frame.frame_type");
    let (l, ln) = var_at32(&out, 1, n).unwrap();
    let (v, vn) = var_at32(&out, 1 + ln, n).unwrap();
    assert!(v == id, "c14.id_frame.id_value");
    assert!(l as usize == vn, "c14.id_frame.length_field_equals_payload_length");
    assert!(1 + ln + vn == n, "c14.id_frame.nothing_after_the_id");
    kani::cover!(which == 0 && id == MAX62, "goaway_largest_id");
    kani::cover!(which == 2 && id == 0, "max_push_id_zero");
    kani::cover!(which == 1 && vn == 4, "cancel_push_four_byte_id");
}

/// @check C14 quick cost=60
/// Reserved ("grease") identifiers, with fastrand::u64 stubbed to return ANY value of the requested range:
/// frame type, setting id and stream type have the form 0x1f*N+0x21, are below 2^62 and therefore never equal a
/// defined or HTTP/2-reserved identifier; the grease frame is type ++ 06 ++ "grease".
#[kani::proof]
#[kani::unwind(10)]
#[kani::stub(fastrand::u64, stubs::fastrand_u64_any)]
fn c14_grease_identifiers() {
    let st = StreamType::grease().value();
    assert!(st <= MAX62 && st >= 0x21 && (st - 0x21) % 0x1f == 0, "c14.grease.stream_type_form");
    assert!(st != 0x00 && st != 0x01 && st != 0x02 && st != 0x03 && st != 0x41 && st != 0x54,
        "c14.grease.stream_type_not_defined");
    let si = SettingId::grease().0;
    assert!(si <= MAX62 && si >= 0x21 && (si - 0x21) % 0x1f == 0, "c14.grease.setting_id_form");
    assert!(si > 5, "c14.grease.setting_id_not_h2_reserved");
    let (out, n) = encode_to(&Frame::<LenBuf>::Grease);
    let (ft, tn) = var_at32(&out, 0, n).unwrap();
    assert!(ft <= MAX62 && ft >= 0x21 && (ft - 0x21) % 0x1f == 0, "c14.grease.frame_type_form");
    assert!(!is_defined_or_h2_frame_type(ft), "c14.grease.frame_type_not_defined_or_h2");
    assert!(is_shortest(&out, 0, ft, tn), "c14.grease.frame_type_shortest_form");
    assert!(out[tn] == 6, "c14.grease.length_field");
    assert!(n == tn + 1 + 6, "c14.grease.length_field_equals_payload_length");
    assert!(out[tn + 1] == b'g' && out[tn + 6] == b'e', "c14.grease.payload");
    kani::cover!(tn == 8, "eight_byte_frame_type");
    kani::cover!(tn == 1, "one_byte_frame_type");
    kani::cover!(st == 0x21, "smallest_stream_type");
}

/// @check C14 quick cost=20
/// Stream type prefixes of the unidirectional streams h3 opens: control 0x00 (the SETTINGS that follow are C13),
/// QPACK encoder 0x02, decoder 0x03, and HEADERS frame headers for block lengths 0, 1, 63, 64.
#[kani::proof]
#[kani::unwind(70)]
#[kani::stub(fastrand::u64, stubs::fastrand_u64_any)]
fn c14_stream_types_and_headers_frame() {
    let (o, n) = encode_to(&UniStreamHeader::Encoder);
    assert!(n == 1 && o[0] == 0x02, "c14.uni.encoder_stream_type");
    let (o, n) = encode_to(&UniStreamHeader::Decoder);
    assert!(n == 1 && o[0] == 0x03, "c14.uni.decoder_stream_type");
    let (o, n) = encode_to(&StreamType::CONTROL);
    assert!(n == 1 && o[0] == 0x00, "c14.uni.control_stream_type");
    static B64: [u8; 64] = [0x55; 64];
    let lens = [0usize, 1, 63, 64];
    let mut k = 0;
    while k < 4 {
        let l = lens[k];
        let f = Frame::<LenBuf>::Headers(Bytes::from_static(&B64[..l]));
        let (o, n) = encode_to(&f);
        assert!(o[0] == 0x01, "c14.headers.frame_type");
        let (v, ln) = var_at32(&o, 1, n).unwrap();
        assert!(v as usize == l && 1 + ln == n, "c14.headers.length_field_equals_payload_length");
        std::mem::forget(f);
        k += 1;
    }
    kani::cover!(true, "completed");
}

/// Drain `w` with up to 3 symbolic `advance` amounts then completely; after each step `remaining()` and
/// `chunk()` must agree with the reference suffix `want[pos..total]`.
fn drain_and_compare<B: Buf>(mut w: B, want: &[u8; 32], total: usize) {
    let mut pos = 0usize;
    let mut step = 0;
    while step < 4 {
        assert!(w.remaining() == total - pos, "c14.writebuf.remaining_matches_reference");
        let c = w.chunk();
        if total - pos > 0 {
            assert!(!c.is_empty(), "c14.writebuf.chunk_nonempty_while_remaining");
        }
        assert!(c.len() <= total - pos, "c14.writebuf.chunk_within_remaining");
        let mut i = 0;
        while i < 32 {
            if i < c.len() {
                assert!(c[i] == want[pos + i], "c14.writebuf.bytes_are_header_then_payload");
            }
            i += 1;
        }
        let a: usize = if step < 3 { kani::any() } else { total - pos };
        kani::assume(a <= total - pos);
        w.advance(a);
        pos += a;
        step += 1;
    }
    assert!(w.remaining() == 0, "c14.writebuf.fully_drained");
    std::mem::forget(w);
}

fn data_case(l: usize) {
    let payload: [u8; 8] = kani::any();
    let mut want = [0u8; 32];
    want[0] = 0x00;
    want[1] = l as u8;
    let mut i = 0;
    while i < 8 {
        if i < l {
            want[2 + i] = payload[i];
        }
        i += 1;
    }
    let w = WriteBuf::<&[u8]>::from(Frame::Data(&payload[..l]));
    drain_and_compare(w, &want, 2 + l);
}

/// @check C14 quick cost=120 timeout=900
/// WriteBuf over a DATA frame with 0..=3 symbolic payload bytes, consumed in any pattern of up to 4 advance calls
/// (ending inside the header, on the header/payload boundary, inside the payload): the transport sees exactly
/// 0x00 ++ length ++ payload, chunk() is never empty while bytes remain.
#[kani::proof]
#[kani::unwind(34)]
#[kani::stub(fastrand::u64, stubs::fastrand_u64_any)]
fn c14_writebuf_data_partial_writes_len0_3() {
    let mut l = 0;
    while l <= 3 {
        data_case(l);
        l += 1;
    }
    kani::cover!(true, "completed");
}

/// @check C14 thorough cost=300 timeout=1800
/// Same for payload lengths 4..=8.
#[kani::proof]
#[kani::unwind(34)]
#[kani::stub(fastrand::u64, stubs::fastrand_u64_any)]
fn c14_writebuf_data_partial_writes_len4_8() {
    let mut l = 4;
    while l <= 8 {
        data_case(l);
        l += 1;
    }
    kani::cover!(true, "completed");
}

/// @check C14 quick cost=120 timeout=900
/// WriteBuf over (stream type, frame) — the conversion used for the first bytes of a unidirectional stream — and
/// over the bare stream-type conversions: the drained bytes are type ++ frame header ++ payload, under partial writes.
#[kani::proof]
#[kani::unwind(34)]
#[kani::stub(fastrand::u64, stubs::fastrand_u64_any)]
fn c14_writebuf_stream_type_prefix() {
    // (StreamType, Frame::Data): type 0x40 needs the two-byte form
    let payload: [u8; 2] = kani::any();
    let w = WriteBuf::<&[u8]>::from((StreamType::from_value(0x40), Frame::Data(&payload[..])));
    let mut want = [0u8; 32];
    want[0] = 0x40;
    want[1] = 0x40;
    want[2] = 0x00;
    want[3] = 2;
    want[4] = payload[0];
    want[5] = payload[1];
    drain_and_compare(w, &want, 6);
    let w = WriteBuf::<&[u8]>::from(UniStreamHeader::Encoder);
    let mut want = [0u8; 32];
    want[0] = 0x02;
    drain_and_compare(w, &want, 1);
    let w = WriteBuf::<&[u8]>::from(StreamType::DECODER);
    want[0] = 0x03;
    drain_and_compare(w, &want, 1);
    kani::cover!(true, "completed");
}

fn goaway_ids(ids: &[u64]) {
    let mut k = 0;
    while k < ids.len() {
        let f = Frame::<&[u8]>::Goaway(VarInt::from_u64(ids[k]).unwrap());
        let (enc, n) = encode_to(&f);
        let w = WriteBuf::<&[u8]>::from(f);
        drain_and_compare(w, &enc, n);
        k += 1;
    }
}

/// @check C14 quick cost=200 timeout=900
/// WriteBuf over GOAWAY at the small varint form boundaries (ids 0, 63, 64, 16383): drained bytes equal the Encode
/// output (whose content is proved for every id by c14_id_frames_any_id), under partial writes.
#[kani::proof]
#[kani::unwind(34)]
#[kani::stub(fastrand::u64, stubs::fastrand_u64_any)]
fn c14_writebuf_goaway_small_ids() {
    goaway_ids(&[0, 63, 64, 16383]);
    kani::cover!(true, "completed");
}

/// @check C14 thorough cost=300 timeout=1800
/// Same at the large boundaries (16384, 2^30-1, 2^30, 2^62-1).
#[kani::proof]
#[kani::unwind(34)]
#[kani::stub(fastrand::u64, stubs::fastrand_u64_any)]
fn c14_writebuf_goaway_large_ids() {
    goaway_ids(&[16384, (1 << 30) - 1, 1 << 30, MAX62]);
    kani::cover!(true, "completed");
}

/// @check C14 quick cost=120 timeout=900
/// WriteBuf over a HEADERS frame (Bytes payload of 3 bytes): header then block, under partial writes.
#[kani::proof]
#[kani::unwind(34)]
#[kani::stub(fastrand::u64, stubs::fastrand_u64_any)]
fn c14_writebuf_headers_partial_writes() {
    static BLOCK: [u8; 3] = [0x00, 0x00, 0xd1];
    let w = WriteBuf::<&[u8]>::from(Frame::Headers(Bytes::from_static(&BLOCK)));
    let mut want = [0u8; 32];
    want[0] = 0x01;
    want[1] = 3;
    want[2] = 0x00;
    want[3] = 0x00;
    want[4] = 0xd1;
    drain_and_compare(w, &want, 5);
    kani::cover!(true, "completed");
}
