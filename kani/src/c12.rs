//! C12 — the per-field gate with the `http` crate's validators INCLUDED (engine M decides h3's routing with the
//! validators abstracted; these harnesses close the "delegation is complete" gap for short names and values).
//! Bounds: one field per header list, name length 1..=3 (concrete per harness), value length 1..=2, every byte symbolic.


use crate::stubs;

/// RFC 9110 §5.6.2 tchar, minus the upper-case letters RFC 9114 §4.2 forbids.
fn lower_tchar(b: u8) -> bool {
    match b {
        b'a'..=b'z' | b'0'..=b'9' => true,
        b'!' | b'#' | b'$' | b'%' | b'&' | b'\'' | b'*' | b'+' | b'-' | b'.' | b'^' | b'_' | b'`' | b'|' | b'~' => true,
        _ => false,
    }
}

/// RFC 9110 §5.5 field-value bytes as `http` accepts them: no CTL except HTAB, no DEL.
fn value_byte(b: u8) -> bool {
    b == b'\t' || (b >= 0x20 && b != 0x7f)
}

fn name_gate<const N: usize>() {
    let name: [u8; N] = kani::any();
    let got = http::HeaderName::from_lowercase(&name);
    let mut name_ok = true;
    let mut ok_but_for_dquote = true;
    let mut i = 0;
    while i < N {
        name_ok &= lower_tchar(name[i]);
        ok_but_for_dquote &= lower_tchar(name[i]) || name[i] == b'"';
        i += 1;
    }
    let accepted = got.is_ok();
    kani::cover!(accepted, "a_name_is_accepted");
    kani::cover!(!accepted, "a_name_is_refused");
    if ok_but_for_dquote && !name_ok {
        // DQUOTE is not a token character (RFC 9110 5.6.2); kept apart so that the finding is identified by its input
        assert!(!accepted, "c12.gate.dquote_accepted_in_field_name");
    } else {
        // 'only if': an accepted name is a lower-case token (a validator that is stricter than the rule is not a violation)
        assert!(!accepted || name_ok, "c12.gate.illegal_name_byte_accepted");
        kani::cover!(accepted && name_ok, "a_legal_name_is_accepted");
    }
    core::mem::forget(got);
}

fn value_gate<const V: usize>() {
    let value: [u8; V] = kani::any();
    let got = http::HeaderValue::from_bytes(&value);
    let mut value_ok = true;
    let mut i = 0;
    while i < V {
        value_ok &= value_byte(value[i]);
        i += 1;
    }
    let accepted = got.is_ok();
    kani::cover!(accepted, "a_value_is_accepted");
    kani::cover!(!accepted, "a_value_is_refused");
    assert!(!accepted || value_ok, "c12.gate.illegal_value_byte_accepted");
    kani::cover!(accepted && value_ok, "a_legal_value_is_accepted");
    core::mem::forget(got);
}

/// @check C12 quick cost=60
/// The validator Field::parse routes every regular NAME through (engine M proves the routing), on every 1-byte name:
/// accepted only if a lower-case token byte. So ':', upper case, CTLs, separators are refused.
#[kani::proof]
#[kani::unwind(4)]
#[kani::stub(core::str::from_utf8, stubs::from_utf8_trusting)]
fn c12_name_validator_len1() {
    name_gate::<1>();
}

/// @check C12 quick cost=120
/// Same on every 2-byte name.
#[kani::proof]
#[kani::unwind(5)]
#[kani::stub(core::str::from_utf8, stubs::from_utf8_trusting)]
fn c12_name_validator_len2() {
    name_gate::<2>();
}

/// @check C12 thorough cost=300
/// Same on every 3-byte name.
#[kani::proof]
#[kani::unwind(6)]
#[kani::stub(core::str::from_utf8, stubs::from_utf8_trusting)]
fn c12_name_validator_len3() {
    name_gate::<3>();
}

/// @check C12 quick cost=60
/// The validator every regular VALUE is routed through, on every 1- and 2-byte value: accepted only if no CTL other than HTAB
/// and no DEL (so CR, LF, NUL are refused).
#[kani::proof]
#[kani::unwind(5)]
fn c12_value_validator_len1() {
    value_gate::<1>();
}

/// @check C12 quick cost=90
#[kani::proof]
#[kani::unwind(5)]
fn c12_value_validator_len2() {
    value_gate::<2>();
}
