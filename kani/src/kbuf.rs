//! `KBuf`: a `bytes::Buf` over a byte slice whose reads are plain indexed loads.
//!
//! h3's decoders are generic over `B: Buf`; this is the instantiation most harnesses use. It behaves
//! exactly like `&[u8]` (contiguous, one chunk), but `copy_to_slice` copies byte by byte instead of
//! through `ptr::copy_nonoverlapping`, so that CBMC's constant propagation sees concrete header bytes
//! (type and length varints) as constants and only follows the decoder arm that is actually taken.
use bytes::Buf;

pub struct KBuf<'a> {
    pub data: &'a [u8],
    pub pos: usize,
}

impl<'a> KBuf<'a> {
    pub fn new(data: &'a [u8]) -> Self {
        KBuf { data, pos: 0 }
    }
    pub fn consumed(&self) -> usize {
        self.pos
    }
}

impl Buf for KBuf<'_> {
    #[inline]
    fn remaining(&self) -> usize {
        self.data.len() - self.pos
    }
    #[inline]
    fn chunk(&self) -> &[u8] {
        &self.data[self.pos..]
    }
    #[inline]
    fn advance(&mut self, cnt: usize) {
        assert!(cnt <= self.data.len() - self.pos, "KBuf::advance past the end");
        self.pos += cnt;
    }
    fn copy_to_slice(&mut self, dst: &mut [u8]) {
        assert!(dst.len() <= self.data.len() - self.pos, "KBuf::copy_to_slice past the end");
        let mut i = 0;
        while i < dst.len() {
            dst[i] = self.data[self.pos + i];
            i += 1;
        }
        self.pos += dst.len();
    }
    fn get_u8(&mut self) -> u8 {
        assert!(self.pos < self.data.len(), "KBuf::get_u8 past the end");
        let b = self.data[self.pos];
        self.pos += 1;
        b
    }
}
