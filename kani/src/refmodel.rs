//! Reference models written from the RFC text, independent of h3's code.

/// RFC 9000 §16 variable-length integer: encode `x < 2^62` in the shortest form.
/// Returns (bytes, length).
pub fn varint_encode(x: u64) -> ([u8; 8], usize) {
    let mut out = [0u8; 8];
    if x < (1 << 6) {
        out[0] = x as u8;
        (out, 1)
    } else if x < (1 << 14) {
        out[0] = 0x40 | (x >> 8) as u8;
        out[1] = x as u8;
        (out, 2)
    } else if x < (1 << 30) {
        out[0] = 0x80 | (x >> 24) as u8;
        out[1] = (x >> 16) as u8;
        out[2] = (x >> 8) as u8;
        out[3] = x as u8;
        (out, 4)
    } else {
        out[0] = 0xc0 | (x >> 56) as u8;
        out[1] = (x >> 48) as u8;
        out[2] = (x >> 40) as u8;
        out[3] = (x >> 32) as u8;
        out[4] = (x >> 24) as u8;
        out[5] = (x >> 16) as u8;
        out[6] = (x >> 8) as u8;
        out[7] = x as u8;
        (out, 8)
    }
}

/// Length of the RFC 9000 varint form announced by a first byte.
pub fn varint_form_len(first: u8) -> usize {
    match first >> 6 {
        0 => 1,
        1 => 2,
        2 => 4,
        _ => 8,
    }
}

/// RFC 9000 §16 decode of the first varint in `b[..len]`: `Some((value, consumed))`, or `None` if truncated.
pub fn varint_decode(b: &[u8], len: usize) -> Option<(u64, usize)> {
    if len == 0 {
        return None;
    }
    let n = varint_form_len(b[0]);
    if len < n {
        return None;
    }
    let mut v = (b[0] & 0x3f) as u64;
    let mut i = 1;
    while i < n {
        v = (v << 8) | b[i] as u64;
        i += 1;
    }
    Some((v, n))
}

// ------------------------------------------------------------------------------------------------
// RFC 7541 §5.1 / RFC 9204 §4.1.1 prefixed integers

/// Reference encoder: N-bit prefix integer; returns (bytes, len). `flags` are the bits above the prefix.
pub fn prefix_int_encode(size: u8, flags: u8, value: u64) -> ([u8; 11], usize) {
    let mut out = [0u8; 11];
    let maxp: u64 = if size >= 8 { 255 } else { (1u64 << size) - 1 };
    let fl: u8 = if size >= 8 { 0 } else { flags << size };
    if value < maxp {
        out[0] = fl | value as u8;
        return (out, 1);
    }
    out[0] = fl | maxp as u8;
    let mut rest = value - maxp;
    let mut n = 1;
    while rest >= 128 {
        out[n] = (rest % 128) as u8 | 0x80;
        rest /= 128;
        n += 1;
    }
    out[n] = rest as u8;
    (out, n + 1)
}

/// Result of the reference prefixed-integer decoder.
#[derive(Copy, Clone, PartialEq, Eq)]
pub enum PInt {
    /// exact mathematical value (128-bit), flags, bytes consumed, number of continuation bytes
    Value(u128, u8, usize, usize),
    /// input ended inside the integer
    Truncated,
    /// more than 10 continuation bytes with the continuation bit set (beyond any 64-bit value)
    TooLong,
}

/// Reference decoder over `b[..len]`, exact arithmetic in u128, at most 10 continuation bytes followed.
pub fn prefix_int_decode(size: u8, b: &[u8], len: usize) -> PInt {
    if len == 0 {
        return PInt::Truncated;
    }
    let maxp: u128 = if size >= 8 { 255 } else { (1u128 << size) - 1 };
    let flags: u8 = if size >= 8 { 0 } else { b[0] >> size };
    let p = (b[0] as u128) & maxp;
    if p < maxp {
        return PInt::Value(p, flags, 1, 0);
    }
    let mut v = maxp;
    let mut i = 1;
    while i <= 10 {
        if i >= len {
            return PInt::Truncated;
        }
        v += ((b[i] & 127) as u128) << (7 * (i - 1));
        if b[i] & 128 == 0 {
            return PInt::Value(v, flags, i + 1, i);
        }
        i += 1;
    }
    PInt::TooLong
}

// ------------------------------------------------------------------------------------------------
// RFC 7541 §5.2 Huffman decoding (independent bit-serial decoder over Appendix B)

pub use crate::huffman_table::HUFFMAN_CODES;

fn bit_at(b: &[u8], i: usize) -> u32 {
    ((b[i / 8] >> (7 - (i % 8))) & 1) as u32
}

use crate::huffman_table::huffman_lookup;

/// Verdict of the reference Huffman decoder.
#[derive(Copy, Clone, PartialEq, Eq)]
pub enum Huff {
    /// RFC 7541 §5.2 accepts: the decoded symbols and their count
    Accept([u8; 6], usize),
    /// the EOS symbol occurs inside the string
    RejectEos,
    /// the bits after the last complete code are all ones but there are more than 7 of them
    RejectPaddingTooLong,
    /// the bits after the last complete code are not all ones (incomplete code / wrong padding)
    RejectPaddingNotOnes,
}

/// Reference decode of `b[..len]` (len <= 4): complete codes, no EOS, then < 8 bits of all-ones padding.
pub fn huffman_decode(b: &[u8], len: usize) -> Huff {
    let nbits = len * 8;
    let mut out = [0u8; 6];
    let mut n = 0usize;
    let mut pos = 0usize;
    // at most 6 symbols fit in 32 bits (shortest code is 5 bits)
    let mut guard = 0;
    while guard < 7 {
        // try to complete one code starting at `pos`
        let mut acc: u32 = 0;
        let mut l: u8 = 0;
        let mut sym: Option<u16> = None;
        while (l as usize) < 30 && pos + (l as usize) < nbits && sym.is_none() {
            acc = (acc << 1) | bit_at(b, pos + l as usize);
            l += 1;
            sym = huffman_lookup(acc, l);
        }
        match sym {
            Some(256) => return Huff::RejectEos,
            Some(s) => {
                out[n] = s as u8;
                n += 1;
                pos += l as usize;
            }
            None => {
                // leftover bits are padding: fewer than 8, all ones
                let pad = nbits - pos;
                let mut i = pos;
                while i < nbits {
                    if bit_at(b, i) == 0 {
                        return Huff::RejectPaddingNotOnes;
                    }
                    i += 1;
                }
                if pad > 7 {
                    return Huff::RejectPaddingTooLong;
                }
                return Huff::Accept(out, n);
            }
        }
        guard += 1;
    }
    Huff::RejectPaddingNotOnes
}
