//! Reference models written from the RFC text, independent of h3's code.

/// RFC 9000 §16 variable-length integer: encode `x < 2^62` in the shortest form.
/// Returns (bytes, length).
pub fn varint_encode(x: u64) -> ([u8; 8], usize) {
    let mut out = [0u8; 8];
    if x < (1 << 6) {
        out[0] = x as u8;
        (out, 1)
    } else if x < (1 << 14) {
        out[0] = 0x40 | (x >> 8) as u8;
        out[1] = x as u8;
        (out, 2)
    } else if x < (1 << 30) {
        out[0] = 0x80 | (x >> 24) as u8;
        out[1] = (x >> 16) as u8;
        out[2] = (x >> 8) as u8;
        out[3] = x as u8;
        (out, 4)
    } else {
        out[0] = 0xc0 | (x >> 56) as u8;
        out[1] = (x >> 48) as u8;
        out[2] = (x >> 40) as u8;
        out[3] = (x >> 32) as u8;
        out[4] = (x >> 24) as u8;
        out[5] = (x >> 16) as u8;
        out[6] = (x >> 8) as u8;
        out[7] = x as u8;
        (out, 8)
    }
}

/// Length of the RFC 9000 varint form announced by a first byte.
pub fn varint_form_len(first: u8) -> usize {
    match first >> 6 {
        0 => 1,
        1 => 2,
        2 => 4,
        _ => 8,
    }
}

/// RFC 9000 §16 decode of the first varint in `b[..len]`: `Some((value, consumed))`, or `None` if truncated.
pub fn varint_decode(b: &[u8], len: usize) -> Option<(u64, usize)> {
    if len == 0 {
        return None;
    }
    let n = varint_form_len(b[0]);
    if len < n {
        return None;
    }
    let mut v = (b[0] & 0x3f) as u64;
    let mut i = 1;
    while i < n {
        v = (v << 8) | b[i] as u64;
        i += 1;
    }
    Some((v, n))
}
