//! Reference models written from the RFC text, independent of h3's code.

/// RFC 9000 §16 variable-length integer: encode `x < 2^62` in the shortest form.
/// Returns (bytes, length).
pub fn varint_encode(x: u64) -> ([u8; 8], usize) {
    let mut out = [0u8; 8];
    if x < (1 << 6) {
        out[0] = x as u8;
        (out, 1)
    } else if x < (1 << 14) {
        out[0] = 0x40 | (x >> 8) as u8;
        out[1] = x as u8;
        (out, 2)
    } else if x < (1 << 30) {
        out[0] = 0x80 | (x >> 24) as u8;
        out[1] = (x >> 16) as u8;
        out[2] = (x >> 8) as u8;
        out[3] = x as u8;
        (out, 4)
    } else {
        out[0] = 0xc0 | (x >> 56) as u8;
        out[1] = (x >> 48) as u8;
        out[2] = (x >> 40) as u8;
        out[3] = (x >> 32) as u8;
        out[4] = (x >> 24) as u8;
        out[5] = (x >> 16) as u8;
        out[6] = (x >> 8) as u8;
        out[7] = x as u8;
        (out, 8)
    }
}

/// Length of the RFC 9000 varint form announced by a first byte.
pub fn varint_form_len(first: u8) -> usize {
    match first >> 6 {
        0 => 1,
        1 => 2,
        2 => 4,
        _ => 8,
    }
}

/// RFC 9000 §16 decode of the first varint in `b[..len]`: `Some((value, consumed))`, or `None` if truncated.
pub fn varint_decode(b: &[u8], len: usize) -> Option<(u64, usize)> {
    if len == 0 {
        return None;
    }
    let n = varint_form_len(b[0]);
    if len < n {
        return None;
    }
    let mut v = (b[0] & 0x3f) as u64;
    let mut i = 1;
    while i < n {
        v = (v << 8) | b[i] as u64;
        i += 1;
    }
    Some((v, n))
}

// ------------------------------------------------------------------------------------------------
// RFC 7541 §5.1 / RFC 9204 §4.1.1 prefixed integers

/// Reference encoder: N-bit prefix integer; returns (bytes, len). `flags` are the bits above the prefix.
pub fn prefix_int_encode(size: u8, flags: u8, value: u64) -> ([u8; 11], usize) {
    let mut out = [0u8; 11];
    let maxp: u64 = if size >= 8 { 255 } else { (1u64 << size) - 1 };
    let fl: u8 = if size >= 8 { 0 } else { flags << size };
    if value < maxp {
        out[0] = fl | value as u8;
        return (out, 1);
    }
    out[0] = fl | maxp as u8;
    let mut rest = value - maxp;
    let mut n = 1;
    while rest >= 128 {
        out[n] = (rest % 128) as u8 | 0x80;
        rest /= 128;
        n += 1;
    }
    out[n] = rest as u8;
    (out, n + 1)
}

/// Result of the reference prefixed-integer decoder.
#[derive(Copy, Clone, PartialEq, Eq)]
pub enum PInt {
    /// exact mathematical value (128-bit), flags, bytes consumed, number of continuation bytes
    Value(u128, u8, usize, usize),
    /// input ended inside the integer
    Truncated,
    /// more than 10 continuation bytes with the continuation bit set (beyond any 64-bit value)
    TooLong,
}

/// Reference decoder over `b[..len]`, exact arithmetic in u128, at most 10 continuation bytes followed.
pub fn prefix_int_decode(size: u8, b: &[u8], len: usize) -> PInt {
    if len == 0 {
        return PInt::Truncated;
    }
    let maxp: u128 = if size >= 8 { 255 } else { (1u128 << size) - 1 };
    let flags: u8 = if size >= 8 { 0 } else { b[0] >> size };
    let p = (b[0] as u128) & maxp;
    if p < maxp {
        return PInt::Value(p, flags, 1, 0);
    }
    let mut v = maxp;
    let mut i = 1;
    while i <= 10 {
        if i >= len {
            return PInt::Truncated;
        }
        v += ((b[i] & 127) as u128) << (7 * (i - 1));
        if b[i] & 128 == 0 {
            return PInt::Value(v, flags, i + 1, i);
        }
        i += 1;
    }
    PInt::TooLong
}

// ------------------------------------------------------------------------------------------------
// RFC 7541 §5.2 Huffman decoding (independent bit-serial decoder over Appendix B)

pub use crate::huffman_table::HUFFMAN_CODES;

fn bit_at(b: &[u8], i: usize) -> u32 {
    ((b[i / 8] >> (7 - (i % 8))) & 1) as u32
}

use crate::huffman_table::huffman_lookup;

/// Verdict of the reference Huffman decoder.
#[derive(Copy, Clone, PartialEq, Eq)]
pub enum Huff {
    /// RFC 7541 §5.2 accepts: the decoded symbols and their count
    Accept([u8; 6], usize),
    /// the EOS symbol occurs inside the string
    RejectEos,
    /// the bits after the last complete code are all ones but there are more than 7 of them
    RejectPaddingTooLong,
    /// the bits after the last complete code are not all ones (incomplete code / wrong padding)
    RejectPaddingNotOnes,
}

/// Reference decode of `b[..len]` (len <= 4): complete codes, no EOS, then < 8 bits of all-ones padding.
pub fn huffman_decode(b: &[u8], len: usize) -> Huff {
    let nbits = len * 8;
    let mut out = [0u8; 6];
    let mut n = 0usize;
    let mut pos = 0usize;
    // at most 6 symbols fit in 32 bits (shortest code is 5 bits)
    let mut guard = 0;
    while guard < 7 {
        // try to complete one code starting at `pos`
        let mut acc: u32 = 0;
        let mut l: u8 = 0;
        let mut sym: Option<u16> = None;
        while (l as usize) < 30 && pos + (l as usize) < nbits && sym.is_none() {
            acc = (acc << 1) | bit_at(b, pos + l as usize);
            l += 1;
            sym = huffman_lookup(acc, l);
        }
        match sym {
            Some(256) => return Huff::RejectEos,
            Some(s) => {
                out[n] = s as u8;
                n += 1;
                pos += l as usize;
            }
            None => {
                // leftover bits are padding: fewer than 8, all ones
                let pad = nbits - pos;
                let mut i = pos;
                while i < nbits {
                    if bit_at(b, i) == 0 {
                        return Huff::RejectPaddingNotOnes;
                    }
                    i += 1;
                }
                if pad > 7 {
                    return Huff::RejectPaddingTooLong;
                }
                return Huff::Accept(out, n);
            }
        }
        guard += 1;
    }
    Huff::RejectPaddingNotOnes
}

// ------------------------------------------------------------------------------------------------
// RFC 9204 §4.5 field sections, stateless decoder (no dynamic table: capacity 0)

use crate::qpack_static::STATIC_TABLE;

pub const QMAX_FIELDS: usize = 3;
pub const QMAX_STR: usize = 4;

/// One decoded field: a static-table row index for the name (or literal name bytes) and literal value bytes
/// (or the static row's value).
#[derive(Copy, Clone)]
pub struct QField {
    pub name_static: Option<usize>,
    pub name: [u8; QMAX_STR],
    pub name_len: usize,
    pub value_static: bool,
    pub value: [u8; QMAX_STR],
    pub value_len: usize,
}

impl QField {
    pub const EMPTY: QField = QField {
        name_static: None,
        name: [0; QMAX_STR],
        name_len: 0,
        value_static: false,
        value: [0; QMAX_STR],
        value_len: 0,
    };
    pub fn name_size(&self) -> usize {
        match self.name_static {
            Some(i) => STATIC_TABLE[i].0.len(),
            None => self.name_len,
        }
    }
    pub fn value_size(&self) -> usize {
        if self.value_static {
            STATIC_TABLE[self.name_static.unwrap()].1.len()
        } else {
            self.value_len
        }
    }
}

#[derive(Copy, Clone, PartialEq, Eq)]
pub enum QVerdict {
    Accept,
    /// not a valid RFC 9204 encoding for a decoder without dynamic table (truncated, bad index,
    /// dynamic reference, non-zero Required Insert Count, bad Huffman, ...)
    Malformed,
    /// valid so far, but the RFC 9114 §4.2.2 size (sum of name + value + 32) exceeds the limit
    TooLong,
    /// outside the bounds of this reference (strings longer than QMAX_STR, more than QMAX_FIELDS lines)
    OutOfBounds,
}

fn q_int(b: &[u8], len: usize, pos: usize, size: u8) -> Option<(u8, u128, usize)> {
    // returns (flags, value, bytes consumed)
    if pos >= len {
        return None;
    }
    let mut w = [0u8; 12];
    let mut i = 0;
    while i < 12 {
        if pos + i < len {
            w[i] = b[pos + i];
        }
        i += 1;
    }
    let avail = if len - pos > 12 { 12 } else { len - pos };
    match prefix_int_decode(size, &w, avail) {
        PInt::Value(v, f, n, _) => Some((f, v, n)),
        _ => None,
    }
}

/// String literal with a (size)-bit prefix whose top bit is H. Returns (bytes, len, consumed) or Err(true) if out of
/// this reference's bounds / Err(false) if malformed.
fn q_string(b: &[u8], len: usize, pos: usize, size: u8) -> Result<([u8; QMAX_STR], usize, usize), bool> {
    let (flags, l, n) = match q_int(b, len, pos, size - 1) {
        Some(x) => x,
        None => return Err(false),
    };
    let huff = flags & 1 == 1;
    if l > (len - pos - n) as u128 {
        return Err(false); // string runs past the end of the section
    }
    let l = l as usize;
    let mut out = [0u8; QMAX_STR];
    if !huff {
        if l > QMAX_STR {
            return Err(true);
        }
        let mut i = 0;
        while i < QMAX_STR {
            if i < l {
                out[i] = b[pos + n + i];
            }
            i += 1;
        }
        Ok((out, l, n + l))
    } else {
        // Huffman-coded strings are outside this general reference (dedicated harnesses compare them with
        // `huffman_decode`); the caller skips the comparison.
        Err(true)
    }
}

/// Reference stateless decode of the field section `b[..len]` under the size limit `limit`.
pub fn qpack_decode(b: &[u8], len: usize, limit: u64) -> (QVerdict, [QField; QMAX_FIELDS], usize, u64) {
    let mut fields = [QField::EMPTY; QMAX_FIELDS];
    let mut nf = 0usize;
    let mut size: u64 = 0;
    // §4.5.1 prefix: Required Insert Count (8-bit prefix), S + Delta Base (7-bit prefix)
    let (_, ric, n1) = match q_int(b, len, 0, 8) {
        Some(x) => x,
        None => return (QVerdict::Malformed, fields, 0, 0),
    };
    let (_, _db, n2) = match q_int(b, len, n1, 7) {
        Some(x) => x,
        None => return (QVerdict::Malformed, fields, 0, 0),
    };
    if ric != 0 {
        // MaxEntries = 0: no conformant encoder produces a non-zero Encoded Required Insert Count (§4.5.1.1)
        return (QVerdict::Malformed, fields, 0, 0);
    }
    let mut pos = n1 + n2;
    let mut k = 0;
    while k <= QMAX_FIELDS {
        if pos >= len {
            return (QVerdict::Accept, fields, nf, size);
        }
        if k == QMAX_FIELDS {
            return (QVerdict::OutOfBounds, fields, nf, size);
        }
        let first = b[pos];
        let mut f = QField::EMPTY;
        if first & 0x80 != 0 {
            // §4.5.2 indexed field line: 1 T index(6+)
            let (flags, idx, n) = match q_int(b, len, pos, 6) {
                Some(x) => x,
                None => return (QVerdict::Malformed, fields, nf, size),
            };
            if flags & 1 == 0 || idx >= 99 {
                return (QVerdict::Malformed, fields, nf, size); // dynamic table / unknown static index
            }
            f.name_static = Some(idx as usize);
            f.value_static = true;
            pos += n;
        } else if first & 0xc0 == 0x40 {
            // §4.5.4 literal with name reference: 0 1 N T index(4+), value string (8-bit prefix incl. H)
            let (flags, idx, n) = match q_int(b, len, pos, 4) {
                Some(x) => x,
                None => return (QVerdict::Malformed, fields, nf, size),
            };
            if flags & 1 == 0 || idx >= 99 {
                return (QVerdict::Malformed, fields, nf, size);
            }
            let (v, vl, m) = match q_string(b, len, pos + n, 8) {
                Ok(x) => x,
                Err(true) => return (QVerdict::OutOfBounds, fields, nf, size),
                Err(false) => return (QVerdict::Malformed, fields, nf, size),
            };
            f.name_static = Some(idx as usize);
            f.value = v;
            f.value_len = vl;
            pos += n + m;
        } else if first & 0xe0 == 0x20 {
            // §4.5.6 literal with literal name: 0 0 1 N H namelen(3+) name, value string
            let (nm, nl, n) = match q_string(b, len, pos, 4) {
                Ok(x) => x,
                Err(true) => return (QVerdict::OutOfBounds, fields, nf, size),
                Err(false) => return (QVerdict::Malformed, fields, nf, size),
            };
            let (v, vl, m) = match q_string(b, len, pos + n, 8) {
                Ok(x) => x,
                Err(true) => return (QVerdict::OutOfBounds, fields, nf, size),
                Err(false) => return (QVerdict::Malformed, fields, nf, size),
            };
            f.name = nm;
            f.name_len = nl;
            f.value = v;
            f.value_len = vl;
            pos += n + m;
        } else {
            // §4.5.3 post-base indexed (0001) and §4.5.5 post-base name reference (0000): dynamic table only
            return (QVerdict::Malformed, fields, nf, size);
        }
        size += (f.name_size() + f.value_size() + 32) as u64;
        if size > limit {
            return (QVerdict::TooLong, fields, nf, size);
        }
        fields[nf] = f;
        nf += 1;
        k += 1;
    }
    (QVerdict::OutOfBounds, fields, nf, size)
}
