use crate::kbuf::KBuf;
use h3::proto::frame::{Frame, FrameError, PayloadLen};
use h3::proto::varint::VarInt;

// A: concrete 2-byte type, everything else symbolic, len concrete
#[kani::proof]
#[kani::unwind(18)]
fn scratch_a() {
    let mut bytes: [u8; 17] = kani::any();
    bytes[0] = 0x40;
    bytes[1] = 0x41;
    let mut r = KBuf::new(&bytes[..17]);
    let got = Frame::<PayloadLen>::decode(&mut r);
    std::mem::forget(got);
}

// B: as A but symbolic len
#[kani::proof]
#[kani::unwind(18)]
fn scratch_b() {
    let mut bytes: [u8; 17] = kani::any();
    bytes[0] = 0x40;
    bytes[1] = 0x41;
    let len: usize = kani::any();
    kani::assume(len <= 17 && len >= 2);
    let mut r = KBuf::new(&bytes[..len]);
    let got = Frame::<PayloadLen>::decode(&mut r);
    std::mem::forget(got);
}

// C: varint decode only then branch
#[kani::proof]
#[kani::unwind(18)]
fn scratch_c() {
    let mut bytes: [u8; 17] = kani::any();
    bytes[0] = 0x40;
    bytes[1] = 0x41;
    let mut r = KBuf::new(&bytes[..17]);
    let v = VarInt::decode(&mut r).unwrap().into_inner();
    if v != 0x41 {
        // expensive thing CBMC would only explore if v is not constant
        let n: usize = kani::any();
        kani::assume(n < 1000);
        let mut vv = Vec::new();
        let mut i = 0;
        while i < n { vv.push(i); i += 1; }
        assert!(vv.len() == n);
    }
}

pub struct KBuf2<'a> {
    pub data: &'a [u8; 17],
    pub len: usize,
    pub pos: usize,
}
impl bytes::Buf for KBuf2<'_> {
    fn remaining(&self) -> usize { self.len - self.pos }
    fn chunk(&self) -> &[u8] { &self.data[self.pos..self.len] }
    fn advance(&mut self, cnt: usize) { assert!(cnt <= self.len - self.pos); self.pos += cnt; }
    fn copy_to_slice(&mut self, dst: &mut [u8]) {
        assert!(dst.len() <= self.len - self.pos);
        let mut i = 0;
        while i < dst.len() { dst[i] = self.data[self.pos + i]; i += 1; }
        self.pos += dst.len();
    }
    fn get_u8(&mut self) -> u8 {
        assert!(self.pos < self.len);
        let b = self.data[self.pos];
        self.pos += 1;
        b
    }
}

#[kani::proof]
#[kani::unwind(18)]
fn scratch_d() {
    let mut bytes: [u8; 17] = kani::any();
    bytes[0] = 0x40;
    bytes[1] = 0x41;
    let len: usize = kani::any();
    kani::assume(len <= 17 && len >= 2);
    let mut r = KBuf2 { data: &bytes, len, pos: 0 };
    let got = Frame::<PayloadLen>::decode(&mut r);
    std::mem::forget(got);
}

// E: like C but with symbolic len through KBuf
#[kani::proof]
#[kani::unwind(18)]
fn scratch_e() {
    let mut bytes: [u8; 17] = kani::any();
    bytes[0] = 0x40;
    bytes[1] = 0x41;
    let len: usize = kani::any();
    kani::assume(len <= 17 && len >= 2);
    let mut r = KBuf::new(&bytes[..len]);
    let v = VarInt::decode(&mut r).unwrap().into_inner();
    if v != 0x41 {
        let n: usize = kani::any();
        kani::assume(n < 1000);
        let mut vv = Vec::new();
        let mut i = 0;
        while i < n { vv.push(i); i += 1; }
        assert!(vv.len() == n);
    }
}

#[kani::proof]
#[kani::unwind(18)]
fn scratch_f() {
    let mut bytes: [u8; 17] = kani::any();
    bytes[0] = 0x40;
    bytes[1] = 0x41;
    let mut r: &[u8] = &bytes[..17];
    let got = Frame::<PayloadLen>::decode(&mut r);
    std::mem::forget(got);
}

// concrete loop over truncation lengths
#[kani::proof]
#[kani::unwind(18)]
fn scratch_g() {
    let mut bytes: [u8; 17] = kani::any();
    bytes[0] = 0x40;
    bytes[1] = 0x41;
    let mut len = 2;
    while len <= 11 {
        let mut r = KBuf::new(&bytes[..len]);
        let got = Frame::<PayloadLen>::decode(&mut r);
        std::mem::forget(got);
        len += 1;
    }
}

fn cut(bytes: &[u8; 17], len: usize) {
    let mut r = KBuf::new(&bytes[..len]);
    let got = Frame::<PayloadLen>::decode(&mut r);
    std::mem::forget(got);
}
// h: via function with reference
#[kani::proof]
#[kani::unwind(18)]
fn scratch_h() {
    let mut bytes: [u8; 17] = kani::any();
    bytes[0] = 0x40;
    bytes[1] = 0x41;
    let mut len = 2;
    while len <= 11 {
        cut(&bytes, len);
        len += 1;
    }
}
fn cut2(bytes: &[u8; 17], len: usize) {
    let mut r = KBuf::new(&bytes[..len]);
    let got = Frame::<PayloadLen>::decode(&mut r);
    match got {
        Ok(Frame::WebTransportStream(sid)) => {
            assert!(r.consumed() >= 3);
        }
        Ok(f) => { std::mem::forget(f); assert!(false, "wrong kind"); }
        Err(FrameError::Incomplete(_)) => {}
        Err(e) => { std::mem::forget(e); assert!(false, "wrong err"); }
    }
}
// i: with match
#[kani::proof]
#[kani::unwind(18)]
fn scratch_i() {
    let mut bytes: [u8; 17] = kani::any();
    bytes[0] = 0x40;
    bytes[1] = 0x41;
    let mut len = 2;
    while len <= 11 {
        cut2(&bytes, len);
        len += 1;
    }
}
fn cut3(bytes: &[u8; 17], len: usize) {
    let mut r = KBuf::new(&bytes[..len]);
    let got = Frame::<PayloadLen>::decode(&mut r);
    match &got {
        Ok(Frame::WebTransportStream(sid)) => {
            assert!(r.consumed() >= 3);
        }
        Ok(f) => { assert!(false, "wrong kind"); }
        Err(FrameError::Incomplete(_)) => {}
        Err(e) => { assert!(false, "wrong err"); }
    }
    std::mem::forget(got);
}
#[kani::proof]
#[kani::unwind(18)]
fn scratch_j() {
    let mut bytes: [u8; 17] = kani::any();
    bytes[0] = 0x40;
    bytes[1] = 0x41;
    let mut len = 2;
    while len <= 11 {
        cut3(&bytes, len);
        len += 1;
    }
}
