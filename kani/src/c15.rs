//! C15 — QPACK prefixed integers (RFC 9204 §4.1.1) and Huffman string literals (RFC 7541 §5.2).

use bytes::Buf;
use h3::qpack::verif_hooks::{
    prefix_int_decode, prefix_int_encode, prefix_string_decode, verif_code, HpackStringDecode,
    PrefixIntError, PrefixStringError,
};

use crate::kbuf::KBuf;
use crate::refmodel::{self, Huff, PInt, HUFFMAN_CODES};

const MAX62: u64 = (1 << 62) - 1;

/// @check C15 quick cost=30
/// Every value < 2^62 round-trips for every prefix size 1..=8 and all flag bits, the bytes written are the
/// RFC 7541 §5.1 encoding, and decoding consumes exactly what was written.
#[kani::proof]
#[kani::unwind(12)]
fn c15_prefix_int_roundtrip() {
    let size: u8 = kani::any();
    kani::assume(size >= 1 && size <= 8);
    let flags: u8 = kani::any();
    kani::assume(size == 8 && flags == 0 || size < 8 && (flags as u16) < (1u16 << (8 - size)));
    let v: u64 = kani::any();
    kani::assume(v <= MAX62);
    let mut out = [0u8; 11];
    let written = {
        let mut w: &mut [u8] = &mut out[..];
        prefix_int_encode(size, flags, v, &mut w);
        11 - w.len()
    };
    let (want, n) = refmodel::prefix_int_encode(size, flags, v);
    assert!(written == n, "c15.int.encode.length");
    let mut i = 0;
    while i < 11 {
        if i < n {
            assert!(out[i] == want[i], "c15.int.encode.bytes_match_rfc");
        }
        i += 1;
    }
    let mut r: &[u8] = &out[..written];
    let back = prefix_int_decode(size, &mut r);
    assert!(back == Ok((flags, v)), "c15.int.roundtrip.value_and_flags");
    assert!(r.is_empty(), "c15.int.roundtrip.consumed_exactly");
    kani::cover!(size == 1 && v == MAX62, "one_bit_prefix_max_value");
    kani::cover!(size == 8 && v == 254, "fits_prefix");
    kani::cover!(size == 8 && v == 255, "first_continuation");
    kani::cover!(size == 5 && flags == 7 && v == 1337, "rfc_example");
    kani::cover!(n == 10, "ten_bytes");
}

/// @check C15 quick cost=30
/// For EVERY u64 (also beyond the RFC's 62-bit range): decode(encode(v)) is Ok(v) or Err(Overflow) — never a
/// different value, never UnexpectedEnd.
#[kani::proof]
#[kani::unwind(12)]
fn c15_prefix_int_never_wraps_on_own_output() {
    let size: u8 = kani::any();
    kani::assume(size >= 1 && size <= 8);
    let v: u64 = kani::any();
    let mut out = [0u8; 12];
    let written = {
        let mut w: &mut [u8] = &mut out[..];
        prefix_int_encode(size, 0, v, &mut w);
        12 - w.len()
    };
    let mut r: &[u8] = &out[..written];
    match prefix_int_decode(size, &mut r) {
        Ok((f, got)) => {
            assert!(got == v, "c15.int.roundtrip.never_a_different_value");
            assert!(f == 0, "c15.int.roundtrip.flags");
            kani::cover!(v > MAX62, "above_62_bits_ok");
        }
        Err(e) => {
            assert!(e == PrefixIntError::Overflow, "c15.int.roundtrip.only_overflow_refused");
            assert!(v > MAX62, "c15.int.roundtrip.rfc_range_never_refused");
            kani::cover!(true, "overflow_refused");
        }
    }
}

/// @check C15,C06 quick cost=60
/// Decoding ANY byte string of length 0..=12 with any prefix size: an Ok value is the exact mathematical
/// value of the encoding (128-bit reference) with exact consumption; truncated input is UnexpectedEnd or
/// (past the limit) Overflow, never a value; values below 2^62 in at most 10 bytes are always accepted;
/// no arithmetic overflow or panic.
#[kani::proof]
#[kani::unwind(13)]
fn c15_prefix_int_decode_any_bytes() {
    let size: u8 = kani::any();
    kani::assume(size >= 1 && size <= 8);
    let bytes: [u8; 12] = kani::any();
    let len: usize = kani::any();
    kani::assume(len <= 12);
    let mut r: &[u8] = &bytes[..len];
    let got = prefix_int_decode(size, &mut r);
    let consumed = len - r.len();
    match refmodel::prefix_int_decode(size, &bytes, len) {
        PInt::Value(v, flags, n, conts) => match got {
            Ok((f, g)) => {
                assert!(g as u128 == v, "c15.int.decode.value_is_exact");
                assert!(f == flags, "c15.int.decode.flags");
                assert!(consumed == n, "c15.int.decode.consumed_exact");
                kani::cover!(conts == 9, "nine_continuation_bytes");
                kani::cover!(conts == 0, "prefix_only");
            }
            Err(e) => {
                assert!(e == PrefixIntError::Overflow, "c15.int.decode.complete_encoding_only_refused_as_overflow");
                assert!(v > MAX62 as u128 || conts > 9, "c15.int.decode.rfc_range_accepted");
                kani::cover!(v > u64::MAX as u128, "beyond_u64_refused");
            }
        },
        PInt::Truncated => {
            assert!(got.is_err(), "c15.int.decode.truncated_never_a_value");
            kani::cover!(len == 0, "empty_input");
            kani::cover!(len == 5, "truncated_after_4_continuations");
        }
        PInt::TooLong => {
            assert!(got == Err(PrefixIntError::Overflow), "c15.int.decode.overlong_is_overflow");
            kani::cover!(true, "overlong");
        }
    }
}

/// @check C15 quick cost=20
/// h3's Huffman ENCODE table equals RFC 7541 Appendix B for every symbol (bit length and left-aligned bits).
#[kani::proof]
#[kani::unwind(258)]
fn c15_huffman_encode_table_is_rfc() {
    let mut s = 0usize;
    while s < 256 {
        let (buf, bits) = verif_code(s as u8);
        let (code, len) = HUFFMAN_CODES[s];
        assert!(bits == len as u32, "c15.huffman.table.bit_length");
        // h3 stores the code split in bytes: full leading bytes, then the last `bits % 8` bits right-aligned
        let nbytes = ((len as usize) + 7) / 8;
        assert!(buf.len() == nbytes, "c15.huffman.table.byte_count");
        let mut acc: u32 = 0;
        let mut rest = len as u32;
        let mut i = 0;
        while i < 4 {
            if i < nbytes {
                let take = if rest < 8 { rest } else { 8 };
                assert!(take == 8 || (buf[i] as u32) < (1 << take), "c15.huffman.table.last_byte_right_aligned");
                acc = (acc << take) | buf[i] as u32;
                rest -= take;
            }
            i += 1;
        }
        assert!(acc == code, "c15.huffman.table.code_bits");
        s += 1;
    }
}

fn huffman_case(input: Vec<u8>, raw: &[u8; 4], len: usize, max_syms: usize) {
    let want = refmodel::huffman_decode(raw, len);
    let mut it = input.hpack_decode();
    let mut out = [0u8; 6];
    let mut n = 0usize;
    let mut err = false;
    let mut k = 0;
    while k <= max_syms {
        match it.next() {
            Some(Ok(b)) => {
                out[n] = b;
                n += 1;
            }
            Some(Err(e)) => {
                std::mem::forget(e);
                err = true;
                break;
            }
            None => break,
        }
        k += 1;
    }
    match want {
        Huff::Accept(syms, cnt) => {
            assert!(!err, "c15.huffman.decode.valid_string_rejected");
            assert!(n == cnt, "c15.huffman.decode.symbol_count");
            let mut i = 0;
            while i < 6 {
                if i < cnt {
                    assert!(out[i] == syms[i], "c15.huffman.decode.symbols_equal_reference");
                }
                i += 1;
            }
            kani::cover!(cnt == max_syms, "max_symbols");
        }
        Huff::RejectEos => assert!(err, "c15.huffman.decode.eos_accepted"),
        Huff::RejectPaddingTooLong => {
            assert!(err, "c15.huffman.decode.overlong_ones_padding_accepted");
            kani::cover!(true, "overlong_padding");
        }
        Huff::RejectPaddingNotOnes => {
            assert!(err, "c15.huffman.decode.non_eos_padding_accepted");
            kani::cover!(true, "bad_padding");
        }
    }
    std::mem::forget(input);
}

/// @check C15,C06 quick cost=300 timeout=1500
/// Huffman decoding of every 0- and 1-byte string agrees with the independent RFC 7541 decoder
/// (accept/reject and symbols).
#[kani::proof]
#[kani::unwind(10)]
fn c15_huffman_decode_len0_1() {
    huffman_case(Vec::new(), &[0; 4], 0, 0);
    let b0: u8 = kani::any();
    huffman_case(vec![b0], &[b0, 0, 0, 0], 1, 1);
}

/// @check C15,C11,C06 quick cost=300 timeout=1500
/// Two-byte strings whose first byte is 'a' (5-bit code) followed by three one bits, every second byte: whatever follows
/// the last symbol across the byte boundary is checked against the RFC 7541 rule (a longer code that completes, ones
/// padding, padding that is not all ones).
#[kani::proof]
#[kani::unwind(18)]
fn c15_huffman_decode_second_byte_after_5bit_symbol() {
    let b1: u8 = kani::any();
    huffman_case(vec![0x1f, b1], &[0x1f, b1, 0, 0], 2, 3);
}

/// @check C15,C11,C06 quick cost=300 timeout=1500
/// Same with a first byte made of a 6-bit code ('b' = 100011) and two one bits.
#[kani::proof]
#[kani::unwind(18)]
fn c15_huffman_decode_second_byte_after_6bit_symbol() {
    let b1: u8 = kani::any();
    huffman_case(vec![0x8f, b1], &[0x8f, b1, 0, 0], 2, 3);
}

/// @check C15,C11,C06 thorough cost=900 timeout=3600
/// Huffman decoding of every 2-byte string agrees with the independent RFC 7541 decoder.
#[kani::proof]
#[kani::unwind(18)]
fn c15_huffman_decode_len2() {
    let b0: u8 = kani::any();
    let b1: u8 = kani::any();
    huffman_case(vec![b0, b1], &[b0, b1, 0, 0], 2, 3);
}
