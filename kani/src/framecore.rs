//! Shared core of the frame-decoder harnesses (C02, C06, C13): a reference RFC 9114 §7.1 segmenter
//! and fixed-field grammar, and the comparison of `Frame::decode` against it at every cut position.
//!
//! Shapes (type value and form, length form, declared length L) are CONCRETE per call; payload and
//! trailing bytes are symbolic; cut positions are enumerated by a concrete loop. Instantiation: `KBuf`.

use h3::proto::frame::{Frame, FrameError, PayloadLen};
use h3::proto::stream::StreamId;

use crate::kbuf::KBuf;
use crate::refmodel::varint_decode;

#[derive(Copy, Clone, PartialEq, Eq)]
pub enum Class {
    Data,
    Headers,
    CancelPush,
    Settings,
    PushPromise,
    Goaway,
    MaxPushId,
    /// HTTP/2 frame types 0x2, 0x6, 0x8, 0x9 (RFC 9114 §7.2.8)
    H2Reserved,
    /// any other type: MUST be ignored
    Unknown,
}

/// Write `v` at `pos` in the varint form with 2^form bytes (form 0..=3); returns the length.
pub fn put_varint_form(buf: &mut [u8; 40], pos: usize, v: u64, form: u8) -> usize {
    let n: usize = 1 << form;
    let mut i = 0;
    while i < 8 {
        if i < n {
            let shift = 8 * (n - 1 - i);
            let mut b = ((v >> shift) & 0xff) as u8;
            if i == 0 {
                b |= form << 6;
            }
            buf[pos + i] = b;
        }
        i += 1;
    }
    n
}

pub const MAX_L: usize = 8;
pub const TRAIL: usize = 2;

/// Compare `Frame::decode` with the reference on the frame `ty(form tyform) len(form lform)=l payload`
/// followed by TRAIL trailing bytes, at every cut of the buffer from 0 to frame + TRAIL bytes.
pub const B_HDR_TRUNC: u32 = 1 << 0;
pub const B_DATA_OK: u32 = 1 << 1;
pub const B_PAYLOAD_WAIT: u32 = 1 << 2;
pub const B_HEADERS_OK: u32 = 1 << 3;
pub const B_FIXED_OK: u32 = 1 << 4;
pub const B_FIXED_EXTRA: u32 = 1 << 5;
pub const B_FIXED_SHORT: u32 = 1 << 6;
pub const B_PP_OK: u32 = 1 << 7;
pub const B_PP_SHORT: u32 = 1 << 8;
pub const B_SETTINGS_OK: u32 = 1 << 9;
pub const B_SETTINGS_ERR: u32 = 1 << 10;
pub const B_H2: u32 = 1 << 11;
pub const B_UNKNOWN: u32 = 1 << 12;

/// Returns the set of oracle branches reached (for the caller's reachability witnesses).
pub fn frame_shape(class: Class, ty: u64, tyform: u8, lform: u8, l: usize) -> u32 {
    frame_shape_with(class, ty, tyform, lform, l, &[])
}

/// As `frame_shape`, with the first `fixed.len()` payload bytes concrete (used where a symbolic varint form
/// inside the payload would size a heap object: PUSH_PROMISE's field section, SETTINGS entries).
pub fn frame_shape_with(class: Class, ty: u64, tyform: u8, lform: u8, l: usize, fixed: &[u8]) -> u32 {
    let mut buf = [0u8; 40];
    let tn = put_varint_form(&mut buf, 0, ty, tyform);
    let ln = put_varint_form(&mut buf, tn, l as u64, lform);
    let hdr = tn + ln;
    let mut body: [u8; MAX_L + TRAIL] = kani::any();
    let mut f = 0;
    while f < MAX_L {
        if f < fixed.len() && f < l {
            body[f] = fixed[f];
        }
        f += 1;
    }
    let mut i = 0;
    while i < MAX_L + TRAIL {
        if i < l + TRAIL {
            buf[hdr + i] = body[i];
        }
        i += 1;
    }
    // Cuts start where the type varint is complete. A buffer that ends inside the type varint (including the
    // empty buffer) is not explored here: `FrameType::decode(..).map_err(..)?` then continues, for CBMC, on an
    // infeasible path with a nondeterministic type (niche-encoded Result discriminants are not constant-
    // propagated) and the run does not finish. That case is one line of code (truncated varint -> Incomplete);
    // the truncation verdict of the varint decoder itself is proved for all inputs under C16.
    let mut cut = tn;
    let mut reached = 0u32;
    while cut <= hdr + l + TRAIL {
        reached |= one_cut(&buf, cut, hdr, l, class, ty, &body);
        cut += 1;
    }
    reached
}

fn is_frame_error(e: &FrameError) -> bool {
    // the two variants `InternalConnectionError::got_frame_error` maps to H3_FRAME_ERROR
    matches!(e, FrameError::Malformed | FrameError::InvalidFrameValue)
}

pub fn one_cut(buf: &[u8; 40], cut: usize, hdr: usize, l: usize, class: Class, ty: u64, body: &[u8; MAX_L + TRAIL]) -> u32 {
    let mut reached = 0u32;
    let mut r = KBuf::new(&buf[..cut]);
    let got = Frame::<PayloadLen>::decode(&mut r);
    let consumed = r.consumed();
    // `got` is inspected by reference only and forgotten at the end (its drop glue is not the subject)
    if cut < hdr {
        // not even the frame header is there: the caller must wait for more bytes
        assert!(matches!(&got, Err(FrameError::Incomplete(_))), "c02.header.truncated_header_is_incomplete");
        assert!(matches!(&got, Err(FrameError::Incomplete(n)) if *n <= hdr + l && *n >= 1), "c02.header.incomplete_hint_within_frame");
        reached |= B_HDR_TRUNC;
    } else if class == Class::Data {
        // DATA: only the header is consumed, the payload is streamed by the caller
        match &got {
            Ok(Frame::Data(PayloadLen(n))) => {
                assert!(*n == l, "c02.data.payload_len_is_declared_length");
                assert!(consumed == hdr, "c02.data.consumes_header_only");
                reached |= B_DATA_OK;
            }
            _ => assert!(false, "c02.data.header_not_recognised"),
        }
    } else if cut < hdr + l {
        // payload not complete yet: wait
        assert!(matches!(&got, Err(FrameError::Incomplete(_))), "c02.payload.incomplete_payload_is_incomplete");
        // lemma used by the mirsym spec of FrameDecoder::decode: the size hint never exceeds the frame's total size
        assert!(matches!(&got, Err(FrameError::Incomplete(n)) if *n <= hdr + l), "c02.payload.incomplete_hint_within_frame");
        reached |= B_PAYLOAD_WAIT;
    } else {
        match class {
            Class::Headers => match &got {
                Ok(Frame::Headers(b)) => {
                    assert!(consumed == hdr + l, "c02.headers.consumes_header_and_payload");
                    assert!(b.len() == l, "c02.headers.block_length");
                    reached |= B_HEADERS_OK;
                    let mut i = 0;
                    while i < MAX_L {
                        if i < l {
                            assert!(b[i] == body[i], "c02.headers.block_bytes");
                        }
                        i += 1;
                    }
                }
                _ => assert!(false, "c02.headers.not_recognised"),
            },
            Class::Goaway | Class::CancelPush | Class::MaxPushId => match varint_decode(body, l) {
                Some((v, n)) if n == l => {
                    let ok = match (&got, class) {
                        (Ok(Frame::Goaway(id)), Class::Goaway) => id.into_inner() == v,
                        (Ok(Frame::CancelPush(id)), Class::CancelPush) => {
                            h3::proto::varint::VarInt::from(*id).into_inner() == v
                        }
                        (Ok(Frame::MaxPushId(id)), Class::MaxPushId) => {
                            h3::proto::varint::VarInt::from(*id).into_inner() == v
                        }
                        _ => false,
                    };
                    assert!(ok, "c02.fixed.well_formed_frame_value");
                    assert!(consumed == hdr + l, "c02.fixed.consumes_header_and_payload");
                    reached |= B_FIXED_OK;
                }
                Some(_) => {
                    // payload longer than its single varint field
                    assert!(!got.is_ok(), "c02.fixed.payload_longer_than_fields.accepted");
                    assert!(matches!(&got, Err(e) if is_frame_error(e)), "c02.fixed.payload_longer_than_fields.not_frame_error");
                    reached |= B_FIXED_EXTRA;
                }
                None => {
                    // payload ends inside (or before) its varint field
                    assert!(!got.is_ok(), "c02.fixed.payload_shorter_than_fields.accepted");
                    assert!(!matches!(&got, Err(FrameError::Incomplete(_))), "c02.fixed.payload_shorter_than_fields.waited_on");
                    assert!(matches!(&got, Err(e) if is_frame_error(e)), "c02.fixed.payload_shorter_than_fields.not_frame_error");
                    reached |= B_FIXED_SHORT;
                }
            },
            Class::PushPromise => match varint_decode(body, l) {
                Some((_v, _n)) => {
                    assert!(matches!(&got, Ok(Frame::PushPromise(_))), "c02.push_promise.well_formed");
                    assert!(consumed == hdr + l, "c02.push_promise.consumes_header_and_payload");
                    reached |= B_PP_OK;
                }
                None => {
                    assert!(!got.is_ok(), "c02.push_promise.payload_shorter_than_fields.accepted");
                    assert!(!matches!(&got, Err(FrameError::Incomplete(_))), "c02.push_promise.payload_shorter_than_fields.waited_on");
                    assert!(matches!(&got, Err(e) if is_frame_error(e)), "c02.push_promise.payload_shorter_than_fields.not_frame_error");
                    reached |= B_PP_SHORT;
                }
            },
            Class::Settings => {
                // the SETTINGS grammar proper is C13's; here: segmentation only
                match &got {
                    Ok(Frame::Settings(_)) => {
                        assert!(consumed == hdr + l, "c02.settings.consumes_header_and_payload");
                        reached |= B_SETTINGS_OK;
                    }
                    Ok(_) => assert!(false, "c02.settings.wrong_frame_kind"),
                    Err(FrameError::Settings(_)) => {
                        reached |= B_SETTINGS_ERR;
                    }
                    Err(_) => assert!(false, "c02.settings.unexpected_error_kind"),
                }
                assert!(!matches!(&got, Err(FrameError::Incomplete(_))), "c02.settings.complete_payload_waited_on");
            }
            Class::H2Reserved => {
                assert!(matches!(&got, Err(FrameError::UnsupportedFrame(t)) if *t == ty), "c02.h2_reserved.is_unsupported_frame");
                reached |= B_H2;
            }
            Class::Unknown => {
                assert!(matches!(&got, Err(FrameError::UnknownFrame(t)) if *t == ty), "c02.unknown.reported_as_unknown");
                assert!(consumed == hdr + l, "c02.unknown.skipped_in_full");
                reached |= B_UNKNOWN;
            }
            Class::Data => unreachable!(),
        }
    }
    std::mem::forget(got);
    reached
}
