//! C16 — QUIC variable-length integers and stream-id arithmetic (RFC 9000 §16, §2.1).
//!
//! Full 62/64-bit domains, no value bounds. Buffers are the codec's own maximum (8/9 bytes).
//! Instantiations: `B = &[u8]` (Buf), `W = &mut [u8]` (BufMut).

use std::convert::TryFrom;

use h3::proto::coding::{BufExt as _, BufMutExt as _};
use h3::proto::push::PushId;
use h3::proto::stream::StreamId;
use h3::proto::varint::VarInt;
use h3::webtransport::SessionId;

use crate::refmodel::{varint_decode, varint_encode, varint_form_len};

const MAX: u64 = (1 << 62) - 1;

/// @check C16 quick
/// For every x < 2^62: bytes written == shortest RFC form, size() == that length,
/// decoding those bytes returns x and consumes exactly that length.
#[kani::proof]
#[kani::unwind(10)]
fn c16_varint_roundtrip_shortest() {
    let x: u64 = kani::any();
    kani::assume(x <= MAX);
    let v = VarInt::from_u64(x).unwrap();
    let (want, n) = varint_encode(x);

    let mut out = [0u8; 8];
    let written = {
        let mut w: &mut [u8] = &mut out[..];
        v.encode(&mut w);
        8 - w.len()
    };
    assert!(written == n, "c16.encode.length_is_shortest_form");
    assert!(v.size() == n, "c16.size.matches_written");
    let mut i = 0;
    while i < 8 {
        if i < n {
            assert!(out[i] == want[i], "c16.encode.bytes_match_rfc");
        }
        i += 1;
    }
    assert!(VarInt::encoded_size(out[0]) == n, "c16.encoded_size.matches");

    let mut r: &[u8] = &out[..n];
    let back = VarInt::decode(&mut r);
    assert!(back == Ok(v), "c16.roundtrip.value");
    assert!(r.is_empty(), "c16.roundtrip.consumed_exactly");

    // the convenience wrappers used by the frame codecs
    let mut out2 = [0u8; 8];
    let written2 = {
        let mut w: &mut [u8] = &mut out2[..];
        w.write_var(x);
        8 - w.len()
    };
    assert!(written2 == n, "c16.write_var.length");
    let mut r2: &[u8] = &out2[..written2];
    assert!(r2.get_var() == Ok(x), "c16.get_var.value");

    kani::cover!(n == 1, "form1");
    kani::cover!(n == 2, "form2");
    kani::cover!(n == 4, "form4");
    kani::cover!(n == 8, "form8");
    kani::cover!(x == MAX, "max");
}

/// @check C16,C06 quick
/// For every byte string of length 0..9: decode returns the RFC 9000 value of the first
/// form (minimal or not) consuming exactly its length; a truncated form is UnexpectedEnd and
/// never a value; nothing panics.
#[kani::proof]
#[kani::unwind(10)]
fn c16_varint_decode_any_bytes() {
    let bytes: [u8; 9] = kani::any();
    let len: usize = kani::any();
    kani::assume(len <= 9);
    let mut r: &[u8] = &bytes[..len];
    let got = VarInt::decode(&mut r);
    match varint_decode(&bytes, len) {
        Some((v, n)) => {
            assert!(got.is_ok(), "c16.decode.complete_form_accepted");
            assert!(got.unwrap().into_inner() == v, "c16.decode.value_is_rfc_value");
            assert!(len - r.len() == n, "c16.decode.consumed_is_form_length");
            assert!(v <= MAX, "c16.decode.value_below_2_62");
            kani::cover!(n == 8 && v < 64, "nonminimal8");
            kani::cover!(n == 2, "form2");
            kani::cover!(n == 4, "form4");
        }
        None => {
            assert!(got.is_err(), "c16.decode.truncated_reported");
            kani::cover!(len == 0, "empty");
            kani::cover!(len == 7, "trunc8");
            kani::cover!(len == 1, "trunc_after_first");
        }
    }
}

/// @check C16 quick
/// Checked constructors accept exactly the values below 2^62.
#[kani::proof]
fn c16_checked_constructors() {
    let x: u64 = kani::any();
    let ok = x <= MAX;
    assert!(VarInt::from_u64(x).is_ok() == ok, "c16.from_u64.iff_below_2_62");
    assert!(VarInt::try_from(x).is_ok() == ok, "c16.try_from_u64.iff_below_2_62");
    assert!(VarInt::try_from(x as usize).is_ok() == ok, "c16.try_from_usize.iff_below_2_62");
    assert!(StreamId::try_from(x).is_ok() == ok, "c16.streamid.try_from.iff_below_2_62");
    assert!(PushId::try_from(x).is_ok() == ok, "c16.pushid.try_from.iff_below_2_62");
    assert!(SessionId::try_from(x).is_ok() == ok, "c16.sessionid.try_from.iff_below_2_62");
    if ok {
        assert!(VarInt::from_u64(x).unwrap().into_inner() == x, "c16.from_u64.value");
        assert!(StreamId::try_from(x).unwrap().into_inner() == x, "c16.streamid.value");
        assert!(u64::from(VarInt::from(StreamId::try_from(x).unwrap())) == x, "c16.streamid.to_varint");
    }
    kani::cover!(x == MAX, "max");
    kani::cover!(x == MAX + 1, "first_refused");
    kani::cover!(x == u64::MAX, "u64max");
}

/// @check C16 quick
/// Stream-id classification is RFC 9000 §2.1: bit 0 initiator, bit 1 direction, rest index.
#[kani::proof]
fn c16_streamid_classification() {
    let raw: u64 = kani::any();
    kani::assume(raw <= MAX);
    let id = StreamId::try_from(raw).unwrap();
    assert!(id.is_request() == (raw & 3 == 0), "c16.is_request.client_bidi");
    assert!(id.is_push() == (raw & 3 == 3), "c16.is_push.server_uni");
    assert!(id.index() == raw >> 2, "c16.index.is_raw_div_4");
    kani::cover!(raw & 3 == 0, "client_bidi");
    kani::cover!(raw & 3 == 1, "server_bidi");
    kani::cover!(raw & 3 == 2, "client_uni");
    kani::cover!(raw & 3 == 3, "server_uni");
}

/// @check C16 quick
/// `StreamId + n` keeps the kind and saturates at the largest id of that kind.
#[kani::proof]
fn c16_streamid_add_saturates() {
    let raw: u64 = kani::any();
    kani::assume(raw <= MAX);
    let n: usize = kani::any();
    let id = StreamId::try_from(raw).unwrap();
    let sum = id + n;
    let r = sum.into_inner();
    let max_index: u64 = (1 << 60) - 1;
    let want_index = {
        let s = (raw >> 2) as u128 + n as u128;
        if s > max_index as u128 {
            max_index
        } else {
            s as u64
        }
    };
    assert!(r <= MAX, "c16.add.stays_valid");
    assert!(r & 3 == raw & 3, "c16.add.keeps_kind");
    assert!(r >> 2 == want_index, "c16.add.index_saturates");
    assert!(sum >= id, "c16.add.monotone");
    kani::cover!(n == usize::MAX, "n_max");
    kani::cover!(want_index == max_index && (raw >> 2) < max_index, "saturated");
    kani::cover!(n == 0, "n_zero");
}

/// @check C16 quick
/// Ordering of stream ids is the numeric ordering of the raw value (used as a lemma by engine M).
#[kani::proof]
fn c16_streamid_order_is_numeric() {
    let a: u64 = kani::any();
    let b: u64 = kani::any();
    kani::assume(a <= MAX && b <= MAX);
    let (ia, ib) = (StreamId::try_from(a).unwrap(), StreamId::try_from(b).unwrap());
    assert!((ia < ib) == (a < b), "c16.order.lt");
    assert!((ia <= ib) == (a <= b), "c16.order.le");
    assert!((ia > ib) == (a > b), "c16.order.gt");
    assert!((ia >= ib) == (a >= b), "c16.order.ge");
    assert!((ia == ib) == (a == b), "c16.order.eq");
    kani::cover!(a == b, "eq");
    kani::cover!(a < b, "lt");
}
