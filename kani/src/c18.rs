//! C18 — HTTP datagrams (RFC 9297 §2.1): quarter stream id ++ payload.
//!
//! Instantiation `B = &[u8]`. Payload lengths are enumerated concretely inside each harness
//! (0..=3 quick, 0..=8 thorough); ids, payload bytes and consumption amounts are symbolic.

use std::convert::TryFrom;

use bytes::Buf;
use h3::error::{Code, LocalError};
use h3::quic::StreamId;
use h3_datagram::datagram::Datagram;

use crate::refmodel::{varint_decode, varint_encode};

const MAXQ: u64 = (1 << 60) - 1;

fn code_of(e: h3::error::internal_error::InternalConnectionError) -> Code {
    match LocalError::from(e) {
        LocalError::Application { code, .. } => code,
        _ => unreachable!(),
    }
}

/// Drain `enc` in at most 3 symbolic `advance` steps followed by a final full drain, checking after
/// every step that `remaining()` / `chunk()` agree with the reference suffix of `want[..total]`.
fn drain_and_compare<B: Buf>(mut enc: B, want: &[u8; 16], total: usize) {
    let mut pos = 0usize;
    let mut step = 0;
    while step < 4 {
        assert!(enc.remaining() == total - pos, "c18.encode.remaining_matches_reference");
        let c = enc.chunk();
        if total - pos > 0 {
            assert!(!c.is_empty(), "c18.encode.chunk_nonempty_while_remaining");
        }
        assert!(c.len() <= total - pos, "c18.encode.chunk_within_remaining");
        let mut i = 0;
        while i < 16 {
            if i < c.len() {
                assert!(c[i] == want[pos + i], "c18.encode.bytes_are_quarter_id_then_payload");
            }
            i += 1;
        }
        let a: usize = if step < 3 { kani::any() } else { total - pos };
        kani::assume(a <= total - pos);
        enc.advance(a);
        pos += a;
        step += 1;
    }
    assert!(enc.remaining() == 0, "c18.encode.fully_drained");
}

fn encode_case(l: usize) {
    let q: u64 = kani::any();
    kani::assume(q <= MAXQ);
    let payload: [u8; 8] = kani::any();
    let sid = StreamId::try_from(q * 4).unwrap();
    let d = Datagram::new(sid, &payload[..l]);
    assert!(d.stream_id() == sid, "c18.new.stream_id");
    let (vb, vn) = varint_encode(q);
    let mut want = [0u8; 16];
    let mut i = 0;
    while i < 8 {
        if i < vn {
            want[i] = vb[i];
        }
        i += 1;
    }
    let mut j = 0;
    while j < 8 {
        if j < l {
            want[vn + j] = payload[j];
        }
        j += 1;
    }
    let total = vn + l;
    drain_and_compare(d.encode(), &want, total);
    kani::cover!(vn == 1, "qid_form1");
    kani::cover!(vn == 2, "qid_form2");
    kani::cover!(vn == 4, "qid_form4");
    kani::cover!(vn == 8, "qid_form8");
    kani::cover!(q == MAXQ, "qid_max");
}

/// @check C18 quick cost=60
/// encode(S, P) consumed in any <=4-step pattern yields exactly varint(S/4) ++ P; payload length 0..=3.
#[kani::proof]
#[kani::unwind(17)]
fn c18_encode_consumption_len0_3() {
    let l: usize = kani::any();
    kani::assume(l <= 3);
    encode_case(l);
    kani::cover!(l == 0, "empty_payload");
    kani::cover!(l == 3, "payload3");
}

/// @check C18 thorough cost=200
/// Same as above for payload length 4..=8.
#[kani::proof]
#[kani::unwind(17)]
fn c18_encode_consumption_len4_8() {
    let l: usize = kani::any();
    kani::assume(l >= 4 && l <= 8);
    encode_case(l);
    kani::cover!(l == 8, "payload8");
}

/// @check C18 quick cost=40
/// decode(bytes of encode(S,P)) == (S,P) for payload length 0..=3.
#[kani::proof]
#[kani::unwind(17)]
fn c18_roundtrip() {
    let q: u64 = kani::any();
    kani::assume(q <= MAXQ);
    let l: usize = kani::any();
    kani::assume(l <= 3);
    let payload: [u8; 4] = kani::any();
    let sid = StreamId::try_from(q * 4).unwrap();
    let mut enc = Datagram::new(sid, &payload[..l]).encode();
    let mut wire = [0u8; 12];
    let mut n = 0usize;
    let mut guard = 0;
    while enc.has_remaining() && guard < 3 {
        let c = enc.chunk();
        let cl = c.len();
        let mut i = 0;
        while i < 8 {
            if i < cl {
                wire[n + i] = c[i];
            }
            i += 1;
        }
        n += cl;
        enc.advance(cl);
        guard += 1;
    }
    assert!(!enc.has_remaining(), "c18.roundtrip.drained_in_two_chunks");
    let back = Datagram::decode(&wire[..n]);
    match back {
        Ok(d) => {
            assert!(d.stream_id() == sid, "c18.roundtrip.stream_id");
            let p = d.into_payload();
            assert!(p.len() == l, "c18.roundtrip.payload_len");
            let mut i = 0;
            while i < 4 {
                if i < l {
                    assert!(p[i] == payload[i], "c18.roundtrip.payload_bytes");
                }
                i += 1;
            }
        }
        Err(e) => {
            std::mem::forget(e);
            assert!(false, "c18.roundtrip.decode_accepts_own_encoding");
        }
    }
    kani::cover!(q >= (1 << 30), "qid_form8");
    kani::cover!(q < 64 && l == 3, "small");
}

/// @check C18,C06 quick cost=40
/// Any byte string of length 0..=9: Ok(S = 4q, rest) iff the varint is complete and 4q <= 2^62-1;
/// otherwise the error code is H3_DATAGRAM_ERROR; no overflow, no panic.
#[kani::proof]
#[kani::unwind(17)]
fn c18_decode_any_bytes() {
    let bytes: [u8; 9] = kani::any();
    let len: usize = kani::any();
    kani::assume(len <= 9);
    let got = Datagram::decode(&bytes[..len]);
    match varint_decode(&bytes, len) {
        Some((q, n)) if q <= MAXQ => match got {
            Ok(d) => {
                assert!(d.stream_id().into_inner() == q * 4, "c18.decode.stream_id_is_4q");
                assert!(d.payload().len() == len - n, "c18.decode.payload_is_rest");
                if len - n > 0 {
                    assert!(d.payload()[0] == bytes[n], "c18.decode.payload_first_byte");
                }
                kani::cover!(q == MAXQ, "largest_legal_quarter_id");
                kani::cover!(n == 1 && len == 9, "short_id_long_payload");
            }
            Err(e) => {
                std::mem::forget(e);
                assert!(false, "c18.decode.valid_rejected");
            }
        },
        _ => match got {
            Ok(d) => {
                std::mem::forget(d);
                assert!(false, "c18.decode.invalid_accepted");
            }
            Err(e) => {
                let c = code_of(e);
                assert!(c == Code::H3_DATAGRAM_ERROR, "c18.decode.error_code_is_datagram_error");
                kani::cover!(len == 0, "empty");
                kani::cover!(len == 8 && bytes[0] >= 0xc0, "truncated8");
                kani::cover!(len == 8 && bytes[0] == 0xd0, "quarter_id_too_large");
            }
        },
    }
}
