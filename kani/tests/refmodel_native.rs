//! Native validation of the reference models against the repository's own data / test vectors.
//! Run at set-up time with the repository's toolchain: `cargo test` in /verif/kani
//! (RUSTFLAGS="--cfg hyperium_h3_verif").
use h3::qpack::verif_hooks::{verif_code, HpackStringDecode, StaticTable};
use h3_verif_kani::huffman_table::{huffman_lookup, HUFFMAN_CODES};
use h3_verif_kani::qpack_static::STATIC_TABLE;
use h3_verif_kani::refmodel;

#[test]
fn static_table_written_from_rfc_matches_h3_rows() {
    let mut mismatches = vec![];
    for (i, (n, v)) in STATIC_TABLE.iter().enumerate() {
        let f = StaticTable::get(i).expect("row");
        if &f.name[..] != *n || &f.value[..] != *v {
            mismatches.push(i);
        }
    }
    assert!(StaticTable::get(99).is_err());
    assert!(mismatches.is_empty(), "rows differ from h3 (inspect by hand, do not trust either side): {:?}", mismatches);
}

#[test]
fn huffman_reference_decodes_every_symbol_with_padding() {
    // encode each symbol with the reference table + 1-padding, decode with the reference decoder
    for s in 0..256usize {
        let (code, len) = HUFFMAN_CODES[s];
        assert_eq!(huffman_lookup(code, len), Some(s as u16));
        if len > 24 {
            continue; // reference decoder bound: 4 bytes with < 8 bits of padding
        }
        let nbytes = (len as usize + 7) / 8;
        let pad = nbytes * 8 - len as usize;
        let v: u64 = ((code as u64) << pad) | ((1u64 << pad) - 1);
        let mut b = [0u8; 4];
        for i in 0..nbytes {
            b[i] = (v >> (8 * (nbytes - 1 - i))) as u8;
        }
        match refmodel::huffman_decode(&b, nbytes) {
            refmodel::Huff::Accept(out, 1) => assert_eq!(out[0] as usize, s),
            _ => panic!("reference decoder rejects symbol {}", s),
        }
        // and h3's decoder agrees on these valid strings
        let got: Result<Vec<u8>, _> = b[..nbytes].to_vec().hpack_decode().collect();
        assert_eq!(got.ok(), Some(vec![s as u8]));
        // h3's encode table agrees with the reference code
        let (_, bits) = verif_code(s as u8);
        assert_eq!(bits, len as u32);
    }
}

#[test]
fn varint_reference_matches_rfc9000_examples() {
    // RFC 9000 Appendix A.1 examples
    assert_eq!(refmodel::varint_decode(&[0xc2, 0x19, 0x7c, 0x5e, 0xff, 0x14, 0xe8, 0x8c], 8), Some((151_288_809_941_952_652, 8)));
    assert_eq!(refmodel::varint_decode(&[0x9d, 0x7f, 0x3e, 0x7d], 4), Some((494_878_333, 4)));
    assert_eq!(refmodel::varint_decode(&[0x7b, 0xbd], 2), Some((15_293, 2)));
    assert_eq!(refmodel::varint_decode(&[0x25], 1), Some((37, 1)));
    assert_eq!(refmodel::varint_decode(&[0x40, 0x25], 2), Some((37, 2)));
    assert_eq!(refmodel::varint_encode(15_293).0[..2], [0x7b, 0xbd]);
    // the repository's own prefix-int vectors (qpack/prefix_int.rs tests)
    assert_eq!(refmodel::prefix_int_encode(5, 0b010, 1337).0[..3], [0b0101_1111, 154, 10]);
    assert_eq!(refmodel::prefix_int_encode(8, 0, 424_242).0[..4], [255, 179, 240, 25]);
    assert_eq!(refmodel::prefix_int_encode(4, 0b0001, 143).0[..3], [31, 128, 1]);
}
