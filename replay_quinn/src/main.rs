//! Native replay of C17 counterexamples: needs real quinn objects, so two quinn endpoints talk over the loopback interface
//! (as the repository's own tests do). usage: h3-verif-replay-quinn <scenario> — exit 1 = reproduced, 0 = not reproduced.
use std::future::poll_fn;
use std::net::{Ipv6Addr, SocketAddr};
use std::sync::Arc;
use std::task::Poll;
use std::time::Duration;

use bytes::Bytes;
use h3::quic::RecvStream as _;
use quinn::crypto::rustls::{QuicClientConfig, QuicServerConfig};
use rustls::pki_types::{CertificateDer, PrivateKeyDer};

fn endpoints() -> (quinn::Endpoint, quinn::Endpoint, SocketAddr) {
    endpoints_with(None)
}

fn endpoints_with(stream_window: Option<u32>) -> (quinn::Endpoint, quinn::Endpoint, SocketAddr) {
    let cert = rcgen::generate_simple_self_signed(vec!["localhost".into()]).unwrap();
    let (cert_der, key): (CertificateDer<'static>, PrivateKeyDer<'static>) =
        (cert.cert.into(), PrivateKeyDer::Pkcs8(cert.signing_key.serialize_der().into()));
    let mut crypto = rustls::ServerConfig::builder_with_provider(Arc::new(rustls::crypto::ring::default_provider()))
        .with_protocol_versions(&[&rustls::version::TLS13])
        .unwrap()
        .with_no_client_auth()
        .with_single_cert(vec![cert_der.clone()], key)
        .unwrap();
    crypto.alpn_protocols = vec![b"h3".to_vec()];
    let mut server_config = quinn::ServerConfig::with_crypto(Arc::new(QuicServerConfig::try_from(crypto).unwrap()));
    if let Some(w) = stream_window {
        let mut t = quinn::TransportConfig::default();
        t.stream_receive_window(w.into());
        server_config.transport = Arc::new(t);
    }
    let server = quinn::Endpoint::server(server_config, "[::1]:0".parse().unwrap()).unwrap();
    let addr = SocketAddr::new(Ipv6Addr::LOCALHOST.into(), server.local_addr().unwrap().port());
    let mut roots = rustls::RootCertStore::empty();
    roots.add(cert_der).unwrap();
    let mut ccrypto = rustls::ClientConfig::builder_with_provider(Arc::new(rustls::crypto::ring::default_provider()))
        .with_protocol_versions(&[&rustls::version::TLS13])
        .unwrap()
        .with_root_certificates(roots)
        .with_no_client_auth();
    ccrypto.alpn_protocols = vec![b"h3".to_vec()];
    let mut client = quinn::Endpoint::client("[::1]:0".parse().unwrap()).unwrap();
    client.set_default_client_config(quinn::ClientConfig::new(Arc::new(QuicClientConfig::try_from(ccrypto).unwrap())));
    (server, client, addr)
}

/// The peer opens a unidirectional stream and sends one byte, keeping the stream open. The adapter's RecvStream is read
/// once (the byte), then polled again: that read is Pending. In that state - a read in flight - the stream id is asked for:
/// it must be the same id as before and the call must not panic.
async fn c17_recv_id_while_read_pending() -> i32 {
    let (server, client, addr) = endpoints();
    let accept = tokio::spawn(async move { server.accept().await.unwrap().await.unwrap() });
    let cconn = client.connect(addr, "localhost").unwrap().await.unwrap();
    let sconn = accept.await.unwrap();
    let mut send = cconn.open_uni().await.unwrap();
    send.write_all(&[0x21]).await.unwrap();
    let mut conn = h3_quinn::Connection::new(sconn);
    let mut recv: h3_quinn::RecvStream = tokio::time::timeout(
        Duration::from_secs(5),
        poll_fn(|cx| <h3_quinn::Connection as h3::quic::Connection<Bytes>>::poll_accept_recv(&mut conn, cx)),
    )
    .await
    .expect("stream arrives")
    .expect("accept ok");
    let id_idle = recv.recv_id();
    let first = tokio::time::timeout(Duration::from_secs(5), poll_fn(|cx| recv.poll_data(cx))).await.expect("first byte arrives");
    println!("stream id while idle: {:?}; first read: {:?}", id_idle, first.as_ref().map(|o| o.as_ref().map(|b| b.len())));
    // second read: nothing more has been sent, the read stays in flight
    let pending = poll_fn(|cx| Poll::Ready(recv.poll_data(cx).is_pending())).await;
    println!("second read pending: {}", pending);
    let r = std::panic::catch_unwind(std::panic::AssertUnwindSafe(|| recv.recv_id()));
    let rc = match r {
        Ok(id) if id == id_idle => {
            println!("stream id while a read is pending: {:?} (unchanged)", id);
            0
        }
        Ok(id) => {
            println!("REPRODUCED: the stream id changed from {:?} to {:?}", id_idle, id);
            1
        }
        Err(_) => {
            println!("REPRODUCED: recv_id panics while a read is pending");
            1
        }
    };
    std::mem::forget(recv);
    drop(send);
    rc
}

/// A frame-sized buffer (64 KiB, patterned bytes) is handed to the adapter's SendStream while the peer's stream receive
/// window is tiny (1 KiB): quinn accepts the bytes in many partial writes with Pending in between. Three buffers are sent
/// one after the other (send_data, then poll_ready until Ready), the stream is finished; the peer, a plain quinn reader,
/// must receive exactly the concatenation.
async fn c17_partial_writes() -> i32 {
    use h3::quic::{OpenStreams as _, SendStream as _};
    let (server, client, addr) = endpoints_with(Some(1024));
    let accept = tokio::spawn(async move { server.accept().await.unwrap().await.unwrap() });
    let cconn = client.connect(addr, "localhost").unwrap().await.unwrap();
    let sconn = accept.await.unwrap();
    let reader = tokio::spawn(async move {
        let mut recv = sconn.accept_uni().await.unwrap();
        let mut got = Vec::new();
        let mut buf = vec![0u8; 4096];
        loop {
            match recv.read(&mut buf).await {
                Ok(Some(n)) => got.extend_from_slice(&buf[..n]),
                Ok(None) => break,
                Err(_) => break,
            }
            tokio::time::sleep(Duration::from_micros(200)).await;
        }
        (got, sconn)
    });
    let mut conn = h3_quinn::Connection::new(cconn);
    let mut send: h3_quinn::SendStream<Bytes> = poll_fn(|cx| <h3_quinn::Connection as h3::quic::OpenStreams<Bytes>>::poll_open_send(&mut conn, cx))
        .await
        .expect("open_send");
    let mut want = Vec::new();
    let mut refused_overlap = true;
    for round in 0..3u8 {
        let payload: Vec<u8> = (0..65536u32).map(|i| (i as u8) ^ round.wrapping_mul(37)).collect();
        // a DATA frame: type 0x00, length 65536 as a 4-byte varint, payload
        want.extend_from_slice(&[0x00, 0x80, 0x01, 0x00, 0x00]);
        want.extend_from_slice(&payload);
        send.send_data(h3::proto::frame::Frame::Data(Bytes::from(payload))).expect("send_data on an idle stream");
        // while the write is unfinished a second buffer must be refused
        let first = poll_fn(|cx| Poll::Ready(send.poll_ready(cx).is_pending())).await;
        if first && send.send_data(h3::proto::frame::Frame::Data(Bytes::from_static(b"interleaved"))).is_ok() {
            refused_overlap = false;
        }
        let r = tokio::time::timeout(Duration::from_secs(20), poll_fn(|cx| send.poll_ready(cx))).await;
        if !matches!(r, Ok(Ok(()))) {
            println!("poll_ready did not complete: {:?}", r.map(|x| x.map_err(|e| format!("{:?}", e))));
            break;
        }
    }
    let _ = poll_fn(|cx| send.poll_finish(cx)).await;
    let (got, _keep) = tokio::time::timeout(Duration::from_secs(20), reader).await.expect("reader ends").unwrap();
    println!("handed to the adapter: {} bytes; received by the peer: {} bytes; identical: {}; overlapping send_data refused: {}", want.len(), got.len(), got == want, refused_overlap);
    if got != want {
        let at = got.iter().zip(want.iter()).position(|(a, b)| a != b).unwrap_or(usize::min(got.len(), want.len()));
        println!("REPRODUCED: the peer did not receive the bytes handed to the adapter exactly once and in order (first difference at byte {})", at);
        return 1;
    }
    if !refused_overlap {
        println!("REPRODUCED: send_data was accepted while an earlier write was unfinished");
        return 1;
    }
    0
}

fn main() {
    let args: Vec<String> = std::env::args().collect();
    let rt = tokio::runtime::Builder::new_current_thread().enable_all().build().unwrap();
    std::panic::set_hook(Box::new(|_| {}));
    let rc = match args.get(1).map(|s| s.as_str()) {
        Some("c17_recv_id_while_read_pending") => rt.block_on(c17_recv_id_while_read_pending()),
        Some("c17_partial_writes") => rt.block_on(c17_partial_writes()),
        _ => {
            eprintln!("usage: h3-verif-replay-quinn c17_recv_id_while_read_pending");
            2
        }
    };
    std::process::exit(rc);
}
