//! Native replay of C17 counterexamples: needs real quinn objects, so two quinn endpoints talk over the loopback interface
//! (as the repository's own tests do). usage: h3-verif-replay-quinn <scenario> — exit 1 = reproduced, 0 = not reproduced.
use std::future::poll_fn;
use std::net::{Ipv6Addr, SocketAddr};
use std::sync::Arc;
use std::task::Poll;
use std::time::Duration;

use bytes::Bytes;
use h3::quic::{Connection as _, RecvStream as _};
use quinn::crypto::rustls::{QuicClientConfig, QuicServerConfig};
use rustls::pki_types::{CertificateDer, PrivateKeyDer};

fn endpoints() -> (quinn::Endpoint, quinn::Endpoint, SocketAddr) {
    let cert = rcgen::generate_simple_self_signed(vec!["localhost".into()]).unwrap();
    let (cert_der, key): (CertificateDer<'static>, PrivateKeyDer<'static>) =
        (cert.cert.into(), PrivateKeyDer::Pkcs8(cert.signing_key.serialize_der().into()));
    let mut crypto = rustls::ServerConfig::builder_with_provider(Arc::new(rustls::crypto::ring::default_provider()))
        .with_protocol_versions(&[&rustls::version::TLS13])
        .unwrap()
        .with_no_client_auth()
        .with_single_cert(vec![cert_der.clone()], key)
        .unwrap();
    crypto.alpn_protocols = vec![b"h3".to_vec()];
    let server_config = quinn::ServerConfig::with_crypto(Arc::new(QuicServerConfig::try_from(crypto).unwrap()));
    let server = quinn::Endpoint::server(server_config, "[::1]:0".parse().unwrap()).unwrap();
    let addr = SocketAddr::new(Ipv6Addr::LOCALHOST.into(), server.local_addr().unwrap().port());
    let mut roots = rustls::RootCertStore::empty();
    roots.add(cert_der).unwrap();
    let mut ccrypto = rustls::ClientConfig::builder_with_provider(Arc::new(rustls::crypto::ring::default_provider()))
        .with_protocol_versions(&[&rustls::version::TLS13])
        .unwrap()
        .with_root_certificates(roots)
        .with_no_client_auth();
    ccrypto.alpn_protocols = vec![b"h3".to_vec()];
    let mut client = quinn::Endpoint::client("[::1]:0".parse().unwrap()).unwrap();
    client.set_default_client_config(quinn::ClientConfig::new(Arc::new(QuicClientConfig::try_from(ccrypto).unwrap())));
    (server, client, addr)
}

/// The peer opens a unidirectional stream and sends one byte, keeping the stream open. The adapter's RecvStream is read
/// once (the byte), then polled again: that read is Pending. In that state - a read in flight - the stream id is asked for:
/// it must be the same id as before and the call must not panic.
async fn c17_recv_id_while_read_pending() -> i32 {
    let (server, client, addr) = endpoints();
    let accept = tokio::spawn(async move { server.accept().await.unwrap().await.unwrap() });
    let cconn = client.connect(addr, "localhost").unwrap().await.unwrap();
    let sconn = accept.await.unwrap();
    let mut send = cconn.open_uni().await.unwrap();
    send.write_all(&[0x21]).await.unwrap();
    let mut conn = h3_quinn::Connection::new(sconn);
    let mut recv: h3_quinn::RecvStream = tokio::time::timeout(
        Duration::from_secs(5),
        poll_fn(|cx| <h3_quinn::Connection as h3::quic::Connection<Bytes>>::poll_accept_recv(&mut conn, cx)),
    )
    .await
    .expect("stream arrives")
    .expect("accept ok");
    let id_idle = recv.recv_id();
    let first = tokio::time::timeout(Duration::from_secs(5), poll_fn(|cx| recv.poll_data(cx))).await.expect("first byte arrives");
    println!("stream id while idle: {:?}; first read: {:?}", id_idle, first.as_ref().map(|o| o.as_ref().map(|b| b.len())));
    // second read: nothing more has been sent, the read stays in flight
    let pending = poll_fn(|cx| Poll::Ready(recv.poll_data(cx).is_pending())).await;
    println!("second read pending: {}", pending);
    let r = std::panic::catch_unwind(std::panic::AssertUnwindSafe(|| recv.recv_id()));
    let rc = match r {
        Ok(id) if id == id_idle => {
            println!("stream id while a read is pending: {:?} (unchanged)", id);
            0
        }
        Ok(id) => {
            println!("REPRODUCED: the stream id changed from {:?} to {:?}", id_idle, id);
            1
        }
        Err(_) => {
            println!("REPRODUCED: recv_id panics while a read is pending");
            1
        }
    };
    std::mem::forget(recv);
    drop(send);
    rc
}

fn main() {
    let args: Vec<String> = std::env::args().collect();
    let rt = tokio::runtime::Builder::new_current_thread().enable_all().build().unwrap();
    std::panic::set_hook(Box::new(|_| {}));
    let rc = match args.get(1).map(|s| s.as_str()) {
        Some("c17_recv_id_while_read_pending") => rt.block_on(c17_recv_id_while_read_pending()),
        _ => {
            eprintln!("usage: h3-verif-replay-quinn c17_recv_id_while_read_pending");
            2
        }
    };
    std::process::exit(rc);
}
