#!/usr/bin/env python3
"""Apply a seeded change to /repo, run checks, undo. usage: try_seeded.py <seed id> <check args...> (e.g. S-C08-1 C08)"""
import json, os, subprocess, sys, time
VERIF = os.path.dirname(os.path.dirname(os.path.abspath(__file__)))
sid = sys.argv[1]
checks = sys.argv[2:]
d = os.path.join(VERIF, "seeded", sid)
patch = os.path.join(d, "patch.diff")
assert subprocess.run(["git", "-C", "/repo", "status", "--porcelain"], capture_output=True, text=True).stdout.strip() == "", "repo dirty"
r = subprocess.run(["git", "-C", "/repo", "apply", "--3way", patch], capture_output=True, text=True)
if r.returncode != 0:
    r = subprocess.run(["git", "-C", "/repo", "apply", patch], capture_output=True, text=True)
if r.returncode != 0:
    print("patch does not apply:", r.stderr); sys.exit(2)
results = {}
try:
    for c in checks:
        t0 = time.time()
        args = c.split()
        p = subprocess.run([os.path.join(VERIF, "check")] + args + ["--no-evidence"], capture_output=True, text=True,
                           env=dict(os.environ, VERIF_BUILD_TAG="sd"))
        out = p.stdout + p.stderr
        lines = [l for l in out.split("\n") if l.startswith(("VIOLATION", "  failing", "INCONCLUSIVE", "OK ", "KNOWN-FINDING"))]
        results[c] = {"exit": p.returncode, "wall_s": round(time.time() - t0), "lines": lines[:12]}
        print(c, "exit", p.returncode, f"{time.time()-t0:.0f}s")
        for l in lines[:12]:
            print("   ", l[:300])
finally:
    subprocess.run(["git", "-C", "/repo", "checkout", "--", "."])
    subprocess.run(["git", "-C", "/repo", "reset", "-q"])
    subprocess.run(["git", "-C", "/repo", "checkout", "--", "."])
meta_p = os.path.join(d, "meta.json")
meta = json.load(open(meta_p)) if os.path.exists(meta_p) else {}
meta.setdefault("check_results", {}).update(results)
json.dump(meta, open(meta_p, "w"), indent=1)
