#!/usr/bin/env python3
"""Apply a seeded change to /repo, run checks, undo. usage: try_seeded.py <seed id> <check args...> (e.g. S-C08-1 C08)"""
import json, os, subprocess, sys, time
VERIF = os.path.dirname(os.path.dirname(os.path.abspath(__file__)))
sid = sys.argv[1]
checks = sys.argv[2:]
d = os.path.join(VERIF, "seeded", sid)
patch = os.path.join(d, "patch.diff")
assert subprocess.run(["git", "-C", "/repo", "status", "--porcelain"], capture_output=True, text=True).stdout.strip() == "", "repo dirty"
head = subprocess.run(["git", "-C", "/repo", "rev-parse", "HEAD"], capture_output=True, text=True).stdout.strip()
r = subprocess.run(["git", "-C", "/repo", "apply", patch], capture_output=True, text=True)
if r.returncode != 0:
    r = subprocess.run(["git", "-C", "/repo", "apply", "--3way", patch], capture_output=True, text=True)
    unmerged = subprocess.run(["git", "-C", "/repo", "diff", "--name-only", "--diff-filter=U"], capture_output=True, text=True).stdout.strip()
    if r.returncode != 0 or unmerged:
        subprocess.run(["git", "-C", "/repo", "reset", "--hard", "-q", head])
        print("patch does not apply to the current tree:", (r.stderr or unmerged)[:300])
        meta_p = os.path.join(d, "meta.json")
        meta = json.load(open(meta_p)) if os.path.exists(meta_p) else {}
        for c in checks:
            meta.setdefault("check_results", {})[c] = {"exit": None, "note": "the patch no longer applies to the final tree (the code it changes was rewritten by a later fix)", "lines": []}
        json.dump(meta, open(meta_p, "w"), indent=1)
        sys.exit(2)
results = {}
try:
    for c in checks:
        t0 = time.time()
        args = c.split()
        p = subprocess.run([os.path.join(VERIF, "check")] + args + ["--no-evidence"], capture_output=True, text=True,
                           env=dict(os.environ, VERIF_BUILD_TAG="sd"))
        out = p.stdout + p.stderr
        lines = [l for l in out.split("\n") if l.startswith(("VIOLATION", "  failing", "INCONCLUSIVE", "OK ", "KNOWN-FINDING"))]
        results[c] = {"exit": p.returncode, "wall_s": round(time.time() - t0), "lines": lines[:12]}
        print(c, "exit", p.returncode, f"{time.time()-t0:.0f}s")
        for l in lines[:12]:
            print("   ", l[:300])
finally:
    # /repo was clean at `head` when we started: go back to exactly that
    subprocess.run(["git", "-C", "/repo", "reset", "--hard", "-q", head])
meta_p = os.path.join(d, "meta.json")
meta = json.load(open(meta_p)) if os.path.exists(meta_p) else {}
meta.setdefault("check_results", {}).update(results)
json.dump(meta, open(meta_p, "w"), indent=1)
