#!/usr/bin/env python3-vt
"""Regenerate /verif/MANIFEST.json from the table below and validate it against the schema."""
import json, os, subprocess
import jsonschema

VERIF = os.path.dirname(os.path.dirname(os.path.abspath(__file__)))
K_TECH = "Kani/CBMC symbolic execution of the compiled h3 code, SAT-decided (bounded model checking), differential against an RFC reference model"
M_TECH = "symbolic execution of rustc MIR regenerated from /repo (mirsym), z3-decided, counterexamples replayed natively"
K_TRUST = ("Trusted: Kani's MIR->goto translation, CBMC 6.11, CaDiCaL; the RFC reference models in kani/src/refmodel.rs. "
           "Nothing is claimed outside the stated bounds.")

CHECKS = {
 "C16": dict(engine="K", technique=K_TECH,
   text="Bounded model checking of the real VarInt/StreamId/PushId/SessionId code over the full 62/64-bit value domains and all byte strings up to the codec's own maximum (9 bytes). The only bounds are the buffer lengths, which are the codec's maxima, so for these functions the exploration is complete.",
   note="Instantiations Buf=&[u8], BufMut=&mut [u8]. " + K_TRUST, ref="DESIGN.md §5 C16"),
 "C18": dict(engine="K", technique=K_TECH,
   text="Bounded model checking of Datagram::{new,encode,decode} and impl Buf for EncodedDatagram: every client-bidi stream id (all q<2^60), payload lengths 0..3 (quick) / 0..8 (thorough) with symbolic bytes, every consumption pattern of up to 4 advance steps with symbolic amounts, and decode of every byte string of length 0..9.",
   note="Instantiation B=&[u8]. Payloads longer than 8 bytes are outside the claim (the code never inspects payload bytes). DatagramSender/Reader (async) not covered. " + K_TRUST, ref="DESIGN.md §5 C18"),
 "C19": dict(engine="K", technique=K_TECH,
   text="Bounded model checking of the session-id codec path: SessionId::from(StreamId) is the identity on the raw id for every id < 2^62; the stream headers written by UniStreamHeader::WebTransportUni / BidiStreamHeader::WebTransportBidi are varint(0x54|0x41) ++ varint(CONNECT stream id) for every id; Frame::decode of 0x41 ++ varint(x) yields WebTransportStream(x) consuming exactly the header for every x, every varint form of x and of the type, and every truncation position (Incomplete, never a frame).",
   note="Not claimed: byte-exact hand-over of payload buffered behind the header (needs BufList<Bytes>, which CBMC cannot execute), the session object of h3-webtransport (Mutex, async), gating of WebTransport uni streams on the configuration. Instantiations: BufMut=&mut [u8], Buf=KBuf (contiguous slice reader, kani/src/kbuf.rs). " + K_TRUST, ref="DESIGN.md §5 C19"),
 # --- more checks are appended above this line ---
}

NA = {
}
PLANNED = "check not built yet (work in progress; planned scope in DESIGN.md)"

def main():
    props = [json.loads(l) for l in open(os.path.join(VERIF, "properties.jsonl"))]
    hooks = subprocess.run(["git", "-C", "/repo", "log", "--format=%h %s"], capture_output=True, text=True).stdout.split("\n")
    hook_commits = [l.split()[0] for l in hooks if l and "verif hook" in l]
    served_k = sorted(p for p, c in CHECKS.items() if "K" in c["engine"])
    served_m = sorted(p for p, c in CHECKS.items() if "M" in c["engine"])
    man = {
     "version": 1,
     "setup_cmd": "./setup.sh",
     "hooks": {
      "guard": "--cfg hyperium_h3_verif",
      "enable": "RUSTFLAGS=\"--cfg hyperium_h3_verif\" (set by ./check for cargo kani, the MIR dump and the native replay crate); the out-of-tree crates enable h3's feature i-implement-a-third-party-backend-and-opt-into-breaking-changes",
      "baseline_off_cmd": "cd /repo && cargo test --workspace --no-fail-fast --offline",
      "source_commits": hook_commits,
      "add_only": True,
     },
     "engines": [
      {"name": "K", "path": "kani/", "serves_properties": served_k,
       "kind_free_text": "Kani 0.68 / CBMC 6.11 bounded model checking of #[kani::proof] harnesses over the compiled h3 crates: inputs are kani::any(), properties are assertions (mostly differential against RFC reference models), unwinding assertions on, verdict by the SAT solver"},
      {"name": "M", "path": "mirsym/", "serves_properties": served_m,
       "kind_free_text": "mirsym: symbolic executor (Python + z3) over the MIR rustc dumps from /repo's current source on every run; callees outside the analysed set are contract stubs; counterexamples replayed natively through a scripted mock transport"},
     ],
     "checks": [],
     "not_applicable": [],
     "notes": "See DESIGN.md. ./check exit codes: 0 held (KNOWN-FINDING lines for entries of known_findings.json), 1 violation (VIOLATION line), 2 inconclusive (timeout/OOM/vacuous/unmodelled/non-reproducing counterexample; never success).",
    }
    for p in props:
        pid = p["id"]
        if pid in CHECKS:
            c = CHECKS[pid]
            man["checks"].append({
             "property_id": pid,
             "quick_cmd": f"./check {pid} --tier quick",
             "thorough_cmd": f"./check {pid} --tier thorough",
             "evidence_file": f"evidence/{pid}.json",
             "replay_cmd_template": "./check --replay {path}",
             "engine": c["engine"],
             "level_claimed": {"category": "model_checking", "text": c["text"], "design_ref": c["ref"]},
             "level_note": c["note"],
             "technique": c["technique"],
            })
        else:
            man["not_applicable"].append({"property_id": pid, "reason": NA.get(pid, PLANNED)})
    jsonschema.validate(man, json.load(open("/root/.vp/MANIFEST.schema.json")))
    json.dump(man, open(os.path.join(VERIF, "MANIFEST.json"), "w"), indent=1)
    print("MANIFEST.json written:", len(man["checks"]), "checks,", len(man["not_applicable"]), "not applicable")

main()
