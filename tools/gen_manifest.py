#!/usr/bin/env python3-vt
"""Regenerate /verif/MANIFEST.json from the table below and validate it against the schema."""
import json, os, subprocess
import jsonschema

VERIF = os.path.dirname(os.path.dirname(os.path.abspath(__file__)))
K_TECH = "Kani/CBMC symbolic execution of the compiled h3 code, SAT-decided (bounded model checking), differential against an RFC reference model"
M_TECH = "symbolic execution of rustc MIR regenerated from /repo (mirsym), z3-decided, counterexamples replayed natively"
K_TRUST = ("Trusted: Kani's MIR->goto translation, CBMC 6.11, CaDiCaL; the RFC reference models in kani/src/refmodel.rs. "
           "Nothing is claimed outside the stated bounds.")

CHECKS = {
 "C16": dict(engine="K", technique=K_TECH,
   text="Bounded model checking of the real VarInt/StreamId/PushId/SessionId code over the full 62/64-bit value domains and all byte strings up to the codec's own maximum (9 bytes). The only bounds are the buffer lengths, which are the codec's maxima, so for these functions the exploration is complete.",
   note="Instantiations Buf=&[u8], BufMut=&mut [u8]. " + K_TRUST, ref="DESIGN.md §5 C16"),
 "C18": dict(engine="K", technique=K_TECH,
   text="Bounded model checking of Datagram::{new,encode,decode} and impl Buf for EncodedDatagram: every client-bidi stream id (all q<2^60), payload lengths 0..3 (quick) / 0..8 (thorough) with symbolic bytes, every consumption pattern of up to 4 advance steps with symbolic amounts, and decode of every byte string of length 0..9.",
   note="Instantiation B=&[u8]. Payloads longer than 8 bytes are outside the claim (the code never inspects payload bytes). DatagramSender/Reader (async) not covered. " + K_TRUST, ref="DESIGN.md §5 C18"),
 "C19": dict(engine="K", technique=K_TECH,
   text="Bounded model checking of the session-id codec path: SessionId::from(StreamId) is the identity on the raw id for every id < 2^62; the stream headers written by UniStreamHeader::WebTransportUni / BidiStreamHeader::WebTransportBidi are varint(0x54|0x41) ++ varint(CONNECT stream id) for every id; Frame::decode of 0x41 ++ varint(x) yields WebTransportStream(x) consuming exactly the header for every x, every varint form of x and of the type, and every truncation position (Incomplete, never a frame).",
   note="Not claimed: byte-exact hand-over of payload buffered behind the header (needs BufList<Bytes>, which CBMC cannot execute), the session object of h3-webtransport (Mutex, async), gating of WebTransport uni streams on the configuration. Instantiations: BufMut=&mut [u8], Buf=KBuf (contiguous slice reader, kani/src/kbuf.rs). " + K_TRUST, ref="DESIGN.md §5 C19"),
 "C02": dict(engine="K", technique=K_TECH,
   text="Bounded model checking of Frame::decode against an RFC 9114 section 7.1 reference segmenter and fixed-field grammar: every known frame type, the four HTTP/2-reserved types and six unknown/grease types (incl. 2^62-1), every varint form of type and length, declared payload lengths 0..3 (quick) / 0..8 (thorough), symbolic payload and two trailing bytes, every cut of the buffer from 'type complete' to frame+2: well-formed frames yield the expected variant and consume exactly header+L, unknown types are skipped in full, reserved types are refused, a payload longer or shorter than its fields is a frame error (never accepted, never Incomplete), Incomplete exactly while bytes are missing.",
   note="Shapes (type/length forms, L, cut) are enumerated concretely, contents are symbolic. Not covered by K: buffers that end inside the TYPE varint (CBMC does not finish; one line of code, truncation verdict of the varint decoder is proved under C16), chunking across BufList/Cursor, FrameStream end-of-stream logic, PUSH_PROMISE/SETTINGS payloads with a symbolic varint form beyond 1 byte (first byte(s) concrete there). Instantiation Buf=KBuf (contiguous slice). " + K_TRUST, ref="DESIGN.md §5 C02"),
 "C06": dict(engine="K", technique=K_TECH,
   text="Panic/overflow/out-of-bounds freedom (Kani's built-in checks: arithmetic overflow, slice bounds, unwrap/expect/assert/unreachable, pointer validity) of every byte decoder h3 runs on peer-controlled input, on arbitrary bounded input: VarInt::decode (all 0..9-byte strings), Frame::decode (all C02 shapes), Settings::decode (all payloads of 0..3 bytes quick / ..5 thorough), prefix_int::decode (all 0..12-byte strings, all prefix sizes), Huffman decoding (all 0..1-byte strings quick / 2-byte thorough), decode_stateless (C11 shapes), Datagram::decode (all 0..9-byte strings), HeaderPrefix::get(0,0) on arbitrary fields, vas index translation on arbitrary indices, WebTransport stream header decode.",
   note="Safety only; the liveness half of the property (no call pending forever) and the poll-level state machines are not covered by these harnesses. Inputs longer than the stated bounds are outside the claim (e.g. the u32 bit arithmetic of the Huffman reader overflows only for strings >= 512 MiB). " + K_TRUST, ref="DESIGN.md §5 C06"),
 "C10": dict(engine="K", technique=K_TECH,
   text="Receive side: decode_stateless with a SYMBOLIC size limit (all u64) on the C11 shapes (static rows, literal lines, name references, two-byte index forms): accepted iff the RFC 9114 section 4.2.2 size (sum of name+value+32, static rows with their Appendix A sizes) is <= limit, refused as HeaderTooLong otherwise, malformed input never reported as a size problem, reported mem_size equals the RFC size; the protocol default limit before SETTINGS is 2^62-1 (C13 harness).",
   note="Send side (the comparison sites in send_request/send_response/send_trailers, the 431 answer) is not covered by K. Boundary values L-1, L, L+1 are inside each query because the limit is symbolic. " + K_TRUST, ref="DESIGN.md §5 C10"),
 "C11": dict(engine="K", technique=K_TECH,
   text="decode_stateless against an independent RFC 9204 model with its own copy of Appendix A: all 99 static rows (enumerated), literal lines with literal name (name 0..4, value 0..4 symbolic bytes), static name references (rows 0,1,14,15,17,98; one- and two-byte index forms), truncations of these lines, dynamic-table references of every kind, static indices 99/190/191, any one-byte Required Insert Count / Delta Base: accepted iff valid for a decoder without dynamic table, decoded fields equal the independent decoding.",
   note="One decode costs CBMC about a minute, so one case per harness (10 quick, 58 thorough). Bytes that carry length or index bits are concrete per harness (a symbolic one sizes a heap allocation); string contents, the size limit and prefix bytes are symbolic. Not covered: the encode side (always Huffman-codes literals; the Huffman encoder cannot be executed by CBMC), Huffman-coded strings inside field lines beyond one harness, 'all strings up to 3 bytes' as a single query. " + K_TRUST, ref="DESIGN.md §5 C11"),
 "C13": dict(engine="K", technique=K_TECH,
   text="Config -> SETTINGS for ALL u64 values and all boolean options, grease on/off with fastrand::u64 stubbed to ANY value in range: the conversion refuses exactly the unrepresentable configurations (>= 2^62) and otherwise the bytes written at the start of the control stream are 00 04 len + each configured (id,value) exactly once, no HTTP/2-reserved id, at most one extra id of the reserved form, <= 64 bytes; Settings::decode on EVERY payload of 0..3 bytes (quick) / 0..5 bytes (thorough) agrees with an RFC 9114 section 7.2.4 reference (reserved id, repeated id, truncated entry, unknown ids ignored, kept entries exact); received settings are applied exactly with protocol defaults for absent ids.",
   note="The asynchronous set-up sequence itself (exactly one SETTINGS frame, first) is one call site and is not solver-checked. Stubs: fastrand::u64. " + K_TRUST, ref="DESIGN.md §5 C13"),
 "C14": dict(engine="K", technique=K_TECH,
   text="Every byte h3 frames passes through the Encode impls and impl Buf for WriteBuf: DATA header for EVERY payload length < 2^62, GOAWAY/CANCEL_PUSH/MAX_PUSH_ID for every id, grease frame/setting/stream-type identifiers for EVERY value the RNG can return (0x1f*N+0x21, < 2^62, never a defined or HTTP/2-reserved id), stream-type prefixes, SETTINGS (C13), WebTransport headers (C19); WriteBuf under arbitrary partial consumption (up to 4 advance calls with symbolic amounts) yields exactly header ++ payload with chunk() never empty while bytes remain.",
   note="Which frames an API program sends and in which order (SETTINGS first, only allowed frames per stream) is the async layer and is not covered here. Payload lengths 0..3 quick / 0..8 thorough for the WriteBuf drains. Stubs: fastrand::u64. " + K_TRUST, ref="DESIGN.md §5 C14"),
 "C15": dict(engine="K", technique=K_TECH,
   text="Prefixed integers in full: round trip and exact RFC bytes for every value < 2^62, every prefix size 1..8 and all flag bits; decode(encode(v)) is Ok(v) or Overflow for EVERY u64; decode of every byte string of 0..12 bytes equals a 128-bit reference or is refused. Huffman decoding of every 0..1-byte string (quick) and every 2-byte string (thorough) against an independent bit-serial RFC 7541 decoder (table from two sources that are not h3); h3's Huffman encode table equals Appendix B for all 256 symbols.",
   note="Known finding (see known_findings.json): all-ones padding of 8 bits or more is accepted. Not covered: the Huffman encoder as an algorithm (39 GB at one symbolic byte), 3-byte and longer Huffman inputs, string literals longer than the shapes of C11. " + K_TRUST, ref="DESIGN.md §5 C15"),
 "C20": dict(engine="K", technique=K_TECH,
   text="Reduced to the arithmetic core: vas.rs add/drop/relative/relative_base/post_base/index/evicted as one-step inductive checks from ANY state satisfying the representation invariant and ANY index (positions equal RFC 9204 absolute index minus dropped; present entries exactly); HeaderPrefix new->encode->decode->get round trip for every capacity 32..256 (quick) / 4096 (thorough), every encoder/decoder insert-count pair within the section 4.5.1.1 window and every base; get(0,0) on arbitrary input.",
   note="NOT claimed: the sentence about agreement over histories, capacity and eviction of referenced entries (DynamicTable uses HashMap/BTreeMap/VecDeque, which CBMC cannot execute). " + K_TRUST, ref="DESIGN.md §5 C20"),
 "C05": dict(engine="M", technique=M_TECH,
   text="Symbolic execution (mirsym, z3) of the MIR of poll_connection_error, handle_connection_error, close_if_needed, convert_to_connection_error, close_connection, ConnectionState::{get,set}_conn_error(_and_wake), CloseStream::handle_connection_error_on_stream / handle_quic_stream_error, composed under a SYMBOLIC SCHEDULE (one integer position per shared-state operation, program order only): one driver making 2 (quick) / 3 (thorough) calls, each either poll_connection_error or handle_connection_error with an arbitrary error, against 1..2 (quick) / 1..3 (thorough) stream tasks each raising an arbitrary h3 or transport connection error. Decided per path combination by z3: no lost wake-up, every reported error is the conversion of the first stored one, close at most once / only by the driver / only for locally detected errors / with the first error's code.",
   note="Contracts (trusted): OnceLock as a write-once cell, futures' AtomicWaker as one slot whose wake() takes and wakes the registered waker, C::close records its code, Clone identity, the two From impls into ErrorOrigin. Granularity: one step per shared-state primitive call, in MIR order. The MIR is regenerated from /repo on every run (nightly -Zunpretty=mir); an unmodelled callee or MIR construct makes the check inconclusive. Counterexamples are replayed natively (/verif/replay, scripted mock transport, pre-emption hooks) before they are reported. Later API calls on request handles other than the raising call are not modelled.", ref="DESIGN.md §5 C05"),
 "C08": dict(engine="M", technique=M_TECH,
   text="One-step inductive checks by symbolic execution of the MIR (z3 decides every branch and property query) from arbitrary pre-states: (A) poll_accept_request_stream_internal with any sent GOAWAY id and up to 2 (quick) / 3 (thorough) arriving client-bidi ids per poll, in any order: handed to the application iff id < GOAWAY id, otherwise stop_sending+reset with H3_REQUEST_REJECTED; (B) first poll of ConnectionInner::shutdown: GOAWAY(id) written iff no id sent before or id smaller, state updated; (C) server shutdown(n) for every n and every last accepted id: announced id greater than every request already handed out and a client-bidi id; (D) client poll_close/process_goaway over every sequence of 2 / 3 GOAWAY ids: H3_ID_ERROR iff not a client-bidi id or larger than the previous one, otherwise recorded and closing set; check_peer_connection_closing refuses iff closing.",
   note="Lemmas taken from engine K (C16 harnesses): StreamId ordering is numeric, StreamId + n saturates keeping the kind, is_request is raw&3==0; From/Into between the u64 newtypes carry the value. Contracts: transport accept returns Pending / error / a client-bidi stream with arbitrary id; poll_requests_completion arbitrary; stream::write's future Pending / Ok / Err. The asynchronous continuation of shutdown after the first await and whole-history interleavings are not explored (each step is checked from an arbitrary state instead). Counterexamples are replayed natively (mock transport) before being reported.", ref="DESIGN.md §5 C08"),
 "C04": dict(engine="M", technique=M_TECH,
   text="Symbolic execution (z3) of one poll of ConnectionInner::poll_control (111 MIR blocks, with poll_grease_stream, InternalConnectionError::new/got_frame_error inlined) from an arbitrary pre-state (got_peer_settings, grease flag, grease step symbolic) over EVERY decoder outcome on the control stream (8 frame kinds, 6 decoder errors, end of stream, reset, unknown and transport errors, pending) and every behaviour of the endpoint's own grease stream (open / send / ready / finish: ok, pending, error): the error raised is exactly the code the property names (MISSING_SETTINGS, FRAME_UNEXPECTED, CLOSED_CRITICAL_STREAM, FRAME_ERROR, SETTINGS_ERROR, ID_ERROR), legal frames are returned, no path takes a frame and returns Pending, the first SETTINGS is applied; plus the role layers (server poll_next_control, client poll_close) over every frame kind poll_control returns.",
   note="NOT covered: ConnectionInner::poll_accept_recv (duplicate control/encoder/decoder streams, unknown stream types, streams closed before their type) — its Vec/iterator/closure plumbing is outside the supported MIR subset for now — and AcceptRecvStream::poll_type. Unknown frame types never surface from the decoder (C02). Contracts: FrameStream::poll_next hands out one arbitrary event per call; transport open/write/finish return ready/pending/error arbitrarily; handle_connection_error is analysed under C05. Counterexamples are replayed natively before being reported.", ref="DESIGN.md §5 C04"),
 "C03": dict(engine="M", technique=M_TECH,
   text="Symbolic execution (z3) of the MIR of server::RequestResolver::accept_with_frame and connection::RequestStream::{poll_recv_data, poll_recv_trailers} (with the frame-stream error mapping, handle_quic_stream_error and InternalConnectionError::{new,got_frame_error} inlined), driven through the documented call pattern (accept; recv_data until None; recv_trailers) against a symbolic decoder script: at every decoder call each of 16 letters (HEADERS, DATA(0), DATA(n), CANCEL_PUSH, SETTINGS, GOAWAY, MAX_PUSH_ID, PUSH_PROMISE, HTTP/2-reserved, malformed, truncated, FIN, RESET(any code), transport stream error, connection close, pending) is explored, scripts of up to 4 (quick) / 5 (thorough) decoder events; DATA payload delivery with chunking, pending, reset and truncation inside the payload; QPACK decoder and field validators accept / refuse for size / refuse as malformed. Every path is compared with the property's verdict computed from the consumed script. C03 part: valid sequences deliver the message, end-of-body only when the body really ended, first out-of-sequence known frame is H3_FRAME_UNEXPECTED, FIN before HEADERS is reset + stream error H3_REQUEST_INCOMPLETE without connection error.",
   note="Server receive side only (the client's recv_response coroutine is not analysed; the client shares poll_recv_data/poll_recv_trailers). Unknown frame types never surface from the decoder (C02). 'Every payload byte exactly once and in order' is covered only as: a chunk is handed out exactly when the decoder contract delivers one (the byte-level buffer handling is BufList/Bytes, outside the subset). Contracts: FrameStream::{poll_next,poll_data,has_data,is_eos}, decode_stateless, Header::try_from; handle_connection_error_on_stream is analysed under C05. Counterexamples are replayed natively before being reported.", ref="DESIGN.md §5 C03"),
 "C07": dict(engine="M", technique=M_TECH,
   text="Symbolic execution (z3) of the MIR of server::RequestResolver::accept_with_frame and connection::RequestStream::{poll_recv_data, poll_recv_trailers} (with the frame-stream error mapping, handle_quic_stream_error and InternalConnectionError::{new,got_frame_error} inlined), driven through the documented call pattern (accept; recv_data until None; recv_trailers) against a symbolic decoder script: at every decoder call each of 16 letters (HEADERS, DATA(0), DATA(n), CANCEL_PUSH, SETTINGS, GOAWAY, MAX_PUSH_ID, PUSH_PROMISE, HTTP/2-reserved, malformed, truncated, FIN, RESET(any code), transport stream error, connection close, pending) is explored, scripts of up to 4 (quick) / 5 (thorough) decoder events; DATA payload delivery with chunking, pending, reset and truncation inside the payload; QPACK decoder and field validators accept / refuse for size / refuse as malformed. Every path is compared with the property's verdict computed from the consumed script. C07 part: RESET(code) is StreamError::RemoteTerminate{code} with the peer's code, a transport-specific stream error is passed through as Undefined, an oversized trailer section is HeaderTooBig, malformed trailers are StreamError H3_MESSAGE_ERROR + stop_sending, FIN before HEADERS is H3_REQUEST_INCOMPLETE: on none of these paths is the shared connection-error cell written (no set_conn_error*, no handle_connection_error_on_stream, no close).",
   note="The isolation argument is: request handles share only SharedState, and the analysed functions do not write it on stream-scoped fault paths. That concurrent healthy requests receive exactly their own bytes is by construction (separate per-stream buffers) and is NOT solver-checked; ResolvedRequest::resolve (malformed request headers, 431 answer) and send-side STOP_SENDING handling are async coroutines that are not analysed.", ref="DESIGN.md §5 C07"),
 # --- more checks are appended above this line ---
}

NA = {
 "C01": "not applicable to solver-based checking of the real code: the property is the end-to-end composition client API -> http types -> QPACK encoder (Huffman) -> framing -> transport fragmentation -> incremental decode -> QPACK decoder -> http types -> server API under all task interleavings; the Huffman encoder (39 GB at one symbolic byte), http::HeaderMap/Uri (25 min timeout on a 2-byte name), BufList<Bytes> (does not finish on concrete data) and async tasks cannot be encoded together within any bound that still contains a message. Its encodable pieces are decided under C02, C10, C11, C14, C15.",
 "C17": "not applicable: every clause is about quinn::{SendStream,RecvStream,Connection} objects, which only exist inside a live connection (TLS handshake with ring assembly, tokio tasks, UDP socket); none of that can be executed symbolically and Kani stubs cannot fabricate the objects.",
}
PLANNED = "check not built yet (work in progress; planned scope in DESIGN.md)"

def main():
    props = [json.loads(l) for l in open(os.path.join(VERIF, "properties.jsonl"))]
    hooks = subprocess.run(["git", "-C", "/repo", "log", "--format=%h %s"], capture_output=True, text=True).stdout.split("\n")
    hook_commits = [l.split()[0] for l in hooks if l and "verif hook" in l]
    served_k = sorted(p for p, c in CHECKS.items() if "K" in c["engine"])
    served_m = sorted(p for p, c in CHECKS.items() if "M" in c["engine"])
    man = {
     "version": 1,
     "setup_cmd": "./setup.sh",
     "hooks": {
      "guard": "--cfg hyperium_h3_verif",
      "enable": "RUSTFLAGS=\"--cfg hyperium_h3_verif\" (set by ./check for cargo kani, the MIR dump and the native replay crate); the out-of-tree crates enable h3's feature i-implement-a-third-party-backend-and-opt-into-breaking-changes",
      "baseline_off_cmd": "cd /repo && cargo test --workspace --no-fail-fast --offline",
      "source_commits": hook_commits,
      "add_only": True,
     },
     "engines": [
      {"name": "K", "path": "kani/", "serves_properties": served_k,
       "kind_free_text": "Kani 0.68 / CBMC 6.11 bounded model checking of #[kani::proof] harnesses over the compiled h3 crates: inputs are kani::any(), properties are assertions (mostly differential against RFC reference models), unwinding assertions on, verdict by the SAT solver"},
      {"name": "M", "path": "mirsym/", "serves_properties": served_m,
       "kind_free_text": "mirsym: symbolic executor (Python + z3) over the MIR rustc dumps from /repo's current source on every run; callees outside the analysed set are contract stubs; counterexamples replayed natively through a scripted mock transport"},
     ],
     "checks": [],
     "not_applicable": [],
     "notes": "See DESIGN.md. ./check exit codes: 0 held (KNOWN-FINDING lines for entries of known_findings.json), 1 violation (VIOLATION line), 2 inconclusive (timeout/OOM/vacuous/unmodelled/non-reproducing counterexample; never success).",
    }
    for p in props:
        pid = p["id"]
        if pid in CHECKS:
            c = CHECKS[pid]
            man["checks"].append({
             "property_id": pid,
             "quick_cmd": f"./check {pid} --tier quick",
             "thorough_cmd": f"./check {pid} --tier thorough",
             "evidence_file": f"evidence/{pid}.json",
             "replay_cmd_template": "./check --replay {path}",
             "engine": c["engine"],
             "level_claimed": {"category": "model_checking", "text": c["text"], "design_ref": c["ref"]},
             "level_note": c["note"],
             "technique": c["technique"],
            })
        else:
            man["not_applicable"].append({"property_id": pid, "reason": NA.get(pid, PLANNED)})
    jsonschema.validate(man, json.load(open("/root/.vp/MANIFEST.schema.json")))
    json.dump(man, open(os.path.join(VERIF, "MANIFEST.json"), "w"), indent=1)
    print("MANIFEST.json written:", len(man["checks"]), "checks,", len(man["not_applicable"]), "not applicable")

main()
