#!/usr/bin/env python3
"""Print the markdown table of seeded changes (DESIGN.md §8.6) from seeded/*/meta.json."""
import json, os, re
VERIF = os.path.dirname(os.path.dirname(os.path.abspath(__file__)))
rows = []
for d in sorted(os.listdir(os.path.join(VERIF, "seeded"))):
    mp = os.path.join(VERIF, "seeded", d, "meta.json")
    if not os.path.exists(mp):
        continue
    m = json.load(open(mp))
    res = []
    for chk, r in m.get("check_results", {}).items():
        keys = []
        for l in r.get("lines", []):
            k = re.search(r"failing assertion: ([\w.:@<> -]+?) —", l)
            if k:
                keys.append(k.group(1).strip())
        verdict = {0: "**missed** (exit 0)", 1: "caught", 2: "inconclusive (exit 2)", None: "not run"}.get(r.get("exit"), str(r.get("exit")))
        if r.get("wall_s") is not None:
            verdict += f", {r['wall_s']} s"
        note = r.get("note")
        res.append(f"`./check {chk}`: {verdict}" + (f" — {', '.join(sorted(set(keys))[:3])}" if keys else "") + (f" ({note})" if note else ""))
    rows.append((d, m.get("property", d.split('-')[1]), m.get("change", ""), m.get("needs", ""), "<br>".join(res) or "not run", m.get("status_note", "")))
print("| seed | property | change | needs, to manifest | result on the final tree |")
print("|---|---|---|---|---|")
esc = lambda t: t.replace("|", "\\|")
for d, p, c, n, r, sn in rows:
    c, n, r, sn = esc(c), esc(n), esc(r), esc(sn)
    print(f"| {d} | {p} | {c} | {n} | {r}{(' ' + sn) if sn else ''} |")
