#!/bin/bash
# Offline set-up after a fresh restore:
#  1. warm the per-worker Kani target dirs (dependency rlibs), so the first check does not pay the cold build 8 times;
#  2. validate the reference models natively against the repository's own data (static table rows, Huffman codes,
#     prefix-int vectors): a mismatch fails the set-up (the checks would compare against a wrong oracle);
#  3. build the native replay crate and warm the MIR dump used by engine M.
set -u
cd "$(dirname "$0")"
export CARGO_NET_OFFLINE=true
export RUSTFLAGS="--cfg hyperium_h3_verif"
mkdir -p .build/logs evidence
cp -f /repo/Cargo.lock kani/Cargo.lock
cp -f /repo/Cargo.lock kani/Cargo.lock.src
cp -f /repo/Cargo.lock replay/Cargo.lock
cp -f /repo/Cargo.lock replay_quinn/Cargo.lock
pids=()
for i in 0 1 2 3 4 5 6 7; do
  ( cd kani && cargo kani --target-dir "../.build/w$i" --only-codegen -Z stubbing \
      --harness c16::c16_streamid_order_is_numeric --exact > "../.build/logs/setup_w$i.log" 2>&1 ) &
  pids+=($!)
done
rc=0
for p in "${pids[@]}"; do wait "$p" || rc=1; done
if [ $rc -ne 0 ]; then echo "setup: warming a Kani target dir failed, see .build/logs/setup_w*.log"; tail -5 .build/logs/setup_w0.log; fi
( cd kani && cargo test --offline --target-dir ../.build/native > ../.build/logs/setup_refmodel.log 2>&1 ) \
  || { echo "setup: native validation of the reference models FAILED, see .build/logs/setup_refmodel.log"; tail -20 .build/logs/setup_refmodel.log; rc=1; }
( cd replay && cargo build --offline --target-dir ../.build/replay > ../.build/logs/setup_replay.log 2>&1 ) \
  || { echo "setup: replay crate does not build, see .build/logs/setup_replay.log"; tail -20 .build/logs/setup_replay.log; rc=1; }
( cd replay_quinn && env -u RUSTFLAGS cargo build --offline --target-dir ../.build/replay_quinn > ../.build/logs/setup_replay_quinn.log 2>&1 ) \
  || { echo "setup: quinn replay crate does not build (only needed to replay C17 counterexamples), see .build/logs/setup_replay_quinn.log"; tail -5 .build/logs/setup_replay_quinn.log; }
python3-vt -c "
import sys; sys.path.insert(0, '.')
from mirsym import engine as E
L = E.Loaded()
print('setup: MIR dump ok,', len(L.fns), 'functions,', len(L.consts), 'named constants')
Q = E.Loaded('h3-quinn')
print('setup: MIR dump of h3-quinn ok,', len(Q.fns), 'functions')
" || { echo "setup: MIR dump / z3 bindings failed"; rc=1; }
exit $rc
