#!/bin/bash
# Offline set-up after a fresh restore: warm the per-worker Kani target dirs (dependency rlibs)
# so that the first check does not pay the cold build 8 times in sequence.
set -u
cd "$(dirname "$0")"
export CARGO_NET_OFFLINE=true
export RUSTFLAGS="--cfg hyperium_h3_verif"
mkdir -p .build/logs evidence
cp -f /repo/Cargo.lock kani/Cargo.lock
cp -f /repo/Cargo.lock kani/Cargo.lock.src
pids=()
for i in 0 1 2 3 4 5 6 7; do
  ( cd kani && cargo kani --target-dir "../.build/w$i" --only-codegen -Z stubbing \
      --harness c16::c16_streamid_order_is_numeric --exact > "../.build/logs/setup_w$i.log" 2>&1 ) &
  pids+=($!)
done
rc=0
for p in "${pids[@]}"; do wait "$p" || rc=1; done
if [ $rc -ne 0 ]; then echo "setup: warming a Kani target dir failed, see .build/logs/setup_w*.log"; tail -5 .build/logs/setup_w0.log; fi
python3-vt -c "import z3" || { echo "z3 python bindings missing"; rc=1; }
exit $rc
