"""Contract stubs for callees outside the analysed set (DESIGN.md §2.3 / §2.8).

A contract is `f(ex, st, key, argv, dest_ty, raw_callee) -> [Case, ...]`. Phase 1 (the call itself) runs on the
current state and may materialise lazy discriminants/fields of its arguments; each returned `Case(cond, apply)` is
then run by the executor on its own copy of the state with the arguments re-read there.

Exact models: std combinators on Option/Result/Poll, Try/FromResidual, From/Into identity, Clone, Deref.
Boundary models (nondeterministic within the documented contract) live with the specs.
"""
import copy
import re
import z3

from .sym import Obj, Ref, Cell, UNIT, FnItem, Case, Inconclusive, Unsupported, strip_generics
from .mir import split_top


def const(v):
    return [Case(None, lambda ex, st, argv: v)]


def deref(v):
    while isinstance(v, Ref):
        v = v.cell.v
    return v


def strip_ref_ty(t):
    t = t.strip()
    m = re.match(r"^&(?:'\w+ )?(?:mut )?(.*)$", t)
    return m.group(1) if m else t


def payload_type(ty, variant):
    """Best-effort payload type of Result/Option/Poll/ControlFlow from the type string."""
    t = ty.strip()
    m = re.match(r"^(?:[\w:]+::)?(Result|Option|Poll|ControlFlow)<(.*)>$", t)
    if not m:
        return None
    parts = split_top(m.group(2), ", ")
    head = m.group(1)
    if head == "Result":
        return parts[0] if variant == "Ok" else (parts[1] if len(parts) > 1 else None)
    if head in ("Option", "Poll"):
        return parts[0]
    if head == "ControlFlow":
        return parts[1] if variant == "Continue" and len(parts) > 1 else parts[0]
    return None


def payload(ex, obj, variant, idx=0, ty=None):
    c = obj.fields.get((variant, idx))
    if c is not None and c.v is not None:
        return c.v
    t = payload_type(obj.ty, variant) or ty
    if t is None:
        raise Unsupported(f"payload type of {obj.ty}::{variant} unknown")
    return ex.field(obj, variant, idx, t).v


def enum_cases(ex, st, obj, table):
    """table: variant -> apply(ex, st, argv)."""
    return [Case(ex.variant_is(st, obj, v), f) for v, f in table.items()]


# ---------------------------------------------------------------------------------------------

def c_identity(ex, st, key, argv, dest_ty, raw):
    return [Case(None, lambda ex, st, a: a[0])]


def c_unit(ex, st, key, argv, dest_ty, raw):
    return const(UNIT)


def c_opaque(ex, st, key, argv, dest_ty, raw):
    return [Case(None, lambda ex, st, a: ex.fresh(dest_ty, "op"))]


def c_clone(ex, st, key, argv, dest_ty, raw):
    def ap(ex, st, a):
        v = a[0]
        if isinstance(v, Ref):
            if v.cell.v is None:
                v.cell.v = ex.fresh(dest_ty, "cl")
            v = v.cell.v
        return copy.deepcopy(v)
    return [Case(None, ap)]


def c_is_variant(variant_by_suffix):
    def f(ex, st, key, argv, dest_ty, raw):
        o = deref(argv[0])
        suffix = key.split("::")[-1]
        return const(ex.variant_is(st, o, variant_by_suffix[suffix]))
    return f


def c_option_take(ex, st, key, argv, dest_ty, raw):
    def ap(ex, st, a):
        r = a[0]
        old = r.cell.v
        if old is None:
            old = ex.fresh(dest_ty, "tk")
        r.cell.v = ex.make_enum(dest_ty, "None")
        return old
    return [Case(None, ap)]


def c_option_replace(ex, st, key, argv, dest_ty, raw):
    def ap(ex, st, a):
        r = a[0]
        old = r.cell.v
        if old is None:
            old = ex.fresh(dest_ty, "rp")
        r.cell.v = ex.make_enum(dest_ty, "Some", [a[1]])
        return old
    return [Case(None, ap)]


def c_option_as_ref(ex, st, key, argv, dest_ty, raw):
    o = deref(argv[0])
    inner = strip_ref_ty(payload_type(dest_ty, "Some") or "&?")

    def some(ex, st, a):
        o2 = deref(a[0])
        c = ex.field(o2, "Some", 0, inner)
        return ex.make_enum(dest_ty, "Some", [Ref(c)])
    return enum_cases(ex, st, o, {"None": lambda ex, st, a: ex.make_enum(dest_ty, "None"), "Some": some})


def c_option_cloned(ex, st, key, argv, dest_ty, raw):
    o = argv[0]
    inner = payload_type(dest_ty, "Some") or "?"

    def some(ex, st, a):
        r = payload(ex, a[0], "Some", 0, "&" + inner)
        v = deref(r)
        if v is None:
            v = r.cell.v = ex.fresh(inner, "cl")
        return ex.make_enum(dest_ty, "Some", [copy.deepcopy(v)])
    return enum_cases(ex, st, o, {"None": lambda ex, st, a: ex.make_enum(dest_ty, "None"), "Some": some})


def c_option_unwrap_or(ex, st, key, argv, dest_ty, raw):
    o = argv[0]
    return enum_cases(ex, st, o, {"None": lambda ex, st, a: a[1],
                                  "Some": lambda ex, st, a: payload(ex, a[0], "Some", 0, dest_ty)})


def c_unwrap(kind):
    """Option::unwrap/expect, Result::unwrap/expect: the failing variant is a reachable panic."""
    good = {"Option": "Some", "Result": "Ok"}[kind]
    bad = {"Option": "None", "Result": "Err"}[kind]

    def f(ex, st, key, argv, dest_ty, raw):
        o = argv[0]

        def panic(ex, st, a):
            st.effects.append(("panic", f"{key} on {bad}", st.frames[-1].fn.short(), st.frames[-1].block))
            st.world["__panicked"] = True
            return ex.fresh(dest_ty, "never")
        return enum_cases(ex, st, o, {good: lambda ex, st, a: payload(ex, a[0], good, 0, dest_ty), bad: panic})
    return f


def c_try_branch(ex, st, key, argv, dest_ty, raw):
    x = argv[0]
    if not isinstance(x, Obj):
        raise Unsupported("Try::branch on " + repr(x))
    head = strip_generics(x.ty).split("::")[-1]

    def brk(e):
        res = Obj("Result<Infallible, E>", z3.BitVecVal(1, 64))
        res.fields[("Err", 0)] = Cell(e)
        return res
    if head == "Result":
        return enum_cases(ex, st, x, {
            "Ok": lambda ex, st, a: ex.make_enum("ControlFlow", "Continue", [payload(ex, a[0], "Ok")]),
            "Err": lambda ex, st, a: ex.make_enum("ControlFlow", "Break", [brk(payload(ex, a[0], "Err"))]),
        })
    if head == "Option":
        return enum_cases(ex, st, x, {
            "Some": lambda ex, st, a: ex.make_enum("ControlFlow", "Continue", [payload(ex, a[0], "Some")]),
            "None": lambda ex, st, a: ex.make_enum("ControlFlow", "Break", [Obj("Option<Infallible>", z3.BitVecVal(0, 64))]),
        })
    if head == "Poll":
        inner = payload(ex, x, "Ready", 0, "Result<?, ?>")
        if not isinstance(inner, Obj):
            raise Unsupported("Poll::Ready payload is not a Result")
        is_ready = ex.variant_is(st, x, "Ready")
        ok = ex.variant_is(st, inner, "Ok")
        err = ex.variant_is(st, inner, "Err")
        return [
            Case(ex.variant_is(st, x, "Pending"),
                 lambda ex, st, a: ex.make_enum("ControlFlow", "Continue", [ex.make_enum("Poll", "Pending")])),
            Case(z3.And(is_ready, ok),
                 lambda ex, st, a: ex.make_enum("ControlFlow", "Continue", [ex.make_enum("Poll", "Ready", [
                     payload(ex, payload(ex, a[0], "Ready"), "Ok")])])),
            Case(z3.And(is_ready, err),
                 lambda ex, st, a: ex.make_enum("ControlFlow", "Break", [brk(payload(ex, payload(ex, a[0], "Ready"), "Err"))])),
        ]
    raise Unsupported("Try::branch on " + x.ty)


def c_from_residual(ex, st, key, argv, dest_ty, raw):
    """from_residual(Result<Infallible,E>) -> Result<T,F> | Poll<Result<T,F>>, F: From<E>. In the analysed set E == F
    (identity From) except where a spec lists an explicit error conversion."""
    head = strip_generics(dest_ty).split("::")[-1]

    def ap(ex, st, a):
        r = a[0]
        if "Option" in r.ty.split("<")[0]:
            if head == "Option":
                return ex.make_enum(dest_ty, "None")
            raise Unsupported("from_residual Option -> " + dest_ty)
        e = payload(ex, r, "Err", 0, "?")
        if head == "Result":
            return ex.make_enum(dest_ty, "Err", [e])
        if head == "Poll":
            inner_ty = payload_type(dest_ty, "Ready") or "Result<?, ?>"
            return ex.make_enum(dest_ty, "Ready", [ex.make_enum(inner_ty, "Err", [e])])
        raise Unsupported("from_residual into " + dest_ty)
    return [Case(None, ap)]


def c_deref_like(ex, st, key, argv, dest_ty, raw):
    def ap(ex, st, a):
        v = a[0]
        if isinstance(v, Ref) and isinstance(v.cell.v, Ref):
            return v.cell.v          # &&T -> &T, &Pin<&mut T> handled below
        if isinstance(v, Ref):
            inner = v.cell.v
            if inner is None:
                inner = v.cell.v = Obj("?wrapper")
            v = inner
        if isinstance(v, Obj):
            c = v.fields.get((None, 0))
            if c is not None and isinstance(c.v, Ref):
                return c.v           # Pin { pointer }
            return Ref(ex.field(v, "deref", 0, strip_ref_ty(dest_ty)))
        raise Unsupported("Deref on " + repr(v))
    return [Case(None, ap)]


def c_pin_new(ex, st, key, argv, dest_ty, raw):
    def ap(ex, st, a):
        o = Obj(dest_ty)
        o.fields[(None, 0)] = Cell(a[0])
        return o
    return [Case(None, ap)]


def c_newtype_conv(ex, st, key, argv, dest_ty, raw):
    """From/Into between the u64 newtypes VarInt / StreamId / PushId / SessionId (field 0 carried over; these impls are
    one-liners `Self(v.0)`, and the analysed code is generic in T so they only appear as trait calls)."""
    def ap(ex, st, a):
        v = deref(a[0])
        if not isinstance(v, Obj):
            raise Unsupported("newtype conversion of " + repr(v))
        o = Obj(dest_ty)
        o.fields[(None, 0)] = Cell(ex.field(v, None, 0, "u64").v)
        return o
    return [Case(None, ap)]


def c_newtype_cmp(ex, st, key, argv, dest_ty, raw):
    """Derived PartialOrd/PartialEq on the u64 newtypes = unsigned comparison of field 0 (proved for StreamId by the Kani
    harness c16_streamid_order_is_numeric; VarInt and PushId derive the same impls on the same representation)."""
    op = key.split("::")[-1]
    import z3 as _z3
    f = {"lt": _z3.ULT, "le": _z3.ULE, "gt": _z3.UGT, "ge": _z3.UGE, "eq": lambda a, b: a == b, "ne": lambda a, b: a != b}[op]

    def ap(ex, st, a):
        x = ex.field(deref(a[0]), None, 0, "u64").v
        y = ex.field(deref(a[1]), None, 0, "u64").v
        return f(x, y)
    return [Case(None, ap)]


def c_option_get_or_insert(ex, st, key, argv, dest_ty, raw):
    """Option::get_or_insert(&mut self, v) -> &mut T ; Option::insert(&mut self, v) -> &mut T"""
    o = deref(argv[0])
    inner_ty = strip_ref_ty(dest_ty)
    is_insert = key.endswith("::insert")

    def some(ex, st, a):
        o2 = deref(a[0])
        if is_insert:
            a[0].cell.v = ex.make_enum(o2.ty, "Some", [a[1]])
            o2 = a[0].cell.v
        return Ref(ex.field(o2, "Some", 0, inner_ty))

    def none(ex, st, a):
        o2 = deref(a[0])
        a[0].cell.v = ex.make_enum(o2.ty, "Some", [a[1]])
        return Ref(a[0].cell.v.fields[("Some", 0)])
    return enum_cases(ex, st, o, {"Some": some, "None": none})


def c_option_or(ex, st, key, argv, dest_ty, raw):
    o = argv[0]
    return enum_cases(ex, st, o, {"Some": lambda ex, st, a: a[0], "None": lambda ex, st, a: a[1]})


def c_int_minmax(ex, st, key, argv, dest_ty, raw):
    op = key.split("::")[-1]

    def ap(ex, st, a):
        x, y = a[0], a[1]
        if op == "min":
            return z3.If(z3.ULE(x, y), x, y)
        return z3.If(z3.UGE(x, y), x, y)
    return [Case(None, ap)]


def c_int_cmp(ex, st, key, argv, dest_ty, raw):
    op = key.split("::")[-1]
    f = {"lt": z3.ULT, "le": z3.ULE, "gt": z3.UGT, "ge": z3.UGE, "eq": lambda a, b: a == b, "ne": lambda a, b: a != b}[op]
    return [Case(None, lambda ex, st, a: f(deref(a[0]), deref(a[1])))]


def c_saturating_sub(ex, st, key, argv, dest_ty, raw):
    return [Case(None, lambda ex, st, a: z3.If(z3.ULT(a[0], a[1]), z3.BitVecVal(0, a[0].size()), a[0] - a[1]))]


def c_wrapping(ex, st, key, argv, dest_ty, raw):
    op = key.split("::")[-1]
    return [Case(None, lambda ex, st, a: a[0] + a[1] if op == "wrapping_add" else a[0] - a[1])]


def c_checked(ex, st, key, argv, dest_ty, raw):
    op = key.split("::")[-1]

    def cases_for(ex, st, a0, a1):
        n = a0.size()
        if op == "checked_add":
            wide = z3.ZeroExt(1, a0) + z3.ZeroExt(1, a1)
            ovf = z3.Extract(n, n, wide) == 1
            val = a0 + a1
        else:
            ovf = z3.ULT(a0, a1)
            val = a0 - a1
        return ovf, val
    ovf, _ = cases_for(ex, st, argv[0], argv[1])
    return [Case(ovf, lambda ex, st, a: ex.make_enum(dest_ty, "None")),
            Case(z3.Not(ovf), lambda ex, st, a: ex.make_enum(dest_ty, "Some", [cases_for(ex, st, a[0], a[1])[1]]))]


def c_option_ok_or(ex, st, key, argv, dest_ty, raw):
    o = argv[0]
    return enum_cases(ex, st, o, {"Some": lambda ex, st, a: ex.make_enum(dest_ty, "Ok", [payload(ex, a[0], "Some", 0, payload_type(dest_ty, "Ok"))]),
                                  "None": lambda ex, st, a: ex.make_enum(dest_ty, "Err", [a[1]])})


def c_slice_first(ex, st, key, argv, dest_ty, raw):
    """<[u8]>::first: Some(&s[0]) iff the slice is not empty"""
    sl = deref(argv[0])
    n = ex.field(sl, "meta", 0, "usize").v

    def some(ex, st, a):
        sl = deref(a[0])
        return ex.make_enum(dest_ty, "Some", [Ref(ex.field(sl, "elem", 0, "u8"))])
    return [Case(n != 0, some), Case(n == 0, lambda ex, st, a: ex.make_enum(dest_ty, "None"))]


def c_slice_len(ex, st, key, argv, dest_ty, raw):
    return [Case(None, lambda ex, st, a: ex.field(deref(a[0]), "meta", 0, "usize").v)]


def c_option_transpose(ex, st, key, argv, dest_ty, raw):
    """Option<Result<T, E>>::transpose"""
    o = argv[0]
    ok_ty = payload_type(dest_ty, "Ok") or "Option<?>"

    def some(ex, st, a):
        inner = payload(ex, a[0], "Some", 0, "Result<?, ?>")
        return inner
    cases = []
    c_none = ex.variant_is(st, o, "None")
    inner0 = payload(ex, o, "Some", 0, "Result<?, ?>") if ex.feasible(st, ex.variant_is(st, o, "Some")) else None
    cases.append(Case(c_none, lambda ex, st, a: ex.make_enum(dest_ty, "Ok", [ex.make_enum(ok_ty, "None")])))
    if inner0 is not None:
        c_some = ex.variant_is(st, o, "Some")
        cases.append(Case(z3.And(c_some, ex.variant_is(st, inner0, "Ok")),
                          lambda ex, st, a: ex.make_enum(dest_ty, "Ok", [ex.make_enum(ok_ty, "Some", [payload(ex, payload(ex, a[0], "Some", 0, "Result<?, ?>"), "Ok")])])))
        cases.append(Case(z3.And(c_some, ex.variant_is(st, inner0, "Err")),
                          lambda ex, st, a: ex.make_enum(dest_ty, "Err", [payload(ex, payload(ex, a[0], "Some", 0, "Result<?, ?>"), "Err")])))
    return cases


def c_saturating_add(ex, st, key, argv, dest_ty, raw):
    def ap(ex, st, a):
        x, y = a[0], a[1]
        n = x.size()
        wide = z3.ZeroExt(1, x) + z3.ZeroExt(1, y)
        return z3.If(z3.Extract(n, n, wide) == 1, z3.BitVecVal((1 << n) - 1, n), z3.Extract(n - 1, 0, wide))
    return [Case(None, ap)]


def std_contracts():
    return [
        (r"^core::num::(usize|u64|u32)::saturating_add$", c_saturating_add),
        (r"^core::num::(usize|u64|u32)::saturating_sub$", c_saturating_sub),
        (r"^core::num::(usize|u64|u32)::(wrapping_add|wrapping_sub)$", c_wrapping),
        (r"^core::num::(usize|u64|u32)::(checked_add|checked_sub)$", c_checked),
        (r"^(std|core)::cmp::(min|max)$|^(usize|u64|u32) as Ord::(min|max)$|^Ord::(min|max)$|^cmp::(min|max)$", c_int_minmax),
        (r"^(usize|u64|u32|u8|bool) as Partial(Ord|Eq)::(lt|le|gt|ge|eq|ne)$", c_int_cmp),
        (r"^Option::get_or_insert$|^Option::insert$", c_option_get_or_insert),
        (r"^Option::or$", c_option_or),
        (r"^Option::ok_or$", c_option_ok_or),
        (r"^Option::transpose$", c_option_transpose),
        (r"^core::slice::<impl \[T\]>::first$|^\[T\]::first$|slice::.*::first$|^\[u8\]::first$", c_slice_first),
        (r"^core::slice::<impl \[T\]>::len$|^\[T\]::len$|^\[u8\]::len$", c_slice_len),
        (r"^(VarInt|StreamId|PushId|SessionId|T) as (From|Into)::(from|into)$", c_newtype_conv),
        (r"^(VarInt|StreamId|PushId|T) as Partial(Ord|Eq)::(lt|le|gt|ge|eq|ne)$", c_newtype_cmp),
        (r"^core::fmt::rt::Argument::new_|^Argument::new_|^Arguments::new|^format$|^core::fmt::rt::Argument", c_opaque),
        (r"^must_use$", c_identity),
        (r" as Clone::clone$", c_clone),
        (r"^Option::cloned$|^Option::copied$", c_option_cloned),
        (r" as Try::branch$", c_try_branch),
        (r" as FromResidual::from_residual$", c_from_residual),
        (r"^Option::is_some$|^Option::is_none$", c_is_variant({"is_some": "Some", "is_none": "None"})),
        (r"^Result::is_ok$|^Result::is_err$", c_is_variant({"is_ok": "Ok", "is_err": "Err"})),
        (r"^Poll::is_ready$|^Poll::is_pending$", c_is_variant({"is_ready": "Ready", "is_pending": "Pending"})),
        (r"^Option::take$", c_option_take),
        (r"^Option::replace$", c_option_replace),
        (r"^Option::as_ref$|^Option::as_mut$", c_option_as_ref),
        (r"^Option::unwrap_or$", c_option_unwrap_or),
        (r"^Option::unwrap$|^Option::expect$", c_unwrap("Option")),
        (r"^Result::unwrap$|^Result::expect$", c_unwrap("Result")),
        (r" as Deref::deref$| as DerefMut::deref_mut$|^Pin::get_mut$|^Pin::into_inner$|^Pin::as_mut$|^Pin::get_ref$|^Pin::get_unchecked_mut$", c_deref_like),
        (r"^Pin::new$|^Pin::new_unchecked$", c_pin_new),
        (r"IntoFuture::into_future$", c_identity),
        (r"^Context::waker$", c_opaque),
        (r"^String::as_bytes$|^String::as_str$|^str::as_bytes$", c_opaque),
        (r" as ToString::to_string$|^alloc::fmt::format$|^std::fmt::format$|^core::fmt::rt::|^Arguments::new|^format_args|^std::fmt::Arguments::|^fmt::Arguments::", c_opaque),
        (r"^(verif_hooks::)?preempt$", c_unit),
    ]
