"""Enum variant tables: variant order (= discriminant index) read from /repo's current source, plus the
std enums the analysed MIR uses. Used when an aggregate constructs an enum value or a contract builds one."""
import os
import re

STD = {
    "Option": ["None", "Some"],
    "Result": ["Ok", "Err"],
    "Poll": ["Ready", "Pending"],
    "ControlFlow": ["Continue", "Break"],
    "Cow": ["Borrowed", "Owned"],
    "Infallible": [],
}
STD_VALUES = {"Ordering": {"Less": -1, "Equal": 0, "Greater": 1}}


def _strip_comments(src):
    src = re.sub(r"//[^\n]*", "", src)
    src = re.sub(r"/\*.*?\*/", "", src, flags=re.S)
    return src


def _match_brace(s, i):
    d = 0
    for j in range(i, len(s)):
        if s[j] == "{":
            d += 1
        elif s[j] == "}":
            d -= 1
            if d == 0:
                return j
    return -1


def _split_variants(body):
    out = []
    depth = 0
    cur = ""
    for c in body:
        if c in "([{<":
            depth += 1
        elif c in ")]}>":
            depth -= 1
        if c == "," and depth == 0:
            out.append(cur)
            cur = ""
        else:
            cur += c
    if cur.strip():
        out.append(cur)
    return out


def scan(roots=("/repo/h3/src", "/repo/h3-datagram/src")):
    """Return dict: qualified name ('error::internal_error::ErrorOrigin') -> list of (variant, value)."""
    table = {}
    for root in roots:
        prefix = []
        if isinstance(root, tuple):
            root, pfx = root
            prefix = [pfx]
        for dp, _, files in os.walk(root):
            for fn in files:
                if not fn.endswith(".rs"):
                    continue
                path = os.path.join(dp, fn)
                rel = os.path.relpath(path, root)[:-3]
                mod = [p for p in rel.split(os.sep) if p not in ("mod", "lib")]
                src = _strip_comments(open(path, errors="replace").read())
                for m in re.finditer(r"\benum\s+(\w+)\s*(<[^{;]*?>)?\s*(where[^{]*)?\{", src):
                    name = m.group(1)
                    start = m.end() - 1
                    end = _match_brace(src, start)
                    if end < 0:
                        continue
                    body = src[start + 1:end]
                    variants = []
                    nextval = 0
                    for v in _split_variants(body):
                        v = re.sub(r"#\[[^\]]*\]", "", v, flags=re.S).strip()
                        # nested attribute brackets (cfg_attr(..., ...)) may survive: drop leading #[...] greedily
                        while v.startswith("#["):
                            d = 0
                            k = 0
                            for k, ch in enumerate(v):
                                if ch == "[":
                                    d += 1
                                elif ch == "]":
                                    d -= 1
                                    if d == 0:
                                        break
                            v = v[k + 1:].strip()
                        mv = re.match(r"^(\w+)", v)
                        if not mv:
                            continue
                        val = nextval
                        me = re.search(r"=\s*(-?\d+)\s*$", v)
                        if me:
                            val = int(me.group(1))
                        variants.append((mv.group(1), val))
                        nextval = val + 1
                    q = "::".join(prefix + mod + [name])
                    table[q] = variants
    return table


class EnumTable:
    def __init__(self, table=None):
        self.table = table if table is not None else scan()
        self.by_simple = {}
        for q in self.table:
            self.by_simple.setdefault(q.split("::")[-1], []).append(q)

    @staticmethod
    def head(ty):
        """'std::option::Option<Foo<Bar>>' -> 'std::option::Option'"""
        ty = ty.strip()
        for p in ("&mut ", "&"):
            if ty.startswith(p):
                ty = ty[len(p):]
        d = 0
        for i, c in enumerate(ty):
            if c == "<":
                return ty[:i].rstrip(":")
        return ty

    def variants(self, ty):
        """list of (name, value) or None if unknown."""
        h = self.head(ty)
        simple = h.split("::")[-1]
        if simple in STD:
            return [(v, i) for i, v in enumerate(STD[simple])]
        if simple in STD_VALUES:
            return list(STD_VALUES[simple].items())
        cands = self.by_simple.get(simple, [])
        if len(cands) == 1:
            return self.table[cands[0]]
        if len(cands) > 1:
            # disambiguate by module suffix
            best = [q for q in cands if h.endswith(q) or q.endswith(h)]
            if len(best) == 1:
                return self.table[best[0]]
            # a crate-qualified head ('quinn::ConnectionError', 'h3::quic::..'): candidates from that crate (re-exports of
            # quinn_proto appear as quinn::)
            crate = h.split("::")[0]
            best = [q for q in cands if q.split("::")[0] == crate]
            if len(best) == 1:
                return self.table[best[0]]
            fam = {"quinn": ("quinn", "quinn_proto")}.get(crate, (crate,))
            best = [q for q in cands if q.split("::")[0] in fam]
            if len(best) == 1:
                return self.table[best[0]]
            if "::" not in h and all(q.split("::")[0] in ("quinn", "quinn_proto") for q in cands):
                # an unqualified name that only the quinn crates define: the adapter uses quinn's own (not quinn_proto's)
                best = [q for q in cands if q.split("::")[0] == "quinn"]
                if len(best) == 1:
                    return self.table[best[0]]
            if not best and "::" in h:
                # heads without a known crate prefix: prefer the crate under analysis (unprefixed entries)
                pass
            unpref = [q for q in cands if q.split("::")[0] not in ("quinn", "quinn_proto")]
            if crate not in ("quinn", "quinn_proto") and len(unpref) == 1:
                return self.table[unpref[0]]
            # all candidates agree?
            vs = {tuple(self.table[q]) for q in cands}
            if len(vs) == 1:
                return self.table[cands[0]]
        return None

    def index_of(self, ty, variant):
        vs = self.variants(ty)
        if vs is None:
            return None
        for n, v in vs:
            if n == variant:
                return v
        return None

    def name_of(self, ty, index):
        vs = self.variants(ty)
        if vs is None:
            return None
        for n, v in vs:
            if v == index:
                return n
        return None
