"""Registry of mirsym specs and glue to ./check (vcheck/main.py)."""
import json
import os
import re
import subprocess
import time
import traceback

from . import engine as E
from .sym import Inconclusive
from .mir import Unsupported

VERIF = os.path.dirname(os.path.dirname(os.path.abspath(__file__)))
REPLAY_DIR = os.path.join(VERIF, "replay")
REPLAY_BIN = os.path.join(VERIF, ".build", "replay", "debug", "h3-verif-replay")

SPECS = {
    # property -> list of (spec name, module, tiers)
    "C02": [("c02_frame_decoder_memo", "c02m"), ("c02_chunk_list_is_one_buffer", "buflist")],
    "C03": [("c03_request_stream_sequences", "c03"), ("c02_frame_decoder_memo", "c02m"), ("c02_chunk_list_is_one_buffer", "buflist")],
    "C04": [("c04_control_stream_rules", "c04"), ("c02_frame_decoder_memo", "c02m"), ("c19_uni_stream_header", "c19m"), ("c04_uni_stream_classification", "c04b")],
    "C06": [("c02_frame_decoder_memo", "c02m"), ("c19_uni_stream_header", "c19m")],
    "C07": [("c07_stream_scoped_faults", "c03"), ("c02_frame_decoder_memo", "c02m"), ("c10_send_side_limit", "c10m")],
    "C05": [("c05_interleavings", "c05")],
    "C08": [("c08_goaway_rules", "c08")],
    "C09": [("c09_request_end_accounting", "c09")],
    "C10": [("c10_send_side_limit", "c10m")],
    "C11": [("c11_static_table_lookups", "c11m")],
    "C12": [("c12_message_gates", "c12")],
    "C13": [("c13_setup_sequence", "c13m")],
    "C14": [("c13_setup_sequence", "c13m")],
    "C17": [("c17_quinn_adapter", "c17")],
    "C19": [("c19_uni_stream_header", "c19m"), ("c04_uni_stream_classification", "c04b"), ("c02_chunk_list_is_one_buffer", "buflist")],
}


def select(prop, tier, only=None):
    out = []
    for name, mod in SPECS.get(prop, []):
        if only and not re.search(only, name):
            continue
        out.append((name, mod))
    return out


def build_replay(log_dir):
    env = dict(os.environ)
    env["RUSTFLAGS"] = "--cfg hyperium_h3_verif"
    env["CARGO_NET_OFFLINE"] = "true"
    env.pop("RUSTUP_TOOLCHAIN", None)
    lock = os.path.join(REPLAY_DIR, "Cargo.lock")
    if not os.path.exists(lock) and os.path.exists("/repo/Cargo.lock"):
        import shutil
        shutil.copyfile("/repo/Cargo.lock", lock)
    p = subprocess.run(["cargo", "build", "--offline", "--target-dir", os.path.join(VERIF, ".build", "replay")],
                       cwd=REPLAY_DIR, env=env, capture_output=True, text=True, timeout=1200)
    os.makedirs(log_dir, exist_ok=True)
    open(os.path.join(log_dir, "replay_build.log"), "w").write(p.stdout + p.stderr)
    return p.returncode == 0


QUINN_REPLAY_DIR = os.path.join(VERIF, "replay_quinn")
QUINN_REPLAY_BIN = os.path.join(VERIF, ".build", "replay_quinn", "debug", "h3-verif-replay-quinn")


def build_replay_quinn(log_dir):
    """The scenarios that need live quinn objects (C17) live in their own crate: two quinn endpoints over loopback."""
    env = dict(os.environ)
    env["CARGO_NET_OFFLINE"] = "true"
    env.pop("RUSTUP_TOOLCHAIN", None)
    env.pop("RUSTFLAGS", None)
    lock = os.path.join(QUINN_REPLAY_DIR, "Cargo.lock")
    if not os.path.exists(lock) and os.path.exists("/repo/Cargo.lock"):
        import shutil
        shutil.copyfile("/repo/Cargo.lock", lock)
    p = subprocess.run(["cargo", "build", "--offline", "--target-dir", os.path.join(VERIF, ".build", "replay_quinn")],
                       cwd=QUINN_REPLAY_DIR, env=env, capture_output=True, text=True, timeout=1800)
    os.makedirs(log_dir, exist_ok=True)
    open(os.path.join(log_dir, "replay_quinn_build.log"), "w").write(p.stdout + p.stderr)
    return p.returncode == 0


def native_replay(scenario, args, log_dir):
    """Run the native replay binary (rebuilt from /repo's current tree). Returns (reproduced: bool|None, output)."""
    if scenario.startswith("c17_"):
        if not build_replay_quinn(log_dir):
            return None, "quinn replay crate does not build, see " + os.path.join(log_dir, "replay_quinn_build.log")
        try:
            p = subprocess.run([QUINN_REPLAY_BIN, scenario] + list(args), capture_output=True, text=True, timeout=120)
        except subprocess.TimeoutExpired:
            return True, f"REPRODUCED: scenario '{scenario}' did not finish within 120 s against the real build (a call never returns)"
        out = (p.stdout + p.stderr).strip()
        return (True if p.returncode == 1 else False if p.returncode == 0 else None), out
    if not build_replay(log_dir):
        return None, "replay crate does not build, see " + os.path.join(log_dir, "replay_build.log")
    try:
        p = subprocess.run([REPLAY_BIN, scenario] + list(args), capture_output=True, text=True, timeout=120)
    except subprocess.TimeoutExpired:
        # every scenario is a bounded script over the mock transport and finishes in milliseconds on a healthy tree
        return True, f"REPRODUCED: scenario '{scenario}' did not finish within 120 s against the real build (a call of h3 never returns)"
    out = (p.stdout + p.stderr).strip()
    if p.returncode == 1:
        return True, out
    if p.returncode == 0:
        return False, out
    return None, out


def run(prop, specs, tier, seed, log_dir, known_keys):
    res = {"units": [], "violations": [], "known_hits": {}, "inconclusive": [], "stats": {}}
    os.makedirs(log_dir, exist_ok=True)
    t0 = time.time()
    try:
        L = E.Loaded()
    except (Inconclusive, Unsupported, subprocess.SubprocessError) as e:
        res["inconclusive"].append(f"mirsym: MIR dump/parse failed: {e}")
        return res
    print(f"[M] MIR regenerated from /repo in {L.dump_s:.1f}s: {len(L.fns)} functions parsed", flush=True)
    for name, modname in specs:
        mod = __import__(f"mirsym.specs.{modname}", fromlist=["x"])
        lines = []

        def log(msg):
            lines.append(msg)
            print(f"[M] {name}: {msg}", flush=True)
        samples = []
        unit = {"engine": "mirsym", "harness": name, "claim": (mod.__doc__ or "").strip().split("\n")[0],
                "status": "ok", "smt_queries": 0, "functions": [], "bounds": {}, "witness_sat": False}
        t1 = time.time()
        try:
            viols, stats = mod.check(L, tier, log, samples)
        except (Inconclusive, Unsupported) as e:
            unit["status"] = "inconclusive"
            unit["reason"] = f"{type(e).__name__}: {e}"
            res["inconclusive"].append(f"{name}: {type(e).__name__}: {e}")
            res["units"].append(unit)
            continue
        except Exception as e:  # a bug in the engine is never a pass
            unit["status"] = "inconclusive"
            unit["reason"] = "engine error: " + repr(e)
            res["inconclusive"].append(f"{name}: engine error {e!r}")
            open(os.path.join(log_dir, name + ".traceback"), "w").write(traceback.format_exc())
            res["units"].append(unit)
            continue
        unit["smt_queries"] = stats.get("schedule_queries", 0) + stats.get("path_queries", 0) + stats.get("queries", 0)
        unit["solver_s"] = stats.get("solver_s")
        unit["wall_s"] = round(time.time() - t1, 1)
        unit["functions"] = stats.get("functions", [])
        fsha = []
        for f in unit["functions"]:
            h = L.fn_sha("^" + re.escape(f) + "$")
            if h:
                fsha.append({"fn": h[0], "mir_sha256": h[1], "dump_line": h[2]})
        unit["functions_encoded"] = fsha
        unit["bounds"] = {k: v for k, v in stats.items() if k in ("d", "max_stream_tasks", "max_unroll", "script_len", "history_len")}
        wit = stats.get("witness", {})
        unit["witness_sat"] = bool(wit) and all(wit.values())
        unit["witnesses"] = wit
        unit["example"] = samples[:2]
        unit["explored"] = {k: v for k, v in stats.items() if k.endswith("_paths") or k in ("combinations", "states", "transitions")}
        if wit and not all(wit.values()):
            unit["status"] = "inconclusive"
            res["inconclusive"].append(f"{name}: vacuous — reachability witness not satisfied: "
                                       + ", ".join(k for k, v in wit.items() if not v))
        # group violations by key, replay one representative per key
        by_key = {}
        for v in viols:
            by_key.setdefault(v["key"], []).append(v)
        for key, vs in sorted(by_key.items()):
            v = vs[0]
            if key in known_keys:
                res["known_hits"][key] = known_keys[key]["what"]
                continue
            rdir = os.path.join(VERIF, "replays", prop)
            os.makedirs(rdir, exist_ok=True)
            path = os.path.join(rdir, key + ".json")
            rep = getattr(mod, "replay_args", lambda v: None)(v)
            json.dump({"property": prop, "spec": name, "key": key, "what": v["what"], "counterexample": v,
                       "replay": {"scenario": rep[0], "args": rep[1]} if rep else None,
                       "how": "./check --replay " + path}, open(path, "w"), indent=1, default=str)
            if rep is None:
                unit["status"] = "failed"
                res["violations"].append((key, v["what"] + " (no native replay scenario for this kind of counterexample)", path))
                continue
            ok, out = native_replay(rep[0], rep[1], log_dir)
            print(f"[M] {name}: counterexample {key}; native replay: {out.splitlines()[-1] if out else ''}", flush=True)
            if ok is True:
                unit["status"] = "failed"
                res["violations"].append((key, v["what"], path))
            elif ok is False:
                unit["status"] = "inconclusive"
                res["inconclusive"].append(f"{name}: counterexample {key} did NOT reproduce natively "
                                           f"(model or contract wrong?): {out[-300:]}")
            else:
                unit["status"] = "inconclusive"
                res["inconclusive"].append(f"{name}: native replay could not run: {out[-300:]}")
        # cross-validation against the implementation: when the spec found nothing, its native scenarios must agree
        validated = 0
        if unit["status"] == "ok" and not by_key:
            for sc, sargs in getattr(mod, "SCENARIOS", []):
                ok, out = native_replay(sc, sargs, log_dir)
                if ok is False:
                    validated += 1
                elif ok is True:
                    unit["status"] = "inconclusive"
                    res["inconclusive"].append(f"{name}: the spec reports no violation but the native scenario '{sc} {' '.join(sargs)}' reproduces one "
                                               f"against the real build (the spec misses a behaviour): {out.splitlines()[-1] if out else ''}")
                else:
                    res["inconclusive"].append(f"{name}: native scenario '{sc}' could not run: {out[-200:]}")
                    unit["status"] = "inconclusive"
            unit["native_scenarios_agreeing"] = validated
        res["stats"]["traces_validated_against_impl"] = res["stats"].get("traces_validated_against_impl", 0) + validated
        res["units"].append(unit)
        res["stats"].setdefault("states", 0)
        res["stats"]["states"] += stats.get("driver_paths", 0) + stats.get("stream_paths", 0) + stats.get("states", 0)
        res["stats"].setdefault("transitions", 0)
        res["stats"]["transitions"] += stats.get("combinations", 0) + stats.get("transitions", 0)
    res["stats"]["mir_dump_s"] = round(L.dump_s, 1)
    res["stats"]["mirsym_wall_s"] = round(time.time() - t0, 1)
    return res


def replay(path):
    d = json.load(open(path))
    r = d.get("replay")
    if not r:
        print("no native replay scenario recorded in", path)
        return 2
    ok, out = native_replay(r["scenario"], r["args"], os.path.join(VERIF, ".build", "logs", "replay"))
    print(out)
    return 1 if ok else (0 if ok is False else 2)
