"""C05 — one connection error, seen everywhere, never lost between tasks.

Analysed (MIR, inlined): ConnectionState::{get_conn_error, set_conn_error, set_conn_error_and_wake, waker},
ConnectionInner::{poll_connection_error, handle_connection_error, close_if_needed, convert_to_connection_error,
close_connection}, the free fn convert_to_connection_error, CloseStream::{handle_connection_error_on_stream,
handle_quic_stream_error}.

Contracts: OnceLock::{get,get_or_init} (write-once cell), AtomicWaker::{register,wake} (one slot; wake takes and
wakes the registered waker, if any), C::close (records the code), Clone (identity), Into<ErrorOrigin> (the two From
impls of internal_error.rs).

Encoding. Step 1: every path of every thread is executed symbolically with the results of the shared-state reads left
free; the shared-state operations are recorded in program order. Step 2: for every combination of one driver path
(d successive driver calls executed on the same ConnectionInner) and one path per stream task, a z3 query over a
SYMBOLIC SCHEDULE (one integer position per shared-state operation, program order respected, all distinct) ties the
read results to the write that the schedule makes first, and asks for a schedule and error values violating
  P1 no lost wake-up: if the driver's last call returned Pending and some task stored an error, some wake() comes after
     the driver's last register();
  P2 one outcome: every error any thread returns is the conversion of the FIRST stored error;
  P3 close: the QUIC connection is closed at most once, only by the driver, only for locally detected errors, with
     exactly the first error's code.
"""
import itertools
import time
import z3

from .. import engine as E
from .. import contracts as C
from ..sym import State, Cell, Obj, Ref, UNIT, Case, Inconclusive

EO = "error::internal_error::ErrorOrigin"

INLINE = [
    (r" as ConnectionState::get_conn_error$", r"^ConnectionState::get_conn_error$"),
    (r" as ConnectionState::set_conn_error$", r"^ConnectionState::set_conn_error$"),
    (r" as ConnectionState::set_conn_error_and_wake$", r"^ConnectionState::set_conn_error_and_wake$"),
    (r" as ConnectionState::waker$", r"^ConnectionState::waker$"),
    (r"^ConnectionState::set_conn_error::\{closure#0\}$", r"^ConnectionState::set_conn_error::\{closure#0\}$"),
    (r"connection_error_creators::ConnectionInner::close_if_needed$", r"connection_error_creators.*::close_if_needed$"),
    (r"connection_error_creators::ConnectionInner::convert_to_connection_error$",
     r"connection_error_creators.*>::convert_to_connection_error$"),
    (r"connection_error_creators::ConnectionInner::close_connection$", r"connection_error_creators.*::close_connection$"),
    (r"^convert_to_connection_error$", r"^convert_to_connection_error$"),
]

FUNCTIONS = [p for _, p in INLINE] + [r"connection_error_creators.*::poll_connection_error$",
                                       r"connection_error_creators.*::handle_connection_error$",
                                       r"^CloseStream::handle_connection_error_on_stream$",
                                       r"^CloseStream::handle_quic_stream_error$"]


def c_shared_state(ex, st, key, argv, dest_ty, raw):
    return [Case(None, lambda ex, st, a: Ref(st.world["shared"]))]


def c_cell_get(ex, st, key, argv, dest_ty, raw):
    def ap(ex, st, a):
        res = Obj(dest_ty)
        st.effects.append(("get", res))
        return res
    return [Case(None, ap)]


def c_cell_init(ex, st, key, argv, dest_ty, raw):
    def ap(ex, st, a):
        cand = a[1].fields[(None, 0)].v      # the closure captures the candidate error by value
        res = Ref(Cell(Obj(EO)))
        st.effects.append(("init", cand, res))
        return res
    return [Case(None, ap)]


def eff(name):
    def f(ex, st, key, argv, dest_ty, raw):
        def ap(ex, st, a):
            st.effects.append((name,) + tuple(a[1:]))
            return UNIT
        return [Case(None, ap)]
    return f


def c_into_error_origin(ex, st, key, argv, dest_ty, raw):
    def ap(ex, st, a):
        v = a[0]
        if isinstance(v, Obj) and "InternalConnectionError" in v.ty:
            return ex.make_enum(EO, "Internal", [v])
        if isinstance(v, Obj) and "ConnectionErrorIncoming" in v.ty:
            return ex.make_enum(EO, "Quic", [v])
        if isinstance(v, Obj) and "ErrorOrigin" in v.ty:
            return v
        raise Inconclusive("Into<ErrorOrigin> on " + repr(v))
    return [Case(None, ap)]


def contracts():
    return [
        (r" as ConnectionState::shared_state$", c_shared_state),
        (r"^OnceLock::get$", c_cell_get),
        (r"^OnceLock::get_or_init$", c_cell_init),
        (r"^AtomicWaker::register$", eff("register")),
        (r"^AtomicWaker::wake$", eff("wake")),
        (r" as OpenStreams::close$", eff("close")),
        (r" as Into::into$", c_into_error_origin),
    ] + C.std_contracts()


# ---------------------------------------------------------------------------------------------
# symbolic error values and their observable summary

def new_error(ex, st, tag):
    """An arbitrary ErrorOrigin: Internal{code} | Quic(ApplicationClose{code} | Timeout | InternalError | Undefined)."""
    e = Obj(EO)
    ex.discr_of(st, e)
    ice = E.ensure_field(ex, e, ("Internal", 0), "error::internal_error::InternalConnectionError")
    code = E.ensure_field(ex, ice, (None, 0), "error::codes::Code")
    E.ensure_field(ex, code, (None, 0), "u64")
    q = E.ensure_field(ex, e, ("Quic", 0), "quic::ConnectionErrorIncoming")
    ex.discr_of(st, q)
    E.ensure_field(ex, q, ("ApplicationClose", 0), "u64")
    e.attrs["tag"] = tag
    return e


def summary_of_origin(ex, st, e):
    """(is_internal, internal_code, quic_kind, app_close_code) of an ErrorOrigin object (materialising)."""
    e = E.deref(e)
    d = ex.discr_of(st, e)
    ice = E.ensure_field(ex, e, ("Internal", 0), "error::internal_error::InternalConnectionError")
    code = E.ensure_field(ex, ice, (None, 0), "error::codes::Code")
    cv = E.ensure_field(ex, code, (None, 0), "u64")
    q = E.ensure_field(ex, e, ("Quic", 0), "quic::ConnectionErrorIncoming")
    qd = ex.discr_of(st, q)
    ac = E.ensure_field(ex, q, ("ApplicationClose", 0), "u64")
    is_internal = d == z3.BitVecVal(ex.enums.index_of(EO, "Internal"), 64)
    return is_internal, cv, qd, ac


def expected_connection_error(ex, st, first):
    """The property's statement of the single outcome, as a summary of a ConnectionError:
    (kind, local_code, remote_kind, remote_code) with kind 0 = Local, 1 = Remote, 2 = Timeout."""
    is_internal, cv, qd, ac = summary_of_origin(ex, st, first)
    timeout_idx = z3.BitVecVal(ex.enums.index_of("quic::ConnectionErrorIncoming", "Timeout"), 64)
    kind = z3.If(is_internal, z3.BitVecVal(0, 64), z3.If(qd == timeout_idx, z3.BitVecVal(2, 64), z3.BitVecVal(1, 64)))
    return kind, cv, qd, ac


def summary_of_connection_error(ex, st, ce):
    """Summary of a ConnectionError value the code produced: only what was materialised matters."""
    ce = E.deref(ce)
    CE = "error::error::ConnectionError"
    d = ex.discr_of(st, ce)
    kind = z3.If(d == ex.enums.index_of(CE, "Local"), z3.BitVecVal(0, 64),
                 z3.If(d == ex.enums.index_of(CE, "Remote"), z3.BitVecVal(1, 64), z3.BitVecVal(2, 64)))
    le = E.ensure_field(ex, ce, ("Local", 0), "error::error::LocalError")
    code = E.ensure_field(ex, le, ("Application", 0), "error::codes::Code")
    cv = E.ensure_field(ex, code, (None, 0), "u64")
    le_is_app = ex.discr_of(st, le) == ex.enums.index_of("error::error::LocalError", "Application")
    rem = E.ensure_field(ex, ce, ("Remote", 0), "quic::ConnectionErrorIncoming")
    qd = ex.discr_of(st, rem)
    ac = E.ensure_field(ex, rem, ("ApplicationClose", 0), "u64")
    return kind, cv, qd, ac, le_is_app


def same_outcome(ex, st, got, want):
    gk, gcv, gqd, gac, g_app = got
    wk, wcv, wqd, wac = want
    app_idx = z3.BitVecVal(ex.enums.index_of("quic::ConnectionErrorIncoming", "ApplicationClose"), 64)
    return z3.And(gk == wk,
                  z3.Implies(wk == 0, z3.And(g_app, gcv == wcv)),
                  z3.Implies(wk == 1, z3.And(gqd == wqd, z3.Implies(wqd == app_idx, gac == wac))))


# ---------------------------------------------------------------------------------------------

class Path:
    def __init__(self, thread, st, rets):
        self.thread = thread
        self.st = st
        self.ops = [e for e in st.effects if e[0] in ("get", "init", "register", "wake", "close")]
        self.rets = rets        # list of (call kind, return value)
        self.panics = [e for e in st.effects if e[0] == "panic"]


def driver_paths(L, d, log):
    """All paths of d successive driver calls on one ConnectionInner that starts healthy. Each call is either
    poll_connection_error(cx) or handle_connection_error(e) with an arbitrary error the driver itself detected."""
    ex = E.make_executor(L, INLINE, contracts())
    results = []

    def start(st, k, rets, inner_cell, choices):
        if k == d:
            results.append((st, rets, choices))
            return
        for choice in ("poll", "handle"):
            s2 = st.clone()
            ic = C_remap_cell(st, s2, inner_cell)
            if choice == "poll":
                E.call(ex, s2, r"connection_error_creators.*::poll_connection_error$",
                       [Ref(ic), Ref(Cell(Obj("Context")))])
            else:
                e = new_error(ex, s2, f"driver{k}")
                s2.world.setdefault("driver_errors", []).append(e)
                E.call(ex, s2, r"connection_error_creators.*::handle_connection_error$", [Ref(ic), e])
            outs = E.collect(ex, s2)
            for s3, v in outs:
                ic3 = s3.world["inner"]
                start(s3, k + 1, rets + [(choice, v)], ic3, choices + [choice])

    st = State()
    st.world["shared"] = Cell(Obj("shared_state::SharedState"))
    inner = Obj("connection::ConnectionInner<C, B>")
    inner.fields[(None, 8)] = Cell(ex.make_enum("std::option::Option<error::error::ConnectionError>", "None"))
    st.world["inner"] = Cell(inner)
    start(st, 0, [], st.world["inner"], [])
    return ex, results


def C_remap_cell(st_old, st_new, cell):
    return st_new.world["inner"]


def stream_paths(L, i):
    """Paths of one stream task raising a connection error: an h3-detected one through
    handle_connection_error_on_stream, or a transport one through handle_quic_stream_error."""
    ex = E.make_executor(L, INLINE, contracts())
    out = []
    for how in ("h3", "quic"):
        st = State()
        st.world["shared"] = Cell(Obj("shared_state::SharedState"))
        me = Ref(Cell(Obj("Self")))
        if how == "h3":
            ice = Obj("error::internal_error::InternalConnectionError")
            code = E.ensure_field(ex, ice, (None, 0), "error::codes::Code")
            E.ensure_field(ex, code, (None, 0), "u64")
            st.world["raised"] = ("h3", ice)
            E.call(ex, st, r"^CloseStream::handle_connection_error_on_stream$", [me, ice])
        else:
            q = Obj("quic::ConnectionErrorIncoming")
            ex.discr_of(st, q)
            E.ensure_field(ex, q, ("ApplicationClose", 0), "u64")
            sei = ex.make_enum("quic::StreamErrorIncoming", "ConnectionErrorIncoming", [q])
            st.world["raised"] = ("quic", q)
            E.call(ex, st, r"^CloseStream::handle_quic_stream_error$", [me, sei])
        for s2, v in E.collect(ex, st):
            out.append((s2, [(how, v)]))
    return ex, out


def check(L, tier, log, sample_sink):
    d = 2 if tier == "quick" else 3
    n_streams = 2 if tier == "quick" else 3
    t0 = time.time()
    exd, dpaths = driver_paths(L, d, log)
    exs, spaths = stream_paths(L, 0)
    log(f"driver: {len(dpaths)} paths over {d} calls; stream task: {len(spaths)} paths; "
        f"path-enumeration queries {exd.queries + exs.queries}")
    if exd.unroll_exceeded or exs.unroll_exceeded:
        raise Inconclusive("loop bound exceeded in " + repr((exd.unroll_exceeded + exs.unroll_exceeded)[:3]))
    queries = 0
    solver_s = 0.0
    violations = []
    witness = {"P1": False, "P2": False, "P3": False}
    combos = 0
    ex = exd   # enum table / helpers
    for (dst, drets, dchoices) in dpaths:
        for k in range(1, n_streams + 1):
            for combo in itertools.combinations_with_replacement(range(len(spaths)), k):
                combos += 1
                # each stream task gets its own copy of its path (fresh identities for positions; z3 terms of
                # different tasks must be distinct, so rename by substitution)
                threads = [("driver", dst, drets)]
                for ti, pi in enumerate(combo):
                    s_st, s_rets = spaths[pi]
                    threads.append((f"stream{ti}",) + rename_path(s_st, s_rets, f"t{ti}"))
                res = compose(ex, threads, dchoices)
                queries += res["queries"]
                solver_s += res["solver_s"]
                for key in witness:
                    witness[key] = witness[key] or res["witness"].get(key, False)
                for v in res["violations"]:
                    v["driver_calls"] = dchoices
                    v["stream_tasks"] = [spaths[pi][1][0][0] for pi in combo]
                    violations.append(v)
                if len(sample_sink) < 3 and res.get("sample"):
                    sample_sink.append(res["sample"])
    stats = {"driver_paths": len(dpaths), "stream_paths": len(spaths), "combinations": combos,
             "schedule_queries": queries, "path_queries": exd.queries + exs.queries,
             "solver_s": round(solver_s + exd.solver_s + exs.solver_s, 2), "d": d, "max_stream_tasks": n_streams,
             "witness": witness, "functions": sorted(exd.functions_used | exs.functions_used),
             "wall_s": round(time.time() - t0, 1)}
    return violations, stats


_ren = [0]


def rename_path(st, rets, suffix):
    """Deep-copy a stream path with every z3 constant renamed, so that two tasks taking the same path have
    independent symbolic values."""
    import copy
    st2 = copy.deepcopy((st, rets))
    consts = set()

    def collect(v, seen):
        if id(v) in seen:
            return
        seen.add(id(v))
        if z3.is_expr(v):
            for c in z3_consts(v):
                consts.add(c)
        elif isinstance(v, Obj):
            if v.discr is not None:
                collect(v.discr, seen)
            for c in v.fields.values():
                collect(c.v, seen)
            for a in v.attrs.values():
                collect(a, seen)
        elif isinstance(v, Ref):
            collect(v.cell.v, seen)
        elif isinstance(v, Cell):
            collect(v.v, seen)
        elif isinstance(v, (list, tuple)):
            for x in v:
                collect(x, seen)
        elif isinstance(v, dict):
            for x in v.values():
                collect(x, seen)
    s, r = st2
    seen = set()
    collect(s.effects, seen)
    collect(s.pc, seen)
    collect(r, seen)
    collect(s.world, seen)
    sub = [(c, z3.Const(f"{suffix}:{c.decl().name()}", c.sort())) for c in consts]

    def apply(v, seen):
        if z3.is_expr(v):
            return z3.substitute(v, *sub) if sub else v
        if id(v) in seen:
            return v
        seen.add(id(v))
        if isinstance(v, Obj):
            v.origin = f"{suffix}:{v.origin}"
            if v.discr is not None:
                v.discr = apply(v.discr, seen)
            for c in v.fields.values():
                c.v = apply(c.v, seen)
            for k in list(v.attrs):
                v.attrs[k] = apply(v.attrs[k], seen)
        elif isinstance(v, Ref):
            v.cell.v = apply(v.cell.v, seen)
        elif isinstance(v, Cell):
            v.v = apply(v.v, seen)
        elif isinstance(v, list):
            for i in range(len(v)):
                v[i] = apply(v[i], seen)
        elif isinstance(v, tuple):
            return tuple(apply(x, seen) for x in v)
        elif isinstance(v, dict):
            for k in list(v):
                v[k] = apply(v[k], seen)
        return v
    seen = set()
    s.effects = apply(s.effects, seen)
    s.pc = apply(s.pc, seen)
    s.world = apply(s.world, seen)
    r = apply(r, seen)
    return s, r


def z3_consts(e):
    out = set()
    stack = [e]
    seen = set()
    while stack:
        x = stack.pop()
        if x.get_id() in seen:
            continue
        seen.add(x.get_id())
        if z3.is_const(x) and x.decl().kind() == z3.Z3_OP_UNINTERPRETED:
            out.add(x)
        else:
            stack.extend(x.children())
    return out


def compose(ex, threads, dchoices):
    """One z3 context for one choice of paths: symbolic schedule + cell/waker semantics; three property queries."""
    t0 = time.time()
    s = z3.Solver()
    s.set("timeout", 60000)
    st0 = State()   # scratch state for helper calls that want to add range constraints
    ops = []        # (thread index, index in thread, op tuple, pos var)
    for ti, (name, st, rets) in enumerate(threads):
        for c in st.pc:
            s.add(c)
        tops = [e for e in st.effects if e[0] in ("get", "init", "register", "wake", "close")]
        prev = None
        for oi, op in enumerate(tops):
            p = z3.Int(f"pos_{name}_{oi}")
            s.add(p >= 0)
            if prev is not None:
                s.add(prev < p)
            prev = p
            ops.append((ti, oi, op, p))
    s.add(z3.Distinct([o[3] for o in ops])) if len(ops) > 1 else None
    inits = [o for o in ops if o[2][0] == "init"]
    gets = [o for o in ops if o[2][0] == "get"]
    wakes = [o for o in ops if o[2][0] == "wake"]
    regs = [o for o in ops if o[2][0] == "register"]
    closes = [o for o in ops if o[2][0] == "close"]

    def is_first(o):
        return z3.And([o[3] < x[3] for x in inits if x is not o]) if len(inits) > 1 else z3.BoolVal(True)

    # Phase A: materialise everything the properties look at, so that the linking below covers it
    dname, dst, drets = threads[0]
    got_summaries = {}
    for ti, (name, st, rets) in enumerate(threads):
        for ci, (kind, ret) in enumerate(rets):
            ce = returned_connection_error(ex, st0, name, kind, ret)
            if ce is not None:
                got_summaries[(ti, ci)] = summary_of_connection_error(ex, st0, ce)
    close_codes = []
    for o in closes:
        code_obj = E.deref(o[2][1])
        close_codes.append((o, E.ensure_field(ex, code_obj, (None, 0), "u64")))
    origin_summaries = {id(w): summary_of_origin(ex, st0, w[2][1]) for w in inits}
    extra_terms = [list(v) for v in got_summaries.values()] + [c for _, c in close_codes]
    # Phase B: semantics of the shared state under the symbolic schedule
    used = E.consts_of([t[1].pc for t in threads], [t[2] for t in threads], [t[1].effects for t in threads], extra_terms)
    # write-once cell: every get_or_init returns the first stored candidate; get() sees it iff it comes later
    for o in inits:
        res_obj = E.deref(o[2][2])
        for w in inits:
            s.add(z3.Implies(is_first(w), E.link(ex, st0, res_obj.origin, w[2][1], used)))
    some_idx = z3.BitVecVal(1, 64)
    for g in gets:
        res = g[2][1]
        dsc = ex.discr_of(st0, res)
        if inits:
            set_before = z3.Or([w[3] < g[3] for w in inits])
            s.add(dsc == z3.If(set_before, some_idx, z3.BitVecVal(0, 64)))
            for w in inits:
                # Option<&ErrorOrigin>: payload path is Some.0 then the reference
                s.add(z3.Implies(z3.And(set_before, is_first(w)),
                                 E.link(ex, st0, res.origin + "|Some.0|*", w[2][1], used)))
        else:
            s.add(dsc == 0)
    for c in st0.pc:
        s.add(c)
    out = {"queries": 0, "solver_s": 0.0, "violations": [], "witness": {}}

    def ask(extra, label):
        out["queries"] += 1
        t = time.time()
        s.push()
        s.add(extra)
        r = s.check()
        m = s.model() if r == z3.sat else None
        s.pop()
        out["solver_s"] += time.time() - t
        if r == z3.unknown:
            raise Inconclusive("solver returned unknown for " + label)
        return m

    # is this combination schedulable at all (vacuity witness)?
    base = ask(z3.BoolVal(True), "feasibility")
    if base is None:
        return out
    # ---- P1: no lost wake-up
    last_kind, last_ret = drets[-1]
    last_pending = (last_kind == "poll" and isinstance(last_ret, Obj) and z3.is_bv_value(last_ret.discr)
                    and last_ret.discr.as_long() == ex.enums.index_of("Poll", "Pending"))
    if last_pending and inits and regs:
        out["witness"]["P1"] = True
        last_reg = [o for o in regs if o[0] == 0][-1]
        lost = z3.And([w[3] < last_reg[3] for w in wakes]) if wakes else z3.BoolVal(True)
        m = ask(lost, "P1")
        if m is not None:
            out["violations"].append({"key": "c05.p1.lost_wakeup.error_stored_between_check_and_register",
                                      "what": "a stream task stores the connection error and calls wake() after the driver's get() "
                                              "saw no error but before the driver registered its waker: the driver returns Pending "
                                              "and is never woken although the error is set",
                                      "schedule": schedule_of(m, ops, threads)})
    # ---- P2: every returned error is the conversion of the first stored error
    if inits:
        for ti, (name, st, rets) in enumerate(threads):
            for ci, (kind, ret) in enumerate(rets):
                if (ti, ci) not in got_summaries:
                    continue
                out["witness"]["P2"] = True
                got = got_summaries[(ti, ci)]
                bad = []
                for w in inits:
                    want = expected_connection_error(ex, st0, w[2][1])
                    bad.append(z3.And(is_first(w), z3.Not(same_outcome(ex, st0, got, want))))
                m = ask(z3.Or(bad), "P2")
                if m is not None:
                    out["violations"].append({"key": f"c05.p2.different_error_reported.{'driver' if ti == 0 else 'stream'}",
                                              "what": f"{name} call {ci} ({kind}) returns a connection error that is not the conversion "
                                                      f"of the first error stored",
                                              "schedule": schedule_of(m, ops, threads)})
    # ---- P3: close at most once, by the driver only, only for local errors, with the first error's code
    nclose_driver = len([o for o in closes if o[0] == 0])
    nclose_stream = len([o for o in closes if o[0] != 0])
    out["witness"]["P3"] = out["witness"].get("P3", False) or nclose_driver > 0
    if nclose_stream > 0:
        out["violations"].append({"key": "c05.p3.close_called_by_stream_task", "what": "a stream task closes the connection",
                                  "schedule": schedule_of(base, ops, threads)})
    if nclose_driver > 1:
        out["violations"].append({"key": "c05.p3.closed_more_than_once", "what": "the driver closes the connection twice",
                                  "schedule": schedule_of(base, ops, threads)})
    if inits:
        internal_error_code = E.code_value(ex.named_consts, "H3_INTERNAL_ERROR")
        qie = z3.BitVecVal(ex.enums.index_of("quic::ConnectionErrorIncoming", "InternalError"), 64)
        driver_reported = any(isinstance(r, Obj) and returned_connection_error(ex, st0, "driver", k, r) is not None
                              for k, r in drets)
        for w in inits:
            is_internal, cv, qd, ac = summary_of_origin(ex, st0, w[2][1])
            local = z3.Or(is_internal, qd == qie)
            want_code = z3.If(is_internal, cv, internal_error_code)
            conds = []
            if nclose_driver >= 1:
                got_code = [c for o, c in close_codes if o[0] == 0][0]
                conds.append(z3.And(is_first(w), z3.Or(z3.Not(local), got_code != want_code)))
            elif driver_reported:
                conds.append(z3.And(is_first(w), local))   # driver reported a local error without closing
            if conds:
                m = ask(z3.Or(conds), "P3")
                if m is not None:
                    out["violations"].append({"key": "c05.p3.close_code_or_occurrence_wrong",
                                              "what": "the driver closes with a code other than the first error's, closes for a "
                                                      "remote error, or reports a locally detected error without closing",
                                              "schedule": schedule_of(m, ops, threads)})
    out["sample"] = {"threads": [t[0] for t in threads], "driver_calls": dchoices,
                     "ops": [f"{threads[o[0]][0]}:{o[2][0]}" for o in ops],
                     "one_schedule": schedule_of(base, ops, threads)}
    out["solver_s"] = round(out["solver_s"], 3)
    return out


def returned_connection_error(ex, st, name, kind, ret):
    """The ConnectionError inside a thread's return value, if it returns one."""
    if not isinstance(ret, Obj):
        return None
    if name == "driver":
        if kind == "handle":
            return ret
        # Poll<Result<(), ConnectionError>>
        if z3.is_bv_value(ret.discr) and ret.discr.as_long() == ex.enums.index_of("Poll", "Ready"):
            r = E.get_field(ret, ("Ready", 0))
            if r is not None and z3.is_bv_value(r.discr) and r.discr.as_long() == 1:
                return E.get_field(r, ("Err", 0))
        return None
    # stream tasks return StreamError::ConnectionError(ce)
    idx = ex.enums.index_of("error::error::StreamError", "ConnectionError")
    if ret.discr is not None and z3.is_bv_value(ret.discr) and ret.discr.as_long() == idx:
        return E.get_field(ret, ("ConnectionError", 0))
    return None


def schedule_of(m, ops, threads):
    order = sorted(ops, key=lambda o: m.eval(o[3], model_completion=True).as_long())
    return [f"{threads[o[0]][0]}:{o[2][0]}" for o in order]


def replay_args(v):
    """Native replay scenario for a counterexample (see /verif/replay/src/main.rs)."""
    if v["key"].startswith("c05.p1."):
        return ("c05_lost_wakeup", ["any"])
    if v["key"].startswith("c05.p2.") or v["key"].startswith("c05.p3."):
        return ("c05_second_error", [])
    return None


# native scenarios that exercise, against the real build, the behaviours this spec decides: on a tree where the spec finds no
# violation every one of them must NOT reproduce (a scenario that reproduces there means the spec misses something)
SCENARIOS = [('c05_lost_wakeup', ['any']), ('c05_second_error', [])]
