"""C10 (send side) — h3 never sends a field section larger than the limit the peer has advertised at the moment of sending.

Analysed (MIR): qpack::encoder::encode_stateless + HeaderField::mem_size; the coroutines client SendRequest::send_request,
server RequestStream::send_response, connection::RequestStream::send_trailers; ResolvedRequest::resolve on the oversized path.
  S  encode_stateless over up to 2 (quick) / 3 (thorough) fields with SYMBOLIC name and value lengths, whichever of the three
     representations (static index, static name reference, literal) each field takes: the size it returns is the RFC 9114
     4.2.2 size, sum of name + value + 32 (the constant is read from the dump);
  W  the three send sites, polled to completion with the transport answering each await arbitrarily (open_bidi / write:
     pending, ready, error) and THE PEER'S SETTINGS RE-READ AS AN ARBITRARY NEW VALUE AT EVERY POLL (SETTINGS may arrive
     between any two polls): a HEADERS frame is handed to stream::write only if size <= the limit in force in the poll that
     starts the write; otherwise the call returns a HeaderTooBig error and writes nothing; a size
     within the limit is never refused; no connection error is raised on these paths;
  R  resolve with decoded = Err(size): a 431 response is attempted through send_response (so subject to W), the outcome is
     a header-too-big error or send_response's own error - never Ok, never a
     connection error.
"""
import re
import time
import z3

from .. import engine as E
from .. import contracts as C
from ..sym import State, Cell, Obj, Ref, UNIT, Case, Inconclusive
from . import c08

SE = "error::error::StreamError"


def bv(v, n=64):
    return z3.BitVecVal(v, n)


# ------------------------------------------------------------------------------------------------ part S

def part_size(L, tier, log):
    nmax = 2 if tier == "quick" else 3

    def c_next(ex, st, key, argv, dest_ty, raw):
        w = st.world

        def none(ex, st, a):
            st.world["done"] = True
            return ex.make_enum(dest_ty, "None")

        def some(ex, st, a):
            w = st.world
            i = len(w["fields"])
            f = Obj("qpack::field::HeaderField")
            nl, vl = z3.BitVec(f"name_len_{i}", 64), z3.BitVec(f"value_len_{i}", 64)
            # names and values below 16 MiB each, said as 'the 40 high bits are zero' (a comparison with a constant makes
            # every overflow check of the running sum a hard adder query for the SAT back end; this form is propagated)
            st.pc.append(z3.And(z3.Extract(63, 24, nl) == 0, z3.Extract(63, 24, vl) == 0))
            for idx, ln in ((0, nl), (1, vl)):
                cow = Obj("std::borrow::Cow<'_, [u8]>")
                sl = Obj("[u8]")
                ex.field(sl, "meta", 0, "usize").v = ln
                cow.attrs["slice"] = Cell(sl)
                f.fields[(None, idx)] = Cell(cow)
            w["fields"].append((nl, vl))
            return ex.make_enum(dest_ty, "Some", [f])
        cases = [Case(None, none)]
        if len(w["fields"]) < nmax:
            cases.append(Case(z3.BoolVal(True), some))
        return cases

    def c_as_ref(ex, st, key, argv, dest_ty, raw):
        return [Case(None, lambda ex, st, a: a[0] if isinstance(a[0], Ref) else Ref(Cell(a[0])))]

    def c_cow_deref(ex, st, key, argv, dest_ty, raw):
        return [Case(None, lambda ex, st, a: Ref(C.deref(a[0]).attrs["slice"]))]

    def nondet_option(tag):
        def f(ex, st, key, argv, dest_ty, raw):
            def some(ex, st, a):
                st.effects.append((tag, True))
                return ex.make_enum(dest_ty, "Some", [z3.BitVec(E.fresh("static_index"), 64)])

            def none(ex, st, a):
                st.effects.append((tag, False))
                return ex.make_enum(dest_ty, "None")
            return [Case(None, some), Case(z3.BoolVal(True), none)]
        return f

    def nondet_encode(ex, st, key, argv, dest_ty, raw):
        def ok(ex, st, a):
            st.effects.append(("emit", key))
            return ex.make_enum(dest_ty, "Ok", [UNIT])

        def bad(ex, st, a):
            return ex.make_enum(dest_ty, "Err", [Obj("qpack::prefix_string::Error")])
        return [Case(None, ok), Case(z3.BoolVal(True), bad)]

    def c_emit_unit(ex, st, key, argv, dest_ty, raw):
        def ap(ex, st, a):
            st.effects.append(("emit", key))
            return UNIT
        return [Case(None, ap)]
    con = [
        (r"IntoIter as Iterator::next$|as Iterator::next$", c_next),
        (r"as IntoIterator::into_iter$", C.c_identity),
        (r"^H as AsRef::as_ref$", c_as_ref),
        (r"^Cow as Deref::deref$", c_cow_deref),
        (r"^Cow as Clone::clone$|^LiteralWithNameRef::new_static$|^Literal::new$|^HeaderPrefix::new$", C.c_opaque),
        (r"^StaticTable::find$", nondet_option("find")), (r"^StaticTable::find_name$", nondet_option("find_name")),
        (r"^LiteralWithNameRef::encode$|^Literal::encode$", nondet_encode),
        (r"^Indexed::encode$|^HeaderPrefix::encode$", c_emit_unit),
    ] + c08.base_contracts()
    inline = [(r"^HeaderField::mem_size$", r"qpack::field::<impl[^>]*>::mem_size$")]
    ex = E.make_executor(L, inline, con, max_unroll=nmax + 2)
    st = State()
    st.world.update({"fields": [], "done": False})
    E.call(ex, st, r"^encode_stateless$", [Ref(Cell(Obj("W"))), Obj("T")])
    outs = E.collect(ex, st)
    if ex.unroll_exceeded:
        raise Inconclusive("loop bound exceeded: " + repr(ex.unroll_exceeded[:3]))
    viols = []
    wit = {"S.static_hit": False, "S.name_reference": False, "S.literal": False, f"S.{nmax}_fields": False}
    q = 0
    for s, ret in outs:
        if ret == ("panic",):
            continue  # arithmetic overflow of the size is excluded by the length bound above (2^24 per string)
        if ret.discr.as_long() != 0:
            continue
        got = E.get_field(ret, ("Ok", 0))
        want = bv(0)
        for nl, vl in s.world["fields"]:
            want = want + nl + vl + bv(32)
        q += 1
        # bit-vector addition is associative and commutative: z3's simplifier normalises both sums; only if the two normal
        # forms differ is the (for a SAT solver hard: two different adder trees) equivalence query asked
        diff = z3.simplify(got - want, som=True)
        m = None if (z3.is_bv_value(diff) and diff.as_long() == 0) else ex.model(s, got != want)
        if m is not None:
            viols.append({"key": "c10.send.size_is_not_rfc_size", "what": "encode_stateless returns a size other than the sum of name + value + 32 over the fields",
                          "model": {"fields": [(m.eval(a, True).as_long(), m.eval(b_, True).as_long()) for a, b_ in s.world["fields"]],
                                    "returned": m.eval(got, True).as_long()}})
        emits = [e[1] for e in s.effects if e[0] == "emit"]
        if len([e for e in emits if "HeaderPrefix" not in e]) != len(s.world["fields"]):
            viols.append({"key": "c10.send.field_not_encoded_exactly_once", "what": "a field is counted but not emitted exactly once", "model": {"emits": emits}})
        if any("Indexed" in e for e in emits):
            wit["S.static_hit"] = True
        if any("LiteralWithNameRef" in e for e in emits):
            wit["S.name_reference"] = True
        if any(e.startswith("Literal::") for e in emits):
            wit["S.literal"] = True
        if len(s.world["fields"]) == nmax:
            wit[f"S.{nmax}_fields"] = True
    log(f"S encode_stateless: {len(outs)} paths, {q} property queries")
    return ex, viols, len(outs), q, wit


# ------------------------------------------------------------------------------------------------ part W

def mk_code(v):
    o = Obj("error::codes::Code")
    o.fields[(None, 0)] = Cell(v)
    return o


SITE_INLINE = [(r" as CloseStream::handle_quic_stream_error$", r"^CloseStream::handle_quic_stream_error$")]


def site_contracts(max_polls):
    def c_settings(ex, st, key, argv, dest_ty, raw):
        def ap(ex, st, a):
            k = st.world["poll"]
            lim = z3.BitVec(f"peer_limit_at_poll_{k}", 64)
            st.world["limits_read"].append((k, lim))
            s = Obj("config::Settings")
            s.fields[(None, st.world["limit_idx"])] = Cell(lim)
            cow = Obj("std::borrow::Cow<'_, config::Settings>")
            cow.attrs["settings"] = Cell(s)
            return cow
        return [Case(None, ap)]

    def c_cow_deref(ex, st, key, argv, dest_ty, raw):
        return [Case(None, lambda ex, st, a: Ref(C.deref(a[0]).attrs["settings"]))]

    def c_encode(ex, st, key, argv, dest_ty, raw):
        def ok(ex, st, a):
            size = z3.BitVec("field_section_size", 64)
            st.world["size"] = size
            return ex.make_enum(dest_ty, "Ok", [size])

        def bad(ex, st, a):
            return ex.make_enum(dest_ty, "Err", [Obj("qpack::encoder::EncoderError")])
        return [Case(None, ok), Case(z3.BoolVal(True), bad)]

    def c_write(ex, st, key, argv, dest_ty, raw):
        def ap(ex, st, a):
            fr = C.deref(a[1])
            st.effects.append(("write", st.world["poll"], fr))
            return Obj("{async fn body of stream::write()}")
        return [Case(None, ap)]

    def c_poll3(tag, okty=None):
        def f(ex, st, key, argv, dest_ty, raw):
            inner = C.payload_type(dest_ty, "Ready") or "Result<?, ?>"

            def pend(ex, st, a):
                st.effects.append((tag, "pending"))
                return ex.make_enum(dest_ty, "Pending")

            def ok(ex, st, a):
                st.effects.append((tag, "ok"))
                return ex.make_enum(dest_ty, "Ready", [ex.make_enum(inner, "Ok", [Obj(C.payload_type(inner, "Ok") or "ok") if okty is None else okty])])

            def err(kind):
                def ap(ex, st, a):
                    st.effects.append((tag, "err"))
                    st.world["transport_error"] = kind
                    if kind == "StreamTerminated":
                        code = z3.BitVec("peer_stop_code", 64)
                        e = ex.make_enum("quic::StreamErrorIncoming", kind, [code])
                    else:
                        e = ex.make_enum("quic::StreamErrorIncoming", kind, [Obj("quic::ConnectionErrorIncoming" if kind == "ConnectionErrorIncoming" else "Box<dyn Error>")])
                    return ex.make_enum(dest_ty, "Ready", [ex.make_enum(inner, "Err", [e])])
                return ap
            cases = [Case(None, ok)] + [Case(z3.BoolVal(True), err(k)) for k in ("StreamTerminated", "ConnectionErrorIncoming", "Unknown")]
            if st.world["poll"] + 1 < max_polls:
                cases.append(Case(z3.BoolVal(True), pend))
            return cases
        return f

    def c_conn_error(ex, st, key, argv, dest_ty, raw):
        def ap(ex, st, a):
            st.effects.append(("connection_error",))
            return ex.make_enum(SE, "ConnectionError", [Obj("ConnectionErrorIncoming")])
        return [Case(None, ap)]

    def c_stream_error(ex, st, key, argv, dest_ty, raw):
        def ap(ex, st, a):
            st.effects.append(("quic_stream_error",))
            return ex.make_enum(SE, "RemoteTerminate", [Obj("code")])
        return [Case(None, ap)]

    def c_set_conn_error(ex, st, key, argv, dest_ty, raw):
        def ap(ex, st, a):
            st.effects.append(("connection_error",))
            return Obj("error::internal_error::ErrorOrigin")
        return [Case(None, ap)]

    def c_closing(ex, st, key, argv, dest_ty, raw):
        def none(ex, st, a):
            return ex.make_enum(dest_ty, "None")

        def some(ex, st, a):
            st.effects.append(("closing",))
            return ex.make_enum(dest_ty, "Some", [ex.make_enum(SE, "ConnectionError", [Obj("ConnectionErrorIncoming")])])
        return [Case(None, none), Case(z3.BoolVal(True), some)]

    def c_header_response(ex, st, key, argv, dest_ty, raw):
        def ap(ex, st, a):
            # a status that reaches Header::response as a named constant (not through an http::Response) is remembered
            if "StatusCode::" in str(getattr(a[0], "name", "")):
                st.world["status"] = a[0]
            return Obj(dest_ty or "proto::headers::Header")
        return [Case(None, ap)]

    def c_header_request(ex, st, key, argv, dest_ty, raw):
        def ok(ex, st, a):
            return ex.make_enum(dest_ty, "Ok", [Obj("proto::headers::Header")])

        def bad(ex, st, a):
            return ex.make_enum(dest_ty, "Err", [Obj("proto::headers::HeaderError")])
        return [Case(None, ok), Case(z3.BoolVal(True), bad)]

    con = [
        (r"as ConnectionState::settings$", c_settings),
        (r"^Cow as Deref::deref$", c_cow_deref),
        (r"^encode_stateless$", c_encode),
        (r"^stream::write$", c_write),
        (r"async fn body of stream::write.* as .*Future::poll$", c_poll3("write_poll", UNIT)),
        (r"PollFn as .*Future::poll$", c_poll3("open_poll")),
        (r"check_peer_connection_closing$", c_closing),
        (r"^Header::request$", c_header_request),
        (r"^Header::response$", c_header_response),
        (r"^Header::trailer$|into_parts$|^BytesMut::new$|^BytesMut::freeze$|^futures_util::future::poll_fn$|^poll_fn$|^HeaderMap::new$", C.c_opaque),
        (r"handle_connection_error_on_stream$", c_conn_error),
        (r"ConnectionState::set_conn_error_and_wake$", c_set_conn_error),
        (r"^convert_to_connection_error$", C.c_opaque),
        (r"^Code as From::from$", lambda ex, st, key, argv, dest_ty, raw: [Case(None, lambda ex, st, a: mk_code(a[0]))]),
        (r"^connection::RequestStream::new$|^FrameStream::new$|^BufRecvStream::new$|^Arc as Clone::clone$", C.c_opaque),
        (r"ToString::to_string$", C.c_opaque),
    ] + c08.base_contracts()
    return con


def limit_field_index(ex, fn_pat, name):
    fn = ex.find_fn(fn_pat)
    text = "\n".join(s_ for b in fn.blocks.values() for s_ in b.stmts)
    m = re.search(r"\(\(\*_\d+\)\.(\d+): u64\)", text)
    if not m:
        raise Inconclusive(f"{name}: cannot find the read of Settings::max_field_section_size")
    return int(m.group(1))


def send_site(L, log, name, fn_pat, co_ty, upvars, max_polls=4):
    """Poll a send coroutine to completion. Returns list of (state, final Poll value)."""
    con = site_contracts(max_polls)
    ex = E.make_executor(L, SITE_INLINE, con, max_unroll=3)
    # the limit is read through `(*settings).max_field_section_size`: find the field index in config::Settings from the MIR
    idx = limit_field_index(ex, fn_pat, name)
    st = State()
    st.world.update({"poll": 0, "limits_read": [], "size": None, "limit_idx": idx})
    co = Obj(co_ty, z3.BitVecVal(0, 32))
    for i, v in enumerate(upvars(ex)):
        co.fields[(None, i)] = Cell(v)
    st.world["co"] = Cell(co)
    finals = []

    def go(st):
        pin = Obj("Pin<&mut coroutine>")
        pin.fields[(None, 0)] = Cell(Ref(st.world["co"]))
        E.call(ex, st, fn_pat, [pin, Ref(Cell(Obj("Context")))])
        for s, ret in E.collect(ex, st):
            if ret != ("panic",) and z3.is_bv_value(ret.discr) and ret.discr.as_long() == 1:
                if s.world["poll"] + 1 >= max_polls:
                    raise Inconclusive(f"{name}: still pending after {max_polls} polls")
                s.world["poll"] += 1
                go(s)
            else:
                finals.append((s, ret))
    go(st)
    if ex.unroll_exceeded:
        raise Inconclusive("loop bound exceeded: " + repr(ex.unroll_exceeded[:3]))
    return ex, finals


def judge_site(ex, finals, name, viols, wit):
    q = 0
    for s, ret in finals:
        if ret == ("panic",):
            viols.append({"key": f"c10.send.{name}.panic", "what": f"{name} can panic", "model": {}})
            continue
        res = E.get_field(ret, ("Ready", 0))
        size = s.world["size"]
        writes = [e for e in s.effects if e[0] == "write"]
        reads = s.world["limits_read"]
        if size is None:
            if writes:
                viols.append({"key": f"c10.send.{name}.write_without_size", "what": "a frame is written without an encoded size", "model": {}})
            continue
        ok = res.discr.as_long() == 0
        err = None if ok else E.get_field(res, ("Err", 0))
        kind = None
        if err is not None and z3.is_bv_value(err.discr):
            kind = ex.enums.name_of(SE, err.discr.as_long())
        te = s.world.get("transport_error")
        if te is not None:
            # the transport refused (C07, send side): the peer's STOP_SENDING is a fault of this request only
            conn = any(e[0] == "connection_error" for e in s.effects)
            if te == "StreamTerminated":
                code = E.get_field(err, ("RemoteTerminate", 0), (None, 0)) if kind == "RemoteTerminate" else None
                q += 1
                if conn or kind != "RemoteTerminate" or code is None or ex.feasible(s, code != z3.BitVec("peer_stop_code", 64)):
                    viols.append({"key": f"c07.send.{name}.stop_sending_not_stream_scoped",
                                  "what": f"{name}: the peer's STOP_SENDING / stream termination seen by a write is not StreamError::RemoteTerminate with the peer's code, or raises a connection error",
                                  "model": {"outcome": kind, "connection_error": conn}})
                else:
                    wit[f"W.{name}.stop_sending_stream_scoped"] = True
            elif te == "ConnectionErrorIncoming":
                if not conn or kind != "ConnectionError":
                    viols.append({"key": f"c07.send.{name}.connection_error_not_raised", "what": f"{name}: a connection error seen by a write is not raised as the connection's error", "model": {"outcome": kind}})
            elif kind != "Undefined" or conn:
                viols.append({"key": f"c07.send.{name}.transport_specific_error_changed", "what": f"{name}: a transport-specific write error is not passed through as Undefined", "model": {"outcome": kind}})
            continue
        if writes:
            wit[f"W.{name}.written"] = True
            wpoll = writes[0][1]
            lim_now = z3.BitVec(f"peer_limit_at_poll_{wpoll}", 64)
            # the limit in force in the poll that starts the write
            q += 1
            m = ex.model(s, z3.UGT(size, lim_now))
            if m is not None:
                viols.append({"key": f"c10.send.{name}.oversized_section_sent",
                              "what": f"{name} hands a HEADERS frame to the transport although the section is larger than the limit the peer has advertised at that moment "
                                      "(the limit compared was read in an earlier poll)",
                              "model": {"size": m.eval(size, True).as_long(), "limit_at_write": m.eval(lim_now, True).as_long(),
                                        "limits_read": [(k, m.eval(l, True).as_long()) for k, l in reads], "write_started_in_poll": wpoll}})
            fr = writes[0][2]
            if not (isinstance(fr, Obj) and z3.is_bv_value(fr.discr) and ex.enums.name_of("proto::frame::Frame", fr.discr.as_long()) == "Headers") or len(writes) != 1:
                viols.append({"key": f"c10.send.{name}.not_one_headers_frame", "what": "the frame written is not exactly one HEADERS frame", "model": {}})
        elif kind == "HeaderTooBig":
            wit[f"W.{name}.refused"] = True
            if not reads:
                viols.append({"key": f"c10.send.{name}.refused_without_limit", "what": "HeaderTooBig without reading the peer's limit", "model": {}})
                continue
            k, lim = reads[-1]
            q += 1
            m = ex.model(s, z3.ULE(size, lim))
            if m is not None:
                viols.append({"key": f"c10.send.{name}.section_within_limit_refused", "what": f"{name} refuses a section that is within the peer's current limit",
                              "model": {"size": m.eval(size, True).as_long(), "limit": m.eval(lim, True).as_long()}})
            # (the numbers carried by HeaderTooBig are not part of the property: not judged)
            if any(e[0] == "connection_error" for e in s.effects):
                viols.append({"key": f"c10.send.{name}.connection_error_on_oversize", "what": "an oversized section raises a connection error", "model": {}})
        else:
            # no write and no HeaderTooBig although a size was computed: only legitimate when an earlier step failed
            if not any(e in (("open_poll", "err"), ("closing",)) for e in s.effects):
                viols.append({"key": f"c10.send.{name}.neither_sent_nor_refused", "what": "an encoded section is neither written nor refused as too big", "model": {"effects": [e[:2] for e in s.effects]}})
    return q


def part_sites(L, tier, log):
    viols = []
    wit = {}
    fns = set()
    queries = 0
    nstates = 0
    sites = [
        ("send_request", r"^client::connection::<impl[^>]*>::send_request::\{closure#0\}$", "{async fn body of client::connection::SendRequest<T, B>::send_request()}",
         lambda ex: [Ref(Cell(Obj("client::connection::SendRequest<T, B>"))), Obj("http::Request<()>")]),
        ("send_response", r"^server::stream::<impl[^>]*>::send_response::\{closure#0\}$", "{async fn body of server::stream::RequestStream<S, B>::send_response()}",
         lambda ex: [Ref(Cell(Obj("server::stream::RequestStream<S, B>"))), Obj("http::Response<()>")]),
        ("send_trailers", r"^connection::<impl[^>]*>::send_trailers::\{closure#0\}$", "{async fn body of connection::RequestStream<S, B>::send_trailers()}",
         lambda ex: [Ref(Cell(Obj("connection::RequestStream<S, B>"))), Obj("http::HeaderMap")]),
    ]
    for name, pat, co_ty, upvars in sites:
        wit[f"W.{name}.written"] = False
        wit[f"W.{name}.refused"] = False
        wit[f"W.{name}.stop_sending_stream_scoped"] = False
        ex, finals = send_site(L, log, name, pat, co_ty, upvars, max_polls=3 if tier == "quick" else 4)
        queries += judge_site(ex, finals, name, viols, wit) + ex.queries
        nstates += len(finals)
        fns |= ex.functions_used
        log(f"W {name}: {len(finals)} completed call paths")
    return fns, viols, nstates, queries, wit


# ------------------------------------------------------------------------------------------------ part R

def part_431(L, tier, log):
    """resolve() on an oversized request, with everything it calls to answer executed from its real MIR (send_response or
    whatever helper the code uses is NOT abstracted): the contracts are those of the send sites (peer limit per poll, encoded
    size, stream::write)."""
    max_polls = 3

    def c_status(ex, st, key, argv, dest_ty, raw):
        def ap(ex, st, a):
            st.world["status"] = a[1]
            return Obj("http::response::Builder")
        return [Case(None, ap)]
    con = [
        (r"^http::response::Builder::status$", c_status),
        (r"^Response::builder$|^http::response::Builder::body$|^Result::expect$|^Response::new$|status_mut$", C.c_opaque),
        (r" as IntoFuture::into_future$", C.c_identity),
    ] + site_contracts(max_polls)
    ex = E.make_executor(L, SITE_INLINE, con, max_unroll=3)
    st = State()
    size = z3.BitVec("cancel_size", 64)
    mx = z3.BitVec("server_limit", 64)
    rr = Obj("server::request::ResolvedRequest<C, B>")
    rr.fields[(None, 1)] = Cell(ex.make_enum("std::result::Result<qpack::decoder::Decoded, u64>", "Err", [size]))
    rr.fields[(None, 2)] = Cell(mx)
    co = Obj("{async fn body of server::request::ResolvedRequest<C, B>::resolve()}", z3.BitVecVal(0, 32))
    co.fields[(None, 0)] = Cell(rr)
    idx = limit_field_index(ex, r"^server::stream::<impl[^>]*>::send_response::\{closure#0\}$", "send_response")
    st.world.update({"poll": 0, "co": Cell(co), "limits_read": [], "size": None, "limit_idx": idx})
    finals = []

    def go(st):
        pin = Obj("Pin<&mut coroutine>")
        pin.fields[(None, 0)] = Cell(Ref(st.world["co"]))
        E.call(ex, st, r"^server::request::<impl[^>]*>::resolve::\{closure#0\}$", [pin, Ref(Cell(Obj("Context")))])
        for s, ret in E.collect(ex, st):
            if ret != ("panic",) and ret.discr.as_long() == 1:
                if s.world["poll"] + 1 >= max_polls:
                    raise Inconclusive("resolve: still pending after %d polls" % max_polls)
                s.world["poll"] += 1
                go(s)
            else:
                finals.append((s, ret))
    go(st)
    viols = []
    wit = {"R.431_sent_then_header_too_big": False, "R.431_withheld_because_over_client_limit": False, "R.431_write_failed": False}
    q = 0
    for s, ret in finals:
        if ret == ("panic",):
            viols.append({"key": "c10.recv.resolve_oversize.panic", "what": "resolve can panic on an oversized request", "model": {}})
            continue
        res = E.get_field(ret, ("Ready", 0))
        writes = [e for e in s.effects if e[0] == "write"]
        stc = s.world.get("status")
        rsize = s.world.get("size")
        if res.discr.as_long() == 0:
            viols.append({"key": "c10.recv.resolve_oversize.accepted", "what": "an oversized request is handed to the application", "model": {}})
            continue
        if any(e[0] == "connection_error" for e in s.effects) and rsize is not None and s.world.get("transport_error") != "ConnectionErrorIncoming":
            viols.append({"key": "c10.recv.resolve_oversize.connection_error", "what": "an oversized request raises a connection error", "model": {}})
        err = E.get_field(res, ("Err", 0))
        kind = ex.enums.name_of(SE, err.discr.as_long()) if z3.is_bv_value(err.discr) else None
        if writes:
            # the answer went out: it must be the 431 and must respect the client's limit in force at that poll
            if stc is None or "REQUEST_HEADER_FIELDS_TOO_LARGE" not in str(getattr(stc, "name", stc)) or len(writes) != 1:
                viols.append({"key": "c10.recv.resolve_oversize.no_431", "what": "the answer to an oversized request is not exactly one 431 response", "model": {"status": str(stc)}})
            wpoll = writes[0][1]
            lim_now = z3.BitVec(f"peer_limit_at_poll_{wpoll}", 64)
            q += 1
            m = ex.model(s, z3.UGT(rsize, lim_now)) if rsize is not None else None
            if rsize is None or m is not None:
                viols.append({"key": "c10.recv.resolve_oversize.answer_exceeds_client_limit",
                              "what": "the 431 answer to an oversized request is sent although its own field section exceeds the limit the client has advertised",
                              "model": {} if m is None else {"answer_size": m.eval(rsize, True).as_long(), "client_limit": m.eval(lim_now, True).as_long()}})
            wp = [e for e in s.effects if e[0] == "write_poll"]
            if wp and wp[-1][1] == "ok":
                if kind != "HeaderTooBig":
                    viols.append({"key": "c10.recv.resolve_oversize.wrong_outcome",
                                  "what": "after the 431 was sent the call does not end in a header-too-big outcome", "model": {"kind": kind}})
                else:
                    wit["R.431_sent_then_header_too_big"] = True
            else:
                wit["R.431_write_failed"] = True
        else:
            # nothing written: only legitimate when the 431 itself would exceed the client's limit (or encoding failed)
            if rsize is not None:
                reads = s.world["limits_read"]
                q += 1
                if not reads or ex.feasible(s, z3.ULE(rsize, reads[-1][1])):
                    viols.append({"key": "c10.recv.resolve_oversize.no_431", "what": "an oversized request is not answered with a 431 although the answer fits the client's limit", "model": {}})
                elif kind != "HeaderTooBig":
                    viols.append({"key": "c10.recv.resolve_oversize.wrong_outcome", "what": "a withheld 431 does not end in a header-too-big outcome", "model": {"kind": kind}})
                else:
                    wit["R.431_withheld_because_over_client_limit"] = True
    log(f"R resolve(oversized): {len(finals)} paths, callees executed from their MIR: {sorted(n.split('::')[-2] + '::' + n.split('::')[-1] for n in ex.auto_inlined)[:6]}")
    return ex, viols, len(finals), q + ex.queries, wit


def check(L, tier, log, samples):
    t0 = time.time()
    viols, fns, queries, states, wit = [], set(), 0, 0, {}
    ex, v, n, q, w = part_size(L, tier, log)
    viols += v; fns |= ex.functions_used; queries += q + ex.queries; states += n; wit.update(w)
    f2, v, n, q, w = part_sites(L, tier, log)
    viols += v; fns |= f2; queries += q; states += n; wit.update(w)
    ex, v, n, q, w = part_431(L, tier, log)
    viols += v; fns |= ex.functions_used; queries += q; states += n; wit.update(w)
    samples.append({"parts": ["encode_stateless size", "send_request/send_response/send_trailers", "resolve oversized"], "paths": states})
    stats = {"states": states, "transitions": queries, "queries": queries, "solver_s": 0.0, "witness": wit,
             "functions": sorted(fns), "wall_s": round(time.time() - t0, 1)}
    return viols, stats


def replay_args(v):
    k = v["key"]
    if k.startswith("c10.send.send_request.oversized_section_sent"):
        return ("c10_stale_limit", [])
    if k.startswith("c10.recv.resolve_oversize."):
        return ("c10_431_respects_client_limit", [])
    return None


# native scenarios that exercise, against the real build, the behaviours this spec decides: on a tree where the spec finds no
# violation every one of them must NOT reproduce (a scenario that reproduces there means the spec misses something)
SCENARIOS = [('c10_stale_limit', []), ('c10_431_respects_client_limit', [])]
