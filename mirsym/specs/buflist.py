"""C02 / C03 / C19 (byte level) — a list of transport chunks behaves exactly like one contiguous buffer.

Everything h3 reads passes through h3/src/buf.rs: BufList (one entry per transport chunk) and the Cursor the frame decoder
reads through. Analysed (MIR): BufList::{remaining, chunk, advance, take_chunk, take_first_chunk, push_bytes, cursor},
Cursor::{remaining, chunk, advance, position}. The stream is a string of N bytes; EVERY way of cutting N <= 5 (quick) / 6
(thorough) bytes into non-empty chunks is explored (2^(N-1) partitions per N). Contracts: VecDeque as an explicit list,
Bytes as a window [start, start+len) over the stream with remaining / chunk / advance / split_to by their `bytes`
semantics. Decided for every partition:
  * remaining() is the number of bytes left, chunk() is the bytes from the current position to the end of the first entry
    (non-empty while bytes remain);
  * advance(n), every n <= remaining: afterwards the list denotes exactly the suffix from byte n (no byte lost, none kept
    twice), no empty entry is left at the front;
  * take_chunk(max), every max >= 1: returns the bytes [0, min(max, first entry)) in order, the list then denotes the rest;
    repeated until empty it hands out every byte exactly once, in order; take_first_chunk likewise;
  * the cursor: after advance(m), every m <= remaining (in one step or in two steps m1 + m2): position() = m, remaining()
    = N - m, chunk() starts at byte m and is non-empty while m < N; the list itself is untouched - so 'decode through the
    cursor, then advance the list by cursor.position()' consumes exactly the decoded bytes whatever the chunking.
"""
import itertools
import time
import z3

from .. import engine as E
from .. import contracts as C
from ..sym import State, Cell, Obj, Ref, UNIT, Case, Inconclusive
from . import c08


def is_panic(r):
    return isinstance(r, tuple) and len(r) == 1 and r[0] == "panic"


def bv(v):
    return z3.BitVecVal(v, 64)


def ival(v):
    v = z3.simplify(v)
    if not z3.is_bv_value(v):
        raise Inconclusive("symbolic amount in the byte-level spec")
    return v.as_long()


def mk_bytes(start, ln):
    o = Obj("bytes::Bytes")
    o.attrs["win"] = [start, ln]
    return o


def win(o):
    o = C.deref(o)
    if not isinstance(o, Obj) or "win" not in o.attrs:
        raise Inconclusive("not a modelled Bytes value: " + repr(o))
    return o.attrs["win"]


def panic(st, what):
    st.world["__panicked"] = True
    st.effects.append(("panic", what, "", ""))
    return UNIT


def contracts():
    def op(fn):
        def f(ex, st, key, argv, dest_ty, raw):
            return [Case(None, lambda ex, st, a: fn(ex, st, a, dest_ty))]
        return f

    def dq(a0):
        o = C.deref(a0)
        return o.attrs.setdefault("items", [])

    def d_push_back(ex, st, a, dt):
        dq(a[0]).append(Cell(a[1]))
        return UNIT

    def d_front(ex, st, a, dt):
        items = dq(a[0])
        return ex.make_enum(dt, "Some", [Ref(items[0])]) if items else ex.make_enum(dt, "None")

    def d_pop_front(ex, st, a, dt):
        items = dq(a[0])
        if not items:
            return ex.make_enum(dt, "None")
        return ex.make_enum(dt, "Some", [items.pop(0).v])

    def d_index(ex, st, a, dt):
        items = dq(a[0])
        i = ival(a[1])
        if i >= len(items):
            return panic(st, "VecDeque index out of bounds")
        return Ref(items[i])

    def d_sum_remaining(ex, st, a, dt):
        # <Map<vec_deque::Iter<T>, |buf| buf.remaining()> as Iterator>::sum (the closure's body is one call, see the dump)
        it = C.deref(a[0])
        items = it.attrs.get("over", [])
        return bv(sum(win(c.v)[1] for c in items))

    def d_iter(ex, st, a, dt):
        o = Obj(dt or "vec_deque::Iter")
        o.attrs["over"] = dq(a[0])
        return o

    def d_map(ex, st, a, dt):
        o = Obj(dt or "Map")
        o.attrs["over"] = C.deref(a[0]).attrs.get("over", [])
        return o

    def b_remaining(ex, st, a, dt):
        return bv(win(a[0])[1])

    def b_has_remaining(ex, st, a, dt):
        return z3.BoolVal(win(a[0])[1] > 0)

    def b_chunk(ex, st, a, dt):
        s, l = win(a[0])
        sl = Obj("[u8]")
        ex.field(sl, "meta", 0, "usize").v = bv(l)
        sl.attrs["from"] = s
        sl.attrs["len"] = l
        return Ref(Cell(sl))

    def b_advance(ex, st, a, dt):
        w = win(a[0])
        n = ival(a[1])
        if n > w[1]:
            return panic(st, "Bytes::advance past the end")
        w[0] += n
        w[1] -= n
        return UNIT

    def b_split_to(ex, st, a, dt):
        w = win(a[0])
        n = ival(a[1])
        if n > w[1]:
            return panic(st, "Bytes::split_to past the end")
        out = mk_bytes(w[0], n)
        w[0] += n
        w[1] -= n
        return out

    def b_copy_to_bytes(ex, st, a, dt):
        w = win(a[0])
        n = ival(a[1])
        if n > w[1]:
            return panic(st, "copy_to_bytes past the end")
        out = mk_bytes(w[0], n)
        w[0] += n
        w[1] -= n
        return out

    def s_index_from(ex, st, a, dt):
        sl = C.deref(a[0])
        r = C.deref(a[1])
        start = ival(E.get_field(r, (None, 0)) if isinstance(r, Obj) else r)
        if start > sl.attrs.get("len", 0):
            return panic(st, "slice index starts past the end")
        out = Obj("[u8]")
        ex.field(out, "meta", 0, "usize").v = bv(sl.attrs["len"] - start)
        out.attrs["from"] = sl.attrs["from"] + start
        out.attrs["len"] = sl.attrs["len"] - start
        return Ref(Cell(out))

    def o_unwrap_or_default(ex, st, a, dt):
        o = a[0]
        if z3.is_bv_value(o.discr) and o.discr.as_long() == 1:
            return E.get_field(o, ("Some", 0))
        sl = Obj("[u8]")
        ex.field(sl, "meta", 0, "usize").v = bv(0)
        sl.attrs["from"] = None
        sl.attrs["len"] = 0
        return Ref(Cell(sl))
    return [
        (r"^VecDeque::push_back$", op(d_push_back)), (r"^VecDeque::front$|^VecDeque::front_mut$", op(d_front)),
        (r"^VecDeque::pop_front$", op(d_pop_front)), (r"^VecDeque as Index(Mut)?::index(_mut)?$", op(d_index)),
        (r"^VecDeque::iter$", op(d_iter)), (r"Iter as Iterator::map$", op(d_map)), (r"Map as Iterator::sum$", op(d_sum_remaining)),
        (r"^(&mut )?(bytes::Bytes|T|B|&mut T) as Buf::remaining$|^Bytes as Buf::remaining$", op(b_remaining)),
        (r"^(&mut )?(bytes::Bytes|T|B|&mut T) as Buf::has_remaining$", op(b_has_remaining)),
        (r"^(bytes::Bytes|T|B) as Buf::chunk$|^Bytes as Buf::chunk$", op(b_chunk)),
        (r"^(bytes::Bytes|T|B) as Buf::advance$|^Bytes as Buf::advance$", op(b_advance)),
        (r"^bytes::Bytes::split_to$|^Bytes::split_to$", op(b_split_to)), (r"^T as Buf::copy_to_bytes$", op(b_copy_to_bytes)),
        (r"^\[u8\] as Index::index$", op(s_index_from)),
        (r"^Option::unwrap_or_default$", op(o_unwrap_or_default)),
        (r"^usize as Ord::min$", lambda ex, st, key, argv, dest_ty, raw: [Case(None, lambda ex, st, a: z3.If(z3.ULE(a[0], a[1]), a[0], a[1]))]),
        (r"^T as Buf::chunk$", op(b_chunk)),
    ] + c08.base_contracts()


def partitions(n):
    """all compositions of n into positive parts"""
    if n == 0:
        yield []
        return
    for cuts in itertools.product((0, 1), repeat=n - 1):
        parts, cur = [], 1
        for c in cuts:
            if c:
                parts.append(cur)
                cur = 1
            else:
                cur += 1
        parts.append(cur)
        yield parts


def mk_list(ex, parts, start=0):
    bl = Obj("buf::BufList<bytes::Bytes>")
    dq = Obj("std::collections::VecDeque<bytes::Bytes>")
    items = []
    pos = start
    for p in parts:
        items.append(Cell(mk_bytes(pos, p)))
        pos += p
    dq.attrs["items"] = items
    bl.fields[(None, 0)] = Cell(dq)
    return bl


def denotes(bl):
    """the byte positions the list holds, in order; and whether an empty entry exists"""
    items = bl.fields[(None, 0)].v.attrs["items"]
    out = []
    empty = False
    for k, c in enumerate(items):
        s, l = win(c.v)
        # an empty entry at the FRONT makes chunk() empty although bytes remain (breaks the Buf contract the decoders rely on)
        empty |= (l == 0 and k == 0 and len(items) > 1)
        out += list(range(s, s + l))
    return out, empty


def run1(ex, st, pat, args):
    E.call(ex, st, pat, args)
    outs = E.collect(ex, st)
    if ex.unroll_exceeded:
        raise Inconclusive("loop bound exceeded: " + repr(ex.unroll_exceeded[:3]))
    if len(outs) != 1:
        raise Inconclusive(f"{pat}: {len(outs)} paths on concrete data")
    return outs[0]


class Box:
    """objects under test live in the state's world (states are deep-copied at every branch): run() re-reads them"""

    def __init__(self, **objs):
        self.cells = {k: Cell(v) for k, v in objs.items()}

    def run(self, ex, pat, argspec):
        st = State()
        st.world["box"] = self.cells
        args = [Ref(st.world["box"][a[1:]]) if isinstance(a, str) and a.startswith("@") else a for a in argspec]
        s, r = run1(ex, st, pat, args)
        self.cells = s.world["box"]
        return r

    def __getitem__(self, k):
        return self.cells[k].v

    def put(self, k, v):
        self.cells[k] = Cell(v)


def check(L, tier, log, samples):
    t0 = time.time()
    nmax = 5 if tier == "quick" else 6
    inline = [(r"^BufList as Buf::remaining$", r"^buf::<impl[^>]*>::remaining$ @@ ^&BufList"),
              (r"^BufList as Buf::chunk$", r"^buf::<impl[^>]*>::chunk$ @@ ^&BufList"),
              (r"^BufList as Buf::advance$", r"^buf::<impl[^>]*>::advance$ @@ ^&mut BufList")]
    ex = E.make_executor(L, inline, contracts(), max_unroll=nmax + 3, max_paths=100000)
    viols = []
    wit = {"multi_chunk_list": False, "advance_across_chunks": False, "take_chunk_splits_an_entry": False, "cursor_crosses_a_chunk_boundary": False,
           "cursor_two_steps": False}
    cases = 0
    P = {"rem": r"^buf::<impl[^>]*>::remaining$ @@ ^&BufList", "chunk": r"^buf::<impl[^>]*>::chunk$ @@ ^&BufList",
         "adv": r"^buf::<impl[^>]*>::advance$ @@ ^&mut BufList", "take": r"^buf::<impl[^>]*>::take_chunk$",
         "first": r"^buf::<impl[^>]*>::take_first_chunk$", "cursor": r"^buf::<impl[^>]*>::cursor$",
         "crem": r"^buf::<impl[^>]*>::remaining$ @@ Cursor", "cchunk": r"^buf::<impl[^>]*>::chunk$ @@ Cursor",
         "cadv": r"^buf::<impl[^>]*>::advance$ @@ ^&mut buf::Cursor", "cpos": r"^buf::<impl[^>]*>::position$",
         "push": r"^buf::<impl[^>]*>::push_bytes$"}

    def bad(key, what, parts, **m):
        viols.append({"key": key, "what": what, "model": dict(partition=parts, **m)})

    def slice_of(v):
        sl = C.deref(v)
        return sl.attrs.get("from"), sl.attrs.get("len")

    for n in range(0, nmax + 1):
        for parts in partitions(n):
            if len(parts) > 1:
                wit["multi_chunk_list"] = True
            # --- remaining / chunk
            bx = Box(bl=mk_list(ex, parts))
            r = bx.run(ex, P["rem"], ["@bl"])
            cases += 1
            if is_panic(r) or ival(r) != n:
                bad("c02.bytes.remaining_wrong", "BufList::remaining is not the number of buffered bytes", parts)
            r = bx.run(ex, P["chunk"], ["@bl"])
            cases += 1
            f, l = slice_of(r) if not is_panic(r) else (None, None)
            if (n == 0 and l != 0) or (n > 0 and (f != 0 or l != parts[0])):
                bad("c02.bytes.chunk_wrong", "BufList::chunk is not the bytes of the first entry", parts, got=[f, l])
            # --- advance(k)
            for k in range(0, n + 1):
                bx = Box(bl=mk_list(ex, parts))
                r = bx.run(ex, P["adv"], ["@bl", bv(k)])
                cases += 1
                if is_panic(r):
                    bad("c02.bytes.advance_panics", "BufList::advance panics within the buffered bytes", parts, advance=k)
                    continue
                have, empty = denotes(bx["bl"])
                if have != list(range(k, n)) or empty:
                    bad("c02.bytes.advance_loses_or_repeats_bytes", "after BufList::advance(k) the list does not hold exactly the bytes from k on (or keeps an empty entry)",
                        parts, advance=k, holds=have)
                elif len(parts) > 1 and k > parts[0]:
                    wit["advance_across_chunks"] = True
            # --- take_chunk(max) until empty
            for mx in range(1, n + 2):
                bx = Box(bl=mk_list(ex, parts))
                got = []
                okflag = True
                for _ in range(n + 2):
                    r = bx.run(ex, P["take"], ["@bl", bv(mx)])
                    cases += 1
                    if is_panic(r):
                        bad("c03.bytes.take_chunk_panics", "BufList::take_chunk panics", parts, max=mx)
                        okflag = False
                        break
                    if z3.is_bv_value(r.discr) and r.discr.as_long() == 0:
                        break
                    cs, cl = win(E.get_field(r, ("Some", 0)))
                    if cl == 0 or cl > mx:
                        bad("c03.bytes.take_chunk_size", "take_chunk returns an empty chunk or more than max bytes", parts, max=mx, got=cl)
                        okflag = False
                        break
                    if cl < parts[0] and len(got) == 0:
                        wit["take_chunk_splits_an_entry"] = True
                    got += list(range(cs, cs + cl))
                    have, empty = denotes(bx["bl"])
                    if got + have != list(range(n)) or empty:
                        bad("c03.bytes.payload_bytes_lost_or_repeated",
                            "take_chunk hands out / keeps bytes so that handed-out + remaining is no longer the original byte sequence (a byte is lost, repeated or out of order)",
                            parts, max=mx, handed_out=got, remaining=have)
                        okflag = False
                        break
                if okflag and got != list(range(n)):
                    bad("c03.bytes.payload_bytes_lost_or_repeated", "repeated take_chunk does not hand out every byte exactly once in order", parts, max=mx, handed_out=got)
            # --- take_first_chunk
            bx = Box(bl=mk_list(ex, parts))
            r = bx.run(ex, P["first"], ["@bl"])
            cases += 1
            if n > 0:
                cs, cl = win(E.get_field(r, ("Some", 0))) if not is_panic(r) and r.discr.as_long() == 1 else (None, None)
                have, _ = denotes(bx["bl"])
                if cs != 0 or cl != parts[0] or have != list(range(parts[0], n)):
                    bad("c19.bytes.first_chunk_wrong", "take_first_chunk does not return the whole first entry / keep the rest", parts)
            # --- cursor: advance(m) in one or two steps
            for m1 in range(0, n + 1):
                for m2 in range(0, n - m1 + 1):
                    bx = Box(bl=mk_list(ex, parts))
                    cur = bx.run(ex, P["cursor"], ["@bl"])
                    # the cursor borrows the list: re-point it at the list object of the current state
                    bx.put("cur", cur)
                    failed = False
                    for step in (m1, m2):
                        r = bx.run(ex, P["cadv"], ["@cur", bv(step)])
                        cases += 1
                        if is_panic(r):
                            bad("c02.bytes.cursor_advance_panics", "Cursor::advance panics within the buffered bytes", parts, steps=[m1, m2])
                            failed = True
                            break
                    if failed:
                        continue
                    m = m1 + m2
                    pos = bx.run(ex, P["cpos"], ["@cur"])
                    rem = bx.run(ex, P["crem"], ["@cur"])
                    cases += 2
                    if ival(pos) != m or is_panic(rem) or ival(rem) != n - m:
                        bad("c02.bytes.cursor_position_wrong", "after Cursor::advance the position / remaining count is wrong", parts, steps=[m1, m2],
                            position=ival(pos), remaining=None if is_panic(rem) else ival(rem))
                        continue
                    if m < n:
                        ch = bx.run(ex, P["cchunk"], ["@cur"])
                        cases += 1
                        f, l = slice_of(ch) if not is_panic(ch) else (None, None)
                        if f != m or not l or l < 1:
                            bad("c02.bytes.cursor_reads_wrong_byte",
                                "after advancing the cursor by m bytes its chunk() does not start at byte m (a payload byte would be read as a header byte or vice versa)",
                                parts, steps=[m1, m2], chunk_starts_at=f, chunk_len=l)
                            continue
                        if len(parts) > 1 and m >= parts[0]:
                            wit["cursor_crosses_a_chunk_boundary"] = True
                        if m1 and m2:
                            wit["cursor_two_steps"] = True
                    have, _ = denotes(bx["bl"])
                    if have != list(range(n)):
                        bad("c02.bytes.cursor_modifies_list", "reading through the cursor changes the list", parts)
    # --- push_bytes appends one entry holding the whole chunk
    for k in (1, 3):
        bx = Box(bl=mk_list(ex, [2]), src=mk_bytes(2, k))
        r = bx.run(ex, P["push"], ["@bl", "@src"])
        cases += 1
        have, empty = denotes(bx["bl"])
        if is_panic(r) or have != list(range(0, 2 + k)) or empty:
            bad("c02.bytes.push_bytes_wrong", "push_bytes does not append the whole chunk as one entry", [2], pushed=k)
    log(f"BufList / Cursor: every partition of 0..{nmax} bytes, {cases} concrete-shape executions")
    samples.append({"partitions_of": nmax, "executions": cases})
    stats = {"states": cases, "transitions": ex.queries + cases, "queries": ex.queries + cases, "solver_s": round(ex.solver_s, 2), "witness": wit,
             "functions": sorted(ex.functions_used), "wall_s": round(time.time() - t0, 1), "max_unroll": nmax}
    return viols, stats


SCENARIOS = [("c02_chunking_independence", []), ("c02_decoder_memo", []), ("c19_payload_with_header", [])]


def replay_args(v):
    return ("c02_chunking_independence", [])
