"""C02 / C03 / C19 (byte level) — a list of transport chunks behaves exactly like one contiguous buffer.

Everything h3 reads passes through h3/src/buf.rs: BufList (one entry per transport chunk) and the Cursor the frame decoder
reads through. Analysed (MIR): BufList::{remaining, chunk, advance, take_chunk, take_first_chunk, push_bytes, cursor},
Cursor::{remaining, chunk, advance, position}. Contracts: VecDeque as an explicit list, Bytes as a window [start, start+len)
over the stream with remaining / chunk / advance / split_to by their `bytes` semantics (a request past the window panics).
Deciding run (z3): lists of 0..3 (quick) / 0..4 (thorough) entries whose LENGTHS are solver variables (any length from 1 to
2^12 - 1 each, first entry possibly partly consumed) and SYMBOLIC amounts:
  * remaining() is the sum of the lengths, chunk() is the rest of the first entry;
  * advance(n), any n <= remaining: afterwards the list denotes exactly the suffix from byte n - windows contiguous, none
    empty, ending where the list ended (no byte lost, none kept twice);
  * take_chunk(limit), any limit >= 1, ONE step from an arbitrary valid list: returns exactly the first min(limit, first
    entry) bytes and keeps exactly the rest - by induction over the calls every payload byte is handed out exactly once, in
    order, whatever the limits;
  * the cursor, ONE advance(c) from an arbitrary valid cursor position (any entry, any offset inside it), any c <= what is
    left: the cursor is at position + c, inside its entry (or at the end), chunk() there starts at exactly that byte and is
    not empty while bytes are left, the list is untouched - by induction 'decode through the cursor, then advance the list
    by cursor.position()' consumes exactly the decoded bytes whatever the chunking.
Second, independent run of the same MIR under concrete contracts: EVERY way of cutting 0..5 / 0..6 bytes into chunks, with
take_chunk repeated until empty, two-step cursor reads, take_first_chunk and push_bytes.
"""
import itertools
import re
import time
import z3

from .. import engine as E
from .. import contracts as C
from ..sym import State, Cell, Obj, Ref, UNIT, Case, Inconclusive
from . import c08


def is_panic(r):
    return isinstance(r, tuple) and len(r) == 1 and r[0] == "panic"


def bv(v):
    return z3.BitVecVal(v, 64)


def ival(v):
    v = z3.simplify(v)
    if not z3.is_bv_value(v):
        raise Inconclusive("symbolic amount in the byte-level spec")
    return v.as_long()


def mk_bytes(start, ln):
    o = Obj("bytes::Bytes")
    o.attrs["win"] = [start, ln]
    return o


def win(o):
    o = C.deref(o)
    if not isinstance(o, Obj) or "win" not in o.attrs:
        raise Inconclusive("not a modelled Bytes value: " + repr(o))
    return o.attrs["win"]


def panic(st, what):
    st.world["__panicked"] = True
    st.effects.append(("panic", what, "", ""))
    return UNIT


def contracts():
    def op(fn):
        def f(ex, st, key, argv, dest_ty, raw):
            return [Case(None, lambda ex, st, a: fn(ex, st, a, dest_ty))]
        return f

    def dq(a0):
        o = C.deref(a0)
        return o.attrs.setdefault("items", [])

    def d_push_back(ex, st, a, dt):
        dq(a[0]).append(Cell(a[1]))
        return UNIT

    def d_front(ex, st, a, dt):
        items = dq(a[0])
        return ex.make_enum(dt, "Some", [Ref(items[0])]) if items else ex.make_enum(dt, "None")

    def d_pop_front(ex, st, a, dt):
        items = dq(a[0])
        if not items:
            return ex.make_enum(dt, "None")
        return ex.make_enum(dt, "Some", [items.pop(0).v])

    def d_index(ex, st, a, dt):
        items = dq(a[0])
        i = ival(a[1])
        if i >= len(items):
            return panic(st, "VecDeque index out of bounds")
        return Ref(items[i])

    def d_sum_remaining(ex, st, a, dt):
        # <Map<vec_deque::Iter<T>, |buf| buf.remaining()> as Iterator>::sum (the closure's body is one call, see the dump)
        it = C.deref(a[0])
        items = it.attrs.get("over", [])
        return bv(sum(win(c.v)[1] for c in items))

    def d_iter(ex, st, a, dt):
        o = Obj(dt or "vec_deque::Iter")
        o.attrs["over"] = dq(a[0])
        return o

    def d_map(ex, st, a, dt):
        o = Obj(dt or "Map")
        o.attrs["over"] = C.deref(a[0]).attrs.get("over", [])
        return o

    def b_remaining(ex, st, a, dt):
        return bv(win(a[0])[1])

    def b_has_remaining(ex, st, a, dt):
        return z3.BoolVal(win(a[0])[1] > 0)

    def b_chunk(ex, st, a, dt):
        s, l = win(a[0])
        sl = Obj("[u8]")
        ex.field(sl, "meta", 0, "usize").v = bv(l)
        sl.attrs["from"] = s
        sl.attrs["len"] = l
        return Ref(Cell(sl))

    def b_advance(ex, st, a, dt):
        w = win(a[0])
        n = ival(a[1])
        if n > w[1]:
            return panic(st, "Bytes::advance past the end")
        w[0] += n
        w[1] -= n
        return UNIT

    def b_split_to(ex, st, a, dt):
        w = win(a[0])
        n = ival(a[1])
        if n > w[1]:
            return panic(st, "Bytes::split_to past the end")
        out = mk_bytes(w[0], n)
        w[0] += n
        w[1] -= n
        return out

    def b_copy_to_bytes(ex, st, a, dt):
        w = win(a[0])
        n = ival(a[1])
        if n > w[1]:
            return panic(st, "copy_to_bytes past the end")
        out = mk_bytes(w[0], n)
        w[0] += n
        w[1] -= n
        return out

    def s_index_from(ex, st, a, dt):
        sl = C.deref(a[0])
        r = C.deref(a[1])
        start = ival(E.get_field(r, (None, 0)) if isinstance(r, Obj) else r)
        if start > sl.attrs.get("len", 0):
            return panic(st, "slice index starts past the end")
        out = Obj("[u8]")
        ex.field(out, "meta", 0, "usize").v = bv(sl.attrs["len"] - start)
        out.attrs["from"] = sl.attrs["from"] + start
        out.attrs["len"] = sl.attrs["len"] - start
        return Ref(Cell(out))

    def o_unwrap_or_default(ex, st, a, dt):
        o = a[0]
        if z3.is_bv_value(o.discr) and o.discr.as_long() == 1:
            return E.get_field(o, ("Some", 0))
        sl = Obj("[u8]")
        ex.field(sl, "meta", 0, "usize").v = bv(0)
        sl.attrs["from"] = None
        sl.attrs["len"] = 0
        return Ref(Cell(sl))
    return [
        (r"^VecDeque::push_back$", op(d_push_back)), (r"^VecDeque::front$|^VecDeque::front_mut$", op(d_front)),
        (r"^VecDeque::pop_front$", op(d_pop_front)), (r"^VecDeque as Index(Mut)?::index(_mut)?$", op(d_index)),
        (r"^VecDeque::iter$", op(d_iter)), (r"Iter as Iterator::map$", op(d_map)), (r"Map as Iterator::sum$", op(d_sum_remaining)),
        (r"^(&mut )?(bytes::Bytes|T|B|&mut T) as Buf::remaining$|^Bytes as Buf::remaining$", op(b_remaining)),
        (r"^(&mut )?(bytes::Bytes|T|B|&mut T) as Buf::has_remaining$", op(b_has_remaining)),
        (r"^(bytes::Bytes|T|B) as Buf::chunk$|^Bytes as Buf::chunk$", op(b_chunk)),
        (r"^(bytes::Bytes|T|B) as Buf::advance$|^Bytes as Buf::advance$", op(b_advance)),
        (r"^bytes::Bytes::split_to$|^Bytes::split_to$", op(b_split_to)), (r"^T as Buf::copy_to_bytes$", op(b_copy_to_bytes)),
        (r"^\[u8\] as Index::index$", op(s_index_from)),
        (r"^Option::unwrap_or_default$", op(o_unwrap_or_default)),
        (r"^usize as Ord::min$", lambda ex, st, key, argv, dest_ty, raw: [Case(None, lambda ex, st, a: z3.If(z3.ULE(a[0], a[1]), a[0], a[1]))]),
        (r"^T as Buf::chunk$", op(b_chunk)),
    ] + c08.base_contracts()


def partitions(n):
    """all compositions of n into positive parts"""
    if n == 0:
        yield []
        return
    for cuts in itertools.product((0, 1), repeat=n - 1):
        parts, cur = [], 1
        for c in cuts:
            if c:
                parts.append(cur)
                cur = 1
            else:
                cur += 1
        parts.append(cur)
        yield parts


def mk_list(ex, parts, start=0):
    bl = Obj("buf::BufList<bytes::Bytes>")
    dq = Obj("std::collections::VecDeque<bytes::Bytes>")
    items = []
    pos = start
    for p in parts:
        items.append(Cell(mk_bytes(pos, p)))
        pos += p
    dq.attrs["items"] = items
    bl.fields[(None, 0)] = Cell(dq)
    return bl


def denotes(bl):
    """the byte positions the list holds, in order; and whether an empty entry exists"""
    items = bl.fields[(None, 0)].v.attrs["items"]
    out = []
    empty = False
    for k, c in enumerate(items):
        s, l = win(c.v)
        # an empty entry at the FRONT makes chunk() empty although bytes remain (breaks the Buf contract the decoders rely on)
        empty |= (l == 0 and k == 0 and len(items) > 1)
        out += list(range(s, s + l))
    return out, empty


def run1(ex, st, pat, args):
    E.call(ex, st, pat, args)
    outs = E.collect(ex, st)
    if ex.unroll_exceeded:
        raise Inconclusive("loop bound exceeded: " + repr(ex.unroll_exceeded[:3]))
    if len(outs) != 1:
        raise Inconclusive(f"{pat}: {len(outs)} paths on concrete data")
    return outs[0]


class Box:
    """objects under test live in the state's world (states are deep-copied at every branch): run() re-reads them"""

    def __init__(self, **objs):
        self.cells = {k: Cell(v) for k, v in objs.items()}

    def run(self, ex, pat, argspec):
        st = State()
        st.world["box"] = self.cells
        args = [Ref(st.world["box"][a[1:]]) if isinstance(a, str) and a.startswith("@") else a for a in argspec]
        s, r = run1(ex, st, pat, args)
        self.cells = s.world["box"]
        return r

    def __getitem__(self, k):
        return self.cells[k].v

    def put(self, k, v):
        self.cells[k] = Cell(v)


def check(L, tier, log, samples):
    t0 = time.time()
    nmax = 5 if tier == "quick" else 6
    inline = [(r"^BufList as Buf::remaining$", r"^buf::<impl[^>]*>::remaining$ @@ ^&BufList"),
              (r"^BufList as Buf::chunk$", r"^buf::<impl[^>]*>::chunk$ @@ ^&BufList"),
              (r"^BufList as Buf::advance$", r"^buf::<impl[^>]*>::advance$ @@ ^&mut BufList")]
    ex = E.make_executor(L, inline, contracts(), max_unroll=nmax + 3, max_paths=100000)
    viols = []
    wit = {"multi_chunk_list": False, "advance_across_chunks": False, "take_chunk_splits_an_entry": False, "cursor_crosses_a_chunk_boundary": False,
           "cursor_two_steps": False}
    cases = 0
    P = {"rem": r"^buf::<impl[^>]*>::remaining$ @@ ^&BufList", "chunk": r"^buf::<impl[^>]*>::chunk$ @@ ^&BufList",
         "adv": r"^buf::<impl[^>]*>::advance$ @@ ^&mut BufList", "take": r"^buf::<impl[^>]*>::take_chunk$",
         "first": r"^buf::<impl[^>]*>::take_first_chunk$", "cursor": r"^buf::<impl[^>]*>::cursor$",
         "crem": r"^buf::<impl[^>]*>::remaining$ @@ Cursor", "cchunk": r"^buf::<impl[^>]*>::chunk$ @@ Cursor",
         "cadv": r"^buf::<impl[^>]*>::advance$ @@ ^&mut buf::Cursor", "cpos": r"^buf::<impl[^>]*>::position$",
         "push": r"^buf::<impl[^>]*>::push_bytes$"}

    def bad(key, what, parts, **m):
        viols.append({"key": key, "what": what, "model": dict(partition=parts, **m)})

    def slice_of(v):
        sl = C.deref(v)
        return sl.attrs.get("from"), sl.attrs.get("len")

    for n in range(0, nmax + 1):
        for parts in partitions(n):
            if len(parts) > 1:
                wit["multi_chunk_list"] = True
            # --- remaining / chunk
            bx = Box(bl=mk_list(ex, parts))
            r = bx.run(ex, P["rem"], ["@bl"])
            cases += 1
            if is_panic(r) or ival(r) != n:
                bad("c02.bytes.remaining_wrong", "BufList::remaining is not the number of buffered bytes", parts)
            r = bx.run(ex, P["chunk"], ["@bl"])
            cases += 1
            f, l = slice_of(r) if not is_panic(r) else (None, None)
            if (n == 0 and l != 0) or (n > 0 and (f != 0 or l != parts[0])):
                bad("c02.bytes.chunk_wrong", "BufList::chunk is not the bytes of the first entry", parts, got=[f, l])
            # --- advance(k)
            for k in range(0, n + 1):
                bx = Box(bl=mk_list(ex, parts))
                r = bx.run(ex, P["adv"], ["@bl", bv(k)])
                cases += 1
                if is_panic(r):
                    bad("c02.bytes.advance_panics", "BufList::advance panics within the buffered bytes", parts, advance=k)
                    continue
                have, empty = denotes(bx["bl"])
                if have != list(range(k, n)) or empty:
                    bad("c02.bytes.advance_loses_or_repeats_bytes", "after BufList::advance(k) the list does not hold exactly the bytes from k on (or keeps an empty entry)",
                        parts, advance=k, holds=have)
                elif len(parts) > 1 and k > parts[0]:
                    wit["advance_across_chunks"] = True
            # --- take_chunk(max) until empty
            for mx in range(1, n + 2):
                bx = Box(bl=mk_list(ex, parts))
                got = []
                okflag = True
                for _ in range(n + 2):
                    r = bx.run(ex, P["take"], ["@bl", bv(mx)])
                    cases += 1
                    if is_panic(r):
                        bad("c03.bytes.take_chunk_panics", "BufList::take_chunk panics", parts, max=mx)
                        okflag = False
                        break
                    if z3.is_bv_value(r.discr) and r.discr.as_long() == 0:
                        break
                    cs, cl = win(E.get_field(r, ("Some", 0)))
                    if cl == 0 or cl > mx:
                        bad("c03.bytes.take_chunk_size", "take_chunk returns an empty chunk or more than max bytes", parts, max=mx, got=cl)
                        okflag = False
                        break
                    if cl < parts[0] and len(got) == 0:
                        wit["take_chunk_splits_an_entry"] = True
                    got += list(range(cs, cs + cl))
                    have, empty = denotes(bx["bl"])
                    if got + have != list(range(n)) or empty:
                        bad("c03.bytes.payload_bytes_lost_or_repeated",
                            "take_chunk hands out / keeps bytes so that handed-out + remaining is no longer the original byte sequence (a byte is lost, repeated or out of order)",
                            parts, max=mx, handed_out=got, remaining=have)
                        okflag = False
                        break
                if okflag and got != list(range(n)):
                    bad("c03.bytes.payload_bytes_lost_or_repeated", "repeated take_chunk does not hand out every byte exactly once in order", parts, max=mx, handed_out=got)
            # --- take_first_chunk
            bx = Box(bl=mk_list(ex, parts))
            r = bx.run(ex, P["first"], ["@bl"])
            cases += 1
            if n > 0:
                cs, cl = win(E.get_field(r, ("Some", 0))) if not is_panic(r) and r.discr.as_long() == 1 else (None, None)
                have, _ = denotes(bx["bl"])
                if cs != 0 or cl != parts[0] or have != list(range(parts[0], n)):
                    bad("c19.bytes.first_chunk_wrong", "take_first_chunk does not return the whole first entry / keep the rest", parts)
            # --- cursor: advance(m) in one or two steps
            for m1 in range(0, n + 1):
                for m2 in range(0, n - m1 + 1):
                    bx = Box(bl=mk_list(ex, parts))
                    cur = bx.run(ex, P["cursor"], ["@bl"])
                    # the cursor borrows the list: re-point it at the list object of the current state
                    bx.put("cur", cur)
                    failed = False
                    for step in (m1, m2):
                        r = bx.run(ex, P["cadv"], ["@cur", bv(step)])
                        cases += 1
                        if is_panic(r):
                            bad("c02.bytes.cursor_advance_panics", "Cursor::advance panics within the buffered bytes", parts, steps=[m1, m2])
                            failed = True
                            break
                    if failed:
                        continue
                    m = m1 + m2
                    pos = bx.run(ex, P["cpos"], ["@cur"])
                    rem = bx.run(ex, P["crem"], ["@cur"])
                    cases += 2
                    if ival(pos) != m or is_panic(rem) or ival(rem) != n - m:
                        bad("c02.bytes.cursor_position_wrong", "after Cursor::advance the position / remaining count is wrong", parts, steps=[m1, m2],
                            position=ival(pos), remaining=None if is_panic(rem) else ival(rem))
                        continue
                    if m < n:
                        ch = bx.run(ex, P["cchunk"], ["@cur"])
                        cases += 1
                        f, l = slice_of(ch) if not is_panic(ch) else (None, None)
                        if f != m or not l or l < 1:
                            bad("c02.bytes.cursor_reads_wrong_byte",
                                "after advancing the cursor by m bytes its chunk() does not start at byte m (a payload byte would be read as a header byte or vice versa)",
                                parts, steps=[m1, m2], chunk_starts_at=f, chunk_len=l)
                            continue
                        if len(parts) > 1 and m >= parts[0]:
                            wit["cursor_crosses_a_chunk_boundary"] = True
                        if m1 and m2:
                            wit["cursor_two_steps"] = True
                    have, _ = denotes(bx["bl"])
                    if have != list(range(n)):
                        bad("c02.bytes.cursor_modifies_list", "reading through the cursor changes the list", parts)
    # --- push_bytes appends one entry holding the whole chunk
    for k in (1, 3):
        bx = Box(bl=mk_list(ex, [2]), src=mk_bytes(2, k))
        r = bx.run(ex, P["push"], ["@bl", "@src"])
        cases += 1
        have, empty = denotes(bx["bl"])
        if is_panic(r) or have != list(range(0, 2 + k)) or empty:
            bad("c02.bytes.push_bytes_wrong", "push_bytes does not append the whole chunk as one entry", [2], pushed=k)
    log(f"BufList / Cursor: every partition of 0..{nmax} bytes, {cases} concrete-shape executions")
    samples.append({"partitions_of": nmax, "executions": cases})
    stats = {"states": cases, "transitions": ex.queries + cases, "queries": ex.queries + cases, "solver_s": round(ex.solver_s, 2), "witness": wit,
             "functions": sorted(ex.functions_used), "wall_s": round(time.time() - t0, 1), "max_unroll": nmax}
    return viols, stats


SCENARIOS = [("c02_chunking_independence", []), ("c02_decoder_memo", []), ("c19_payload_with_header", [])]


def replay_args(v):
    return ("c02_chunking_independence", [])


# ================================================================================================
# symbolic version: chunk LENGTHS are solver variables (any length below 2^32), amounts are solver variables

# entry lengths and the first position are symbolic below 2^LEN_BITS. The code only ever COMPARES lengths and amounts (no
# constant thresholds), and the queries are chains of 64-bit subtractions and comparisons: with 32 free bits per variable the
# SAT back end needs minutes per query, with 12 it answers at once.
LEN_BITS = 12


def sym_contracts():
    def op(fn):
        def f(ex, st, key, argv, dest_ty, raw):
            return fn(ex, st, key, argv, dest_ty)
        return f

    def one(fn):
        def f(ex, st, key, argv, dest_ty, raw):
            return [Case(None, lambda ex, st, a: fn(ex, st, a, dest_ty))]
        return f

    def dq(a0):
        return C.deref(a0).attrs.setdefault("items", [])

    def W(o):
        return win(o)

    def d_push_back(ex, st, a, dt):
        dq(a[0]).append(Cell(a[1]))
        return UNIT

    def d_front(ex, st, a, dt):
        items = dq(a[0])
        return ex.make_enum(dt, "Some", [Ref(items[0])]) if items else ex.make_enum(dt, "None")

    def d_pop_front(ex, st, a, dt):
        items = dq(a[0])
        if not items:
            return ex.make_enum(dt, "None")
        return ex.make_enum(dt, "Some", [items.pop(0).v])

    def d_index(ex, st, a, dt):
        items = dq(a[0])
        i = ival(a[1])          # indices are concrete: they only ever count entries
        if i >= len(items):
            return panic(st, "VecDeque index out of bounds")
        return Ref(items[i])

    def d_iter(ex, st, a, dt):
        o = Obj(dt or "vec_deque::Iter")
        o.attrs["over"] = dq(a[0])
        return o

    def d_map(ex, st, a, dt):
        o = Obj(dt or "Map")
        o.attrs["over"] = C.deref(a[0]).attrs.get("over", [])
        return o

    def d_sum(ex, st, a, dt):
        tot = bv(0)
        for c in C.deref(a[0]).attrs.get("over", []):
            tot = tot + W(c.v)[1]
        return tot

    def b_remaining(ex, st, a, dt):
        return W(a[0])[1]

    def b_has_remaining(ex, st, a, dt):
        return W(a[0])[1] != 0

    def b_chunk(ex, st, a, dt):
        s_, l_ = W(a[0])
        sl = Obj("[u8]")
        ex.field(sl, "meta", 0, "usize").v = l_
        sl.attrs["from"] = s_
        sl.attrs["len"] = l_
        return Ref(Cell(sl))

    def consume(kind):
        # advance / split_to / copy_to_bytes(n): within the window, or a panic of the bytes crate
        def f(ex, st, key, argv, dest_ty):
            w0 = W(argv[0])
            n0 = argv[1]

            def ok(ex, st, a):
                w = W(a[0])
                n = a[1]
                out = mk_bytes(w[0], n) if kind != "advance" else UNIT
                w[0] = w[0] + n
                w[1] = w[1] - n
                return out
            return [Case(z3.ULE(n0, w0[1]), ok), Case(z3.UGT(n0, w0[1]), lambda ex, st, a: panic(st, "bytes: " + kind + " past the end"))]
        return f

    def s_index_from(ex, st, key, argv, dest_ty):
        sl0 = C.deref(argv[0])
        r0 = C.deref(argv[1])
        start0 = E.get_field(r0, (None, 0)) if isinstance(r0, Obj) else r0

        def ok(ex, st, a):
            sl = C.deref(a[0])
            r = C.deref(a[1])
            start = E.get_field(r, (None, 0)) if isinstance(r, Obj) else r
            out = Obj("[u8]")
            ex.field(out, "meta", 0, "usize").v = sl.attrs["len"] - start
            out.attrs["from"] = sl.attrs["from"] + start
            out.attrs["len"] = sl.attrs["len"] - start
            return Ref(Cell(out))
        return [Case(z3.ULE(start0, sl0.attrs["len"]), ok), Case(z3.UGT(start0, sl0.attrs["len"]), lambda ex, st, a: panic(st, "slice index starts past the end"))]

    def o_unwrap_or_default(ex, st, a, dt):
        o = a[0]
        if z3.is_bv_value(o.discr) and o.discr.as_long() == 1:
            return E.get_field(o, ("Some", 0))
        sl = Obj("[u8]")
        ex.field(sl, "meta", 0, "usize").v = bv(0)
        sl.attrs["from"] = bv(0)
        sl.attrs["len"] = bv(0)
        return Ref(Cell(sl))
    return [
        (r"^VecDeque::push_back$", one(d_push_back)), (r"^VecDeque::front$|^VecDeque::front_mut$", one(d_front)),
        (r"^VecDeque::pop_front$", one(d_pop_front)), (r"^VecDeque as Index(Mut)?::index(_mut)?$", one(d_index)),
        (r"^VecDeque::iter$", one(d_iter)), (r"Iter as Iterator::map$", one(d_map)), (r"Map as Iterator::sum$", one(d_sum)),
        (r"^(&mut )?(bytes::Bytes|T|B|&mut T) as Buf::remaining$|^Bytes as Buf::remaining$", one(b_remaining)),
        (r"^(&mut )?(bytes::Bytes|T|B|&mut T) as Buf::has_remaining$", one(b_has_remaining)),
        (r"^(bytes::Bytes|T|B) as Buf::chunk$|^Bytes as Buf::chunk$", one(b_chunk)),
        (r"^(bytes::Bytes|T|B) as Buf::advance$|^Bytes as Buf::advance$", op(consume("advance"))),
        (r"^bytes::Bytes::split_to$|^Bytes::split_to$", op(consume("split_to"))), (r"^T as Buf::copy_to_bytes$", op(consume("copy_to_bytes"))),
        (r"^\[u8\] as Index::index$", op(s_index_from)),
        (r"^Option::unwrap_or_default$", one(o_unwrap_or_default)),
        (r"^usize as Ord::min$", lambda ex, st, key, argv, dest_ty, raw: [Case(None, lambda ex, st, a: z3.If(z3.ULE(a[0], a[1]), a[0], a[1]))]),
    ] + c08.base_contracts()


def sym_list(ex, st, k, tagp, first_start=None):
    """k entries with symbolic lengths (1 <= L < 2^LEN_BITS) laid out contiguously from a symbolic first position"""
    bl = Obj("buf::BufList<bytes::Bytes>")
    dqo = Obj("std::collections::VecDeque<bytes::Bytes>")
    items, lens = [], []
    pos = first_start if first_start is not None else bv(0)
    start0 = pos
    for i in range(k):
        L_ = z3.BitVec(f"{tagp}_len{i}", 64)
        st.pc.append(z3.And(z3.Extract(63, LEN_BITS, L_) == 0, L_ != 0))
        items.append(Cell(mk_bytes(pos, L_)))
        lens.append(L_)
        pos = pos + L_
    dqo.attrs["items"] = items
    bl.fields[(None, 0)] = Cell(dqo)
    return bl, lens, start0, pos


def denotes_suffix(bl, frm, end):
    """z3 condition: the list's windows are contiguous from `frm` to `end`, none empty"""
    items = bl.fields[(None, 0)].v.attrs["items"]
    conds = []
    pos = frm
    for c in items:
        s_, l_ = win(c.v)
        conds.append(s_ == pos)
        conds.append(l_ != 0)
        pos = pos + l_
    conds.append(pos == end)
    return z3.And(conds) if conds else z3.BoolVal(True)


def run_all(ex, st, pat, args):
    E.call(ex, st, pat, args)
    outs = E.collect(ex, st)
    if ex.unroll_exceeded:
        raise Inconclusive("loop bound exceeded: " + repr(ex.unroll_exceeded[:3]))
    return outs


def check_symbolic(L, tier, log, samples):
    kmax = 3 if tier == "quick" else 4
    inline = [(r"^BufList as Buf::remaining$", r"^buf::<impl[^>]*>::remaining$ @@ ^&BufList"),
              (r"^BufList as Buf::chunk$", r"^buf::<impl[^>]*>::chunk$ @@ ^&BufList"),
              (r"^BufList as Buf::advance$", r"^buf::<impl[^>]*>::advance$ @@ ^&mut BufList")]
    ex = E.make_executor(L, inline, sym_contracts(), max_unroll=kmax + 3, max_paths=100000)
    P = {"rem": r"^buf::<impl[^>]*>::remaining$ @@ ^&BufList", "chunk": r"^buf::<impl[^>]*>::chunk$ @@ ^&BufList",
         "adv": r"^buf::<impl[^>]*>::advance$ @@ ^&mut BufList", "take": r"^buf::<impl[^>]*>::take_chunk$",
         "crem": r"^buf::<impl[^>]*>::remaining$ @@ Cursor", "cchunk": r"^buf::<impl[^>]*>::chunk$ @@ Cursor",
         "cadv": r"^buf::<impl[^>]*>::advance$ @@ ^&mut buf::Cursor"}
    viols = []
    wit = {"advance_stops_inside_an_entry": False, "advance_crosses_entries": False, "advance_consumes_everything": False,
           "take_chunk_splits_an_entry": False, "take_chunk_takes_a_whole_entry": False,
           "cursor_stops_inside_an_entry": False, "cursor_crosses_entries": False, "cursor_reaches_the_end": False}
    paths = 0
    q = 0

    def bad(key, what, s, extra, **m):
        mdl = ex.model(s, extra)
        vals = {}
        if mdl is not None:
            for d in mdl.decls():
                if d.name().startswith(("l_", "c_", "t_", "n_", "amount", "limit", "pos_front")):
                    vals[d.name()] = mdl[d].as_long()
        viols.append({"key": key, "what": what, "model": dict(values=vals, **m)})

    for k in range(0, kmax + 1):
        # ---------------- advance(n), n <= remaining, from a list whose first entry may be partly consumed
        st = State()
        start = z3.BitVec("l_first_pos", 64)
        st.pc.append(z3.Extract(63, LEN_BITS, start) == 0)
        bl, lens, s0, end = sym_list(ex, st, k, "l", start)
        n = z3.BitVec("amount", 64)
        st.pc.append(z3.And(z3.ULE(n, end - s0), z3.Extract(63, LEN_BITS + 3, n) == 0))
        st.world["box"] = {"bl": Cell(bl)}
        for s, r in run_all(ex, st, P["adv"], [Ref(st.world["box"]["bl"]), n]):
            paths += 1
            if is_panic(r):
                bad("c02.bytes.advance_panics", "BufList::advance panics for an amount within what is buffered", s, z3.BoolVal(True), entries=k)
                continue
            post = s.world["box"]["bl"].v
            q += 1
            if ex.feasible(s, z3.Not(denotes_suffix(post, s0 + n, end))):
                bad("c02.bytes.advance_loses_or_repeats_bytes",
                    "after BufList::advance(n) the list does not hold exactly the bytes from position n on (a byte is lost or kept twice, or an empty entry stays at the front)",
                    s, z3.Not(denotes_suffix(post, s0 + n, end)), entries=k)
                continue
            left = len(post.fields[(None, 0)].v.attrs["items"])
            if k and left == k and ex.feasible(s, n != 0):
                wit["advance_stops_inside_an_entry"] = True
            if k >= 2 and 0 < left < k:
                wit["advance_crosses_entries"] = True
            if k and left == 0:
                wit["advance_consumes_everything"] = True
        # ---------------- remaining / chunk
        st = State()
        bl, lens, s0, end = sym_list(ex, st, k, "l")
        st.world["box"] = {"bl": Cell(bl)}
        for s, r in run_all(ex, st, P["rem"], [Ref(st.world["box"]["bl"])]):
            paths += 1
            q += 1
            if is_panic(r) or ex.feasible(s, r != end - s0):
                bad("c02.bytes.remaining_wrong", "BufList::remaining is not the number of buffered bytes", s, z3.BoolVal(True), entries=k)
        st = State()
        bl, lens, s0, end = sym_list(ex, st, k, "l")
        st.world["box"] = {"bl": Cell(bl)}
        for s, r in run_all(ex, st, P["chunk"], [Ref(st.world["box"]["bl"])]):
            paths += 1
            sl = C.deref(r)
            q += 1
            want = z3.And(sl.attrs["len"] == (lens[0] if k else bv(0)), sl.attrs["from"] == s0) if k else sl.attrs["len"] == 0
            if ex.feasible(s, z3.Not(want)):
                bad("c02.bytes.chunk_wrong", "BufList::chunk is not the bytes of the first entry", s, z3.Not(want), entries=k)
        # ---------------- take_chunk(limit), limit >= 1: ONE step from an arbitrary valid list (induction over the calls)
        st = State()
        start = z3.BitVec("t_first_pos", 64)
        st.pc.append(z3.Extract(63, LEN_BITS, start) == 0)
        bl, lens, s0, end = sym_list(ex, st, k, "t", start)
        lim = z3.BitVec("limit", 64)
        st.pc.append(lim != 0)
        st.world["box"] = {"bl": Cell(bl)}
        for s, r in run_all(ex, st, P["take"], [Ref(st.world["box"]["bl"]), lim]):
            paths += 1
            if is_panic(r):
                bad("c03.bytes.take_chunk_panics", "BufList::take_chunk panics", s, z3.BoolVal(True), entries=k)
                continue
            post = s.world["box"]["bl"].v
            is_some = z3.is_bv_value(r.discr) and r.discr.as_long() == 1
            if k == 0:
                if is_some:
                    bad("c03.bytes.take_chunk_size", "take_chunk on an empty list returns a chunk", s, z3.BoolVal(True), entries=k)
                continue
            if not is_some:
                bad("c03.bytes.payload_bytes_lost_or_repeated", "take_chunk returns nothing although bytes are buffered", s, z3.BoolVal(True), entries=k)
                continue
            cs, cl = win(E.get_field(r, ("Some", 0)))
            m_ = z3.If(z3.ULE(lim, lens[0]), lim, lens[0])
            good = z3.And(cs == s0, cl == m_, denotes_suffix(post, s0 + m_, end))
            q += 1
            if ex.feasible(s, z3.Not(good)):
                bad("c03.bytes.payload_bytes_lost_or_repeated",
                    "take_chunk(limit) does not return exactly the first min(limit, first entry) bytes and keep exactly the rest (a payload byte would be lost, repeated or "
                    "handed out of order)", s, z3.Not(good), entries=k)
                continue
            if len(post.fields[(None, 0)].v.attrs["items"]) == k:
                wit["take_chunk_splits_an_entry"] = True
            else:
                wit["take_chunk_takes_a_whole_entry"] = True
        # ---------------- cursor: ONE advance(c) from an arbitrary valid cursor position (induction over the reads)
        for idx in range(0, k + 1):
            st = State()
            bl, lens, s0, end = sym_list(ex, st, k, "c")
            pf = z3.BitVec("pos_front", 64)
            if idx < k:
                st.pc.append(z3.ULT(pf, lens[idx]))
            else:
                st.pc.append(pf == 0)
            before = bv(0)
            for j in range(idx):
                before = before + lens[j]
            cur = Obj("buf::Cursor<'_, bytes::Bytes>")
            blc = Cell(bl)
            fn = ex.find_fn(r"^buf::<impl[^>]*>::cursor$")
            text = "\n".join(s_ for b in fn.blocks.values() for s_ in b.stmts)
            mo = re.search(r"Cursor[^{]*\{([^}]*)\}", text)
            names = [p_.strip().split(":")[0].strip() for p_ in mo.group(1).split(",") if ":" in p_] if mo else []
            if sorted(names) != ["buf", "index", "pos_front", "pos_total"]:
                raise Inconclusive("cannot read Cursor's field order from BufList::cursor: " + repr(names))
            vals = {"buf": Ref(blc), "pos_total": before + pf, "pos_front": pf, "index": bv(idx)}
            for i_, nm in enumerate(names):
                cur.fields[(None, i_)] = Cell(vals[nm])
            c_amt = z3.BitVec("c_amount", 64)
            st.pc.append(z3.And(z3.ULE(c_amt, (end - s0) - (before + pf)), z3.Extract(63, LEN_BITS + 3, c_amt) == 0))
            st.world["box"] = {"bl": blc, "cur": Cell(cur)}
            for s, r in run_all(ex, st, P["cadv"], [Ref(st.world["box"]["cur"]), c_amt]):
                paths += 1
                if is_panic(r):
                    bad("c02.bytes.cursor_advance_panics", "Cursor::advance panics for an amount within what is left", s, z3.BoolVal(True), entries=k, cursor_in_entry=idx)
                    continue
                c2 = s.world["box"]["cur"].v
                f = {nm: c2.fields[(None, i_)].v for i_, nm in enumerate(names)}
                new_total = before + pf + c_amt
                i2 = ival(f["index"])
                b2 = bv(0)
                for j in range(min(i2, k)):
                    b2 = b2 + lens[j]
                inv = z3.And(f["pos_total"] == new_total, f["pos_total"] == b2 + f["pos_front"],
                             z3.ULT(f["pos_front"], lens[i2]) if i2 < k else f["pos_front"] == 0, z3.BoolVal(i2 <= k))
                q += 1
                if ex.feasible(s, z3.Not(inv)):
                    bad("c02.bytes.cursor_position_wrong",
                        "after Cursor::advance(c) the cursor is not at byte position + c (or points outside its entry): the next read would take a byte of the wrong place",
                        s, z3.Not(inv), entries=k, cursor_in_entry=idx)
                    continue
                if i2 == idx and ex.feasible(s, c_amt != 0):
                    wit["cursor_stops_inside_an_entry"] = True
                if idx < i2 < k:
                    wit["cursor_crosses_entries"] = True
                if k and i2 == k:
                    wit["cursor_reaches_the_end"] = True
                # chunk() at the new position
                if i2 < k:
                    s2 = s.clone()
                    for s3, ch in run_all(ex, s2, P["cchunk"], [Ref(s2.world["box"]["cur"])]):
                        paths += 1
                        if is_panic(ch):
                            bad("c02.bytes.cursor_reads_wrong_byte", "Cursor::chunk panics although bytes are left", s3, z3.BoolVal(True), entries=k)
                            continue
                        sl = C.deref(ch)
                        good = z3.And(sl.attrs["from"] == new_total, sl.attrs["len"] != 0)
                        q += 1
                        if ex.feasible(s3, z3.Not(good)):
                            bad("c02.bytes.cursor_reads_wrong_byte",
                                "after advancing the cursor its chunk() does not start at the cursor's byte position (a payload byte would be read as a header byte or vice versa)",
                                s3, z3.Not(good), entries=k, cursor_in_entry=idx)
                # the list is untouched
                q += 1
                if ex.feasible(s, z3.Not(denotes_suffix(s.world["box"]["bl"].v, s0, end))):
                    bad("c02.bytes.cursor_modifies_list", "reading through the cursor changes the list", s, z3.BoolVal(True), entries=k)
    log(f"BufList / Cursor, symbolic: 0..{kmax} entries of ANY length below 2^{LEN_BITS}, symbolic amounts: {paths} paths, {q} property queries, {ex.queries} feasibility queries")
    return ex, viols, paths, q, wit


_check_enumerated = check


def check(L, tier, log, samples):
    t0 = time.time()
    ex, viols, paths, q, wit = check_symbolic(L, tier, log, samples)
    stats = {"states": paths, "transitions": ex.queries + q, "queries": ex.queries + q, "solver_s": round(ex.solver_s, 2), "witness": wit,
             "functions": sorted(ex.functions_used), "wall_s": round(time.time() - t0, 1)}
    # the enumeration over every concrete chunking of a few bytes (take_chunk repeated until empty, two-step cursor reads,
    # take_first_chunk, push_bytes) is kept as a second, independent run of the same MIR under the concrete contracts
    v2, s2 = _check_enumerated(L, tier, log, samples)
    stats["states"] += s2["states"]
    stats["queries"] += s2["queries"]
    stats["transitions"] = stats["queries"]
    stats["witness"].update({"enumerated." + k_: v_ for k_, v_ in s2["witness"].items()})
    stats["functions"] = sorted(set(stats["functions"]) | set(s2["functions"]))
    stats["wall_s"] = round(time.time() - t0, 1)
    return viols + v2, stats
