"""C03 / C07 — request streams accept exactly the RFC 9114 4.1 frame sequences; stream-scoped faults stay stream-scoped.

Analysed (MIR, inlined): server::RequestResolver::accept_with_frame, connection::RequestStream::{poll_recv_data,
poll_recv_trailers}, HandleFrameStreamErrorOnRequestStream::handle_frame_stream_error_on_request_stream,
CloseStream::handle_quic_stream_error, InternalConnectionError::{new,got_frame_error}, the two map_err closures.

The receive side of one server request is driven through the documented application call pattern
    accept_with_frame(first frame) ; poll_recv_data()* until Ok(None) ; poll_recv_trailers()
against a SYMBOLIC SCRIPT of what the frame decoder hands out (contract for FrameStream::{poll_next,poll_data,has_data,
is_eos}): at every decoder call every letter of the alphabet {HEADERS, DATA(0), DATA(n), CANCEL_PUSH, SETTINGS, GOAWAY,
MAX_PUSH_ID, PUSH_PROMISE, H2-reserved (decoder error ForbiddenFrame), malformed frame, truncated frame, FIN, RESET(code),
transport-specific stream error, connection close, pending} is explored (scripts up to N decoder events); the QPACK decoder
and the http field validators are contracts that may accept, refuse for size, or refuse as malformed. z3 decides feasibility
of every branch and the code comparisons. For every path the outcome is compared with the property's own verdict computed
from the consumed script:
  * C03: valid sequences HEADERS DATA* HEADERS? FIN deliver the message; end-of-body (Ok(None)) is reported only when the
    body has really ended (next event is the trailers or FIN); the first known frame out of sequence is the connection error
    H3_FRAME_UNEXPECTED; FIN before HEADERS is refused with H3_REQUEST_INCOMPLETE (reset + stream error, no connection error).
  * C07: RESET(code) -> StreamError::RemoteTerminate{code}; transport-specific stream error -> Undefined; oversized
    section -> HeaderTooBig; malformed trailers -> StreamError H3_MESSAGE_ERROR + stop_sending; FIN before HEADERS: none
    of these touches the shared connection-error cell (no set_conn_error*, no close).
Unknown frame types never surface from the decoder (C02) and are therefore not letters of the alphabet.
"""
import time
import z3

from .. import engine as E
from .. import contracts as C
from ..sym import State, Cell, Obj, Ref, UNIT, Case, Inconclusive, Frame as ExFrame
from . import c08

FRAME = "proto::frame::Frame<proto::frame::PayloadLen>"
FSE = "frame::FrameStreamError"

KNOWN_BAD = ["CancelPush", "Settings", "Goaway", "MaxPushId", "PushPromise"]
LETTERS = ["Headers", "Data0", "DataN"] + KNOWN_BAD + ["Forbidden", "Malformed", "UnexpectedEnd", "Fin", "Reset", "UnknownErr",
                                                       "ConnClose", "Pending"]


def frame_result(ex, letter, res_ty):
    """Result<Option<Frame>, FrameStreamError> for a script letter."""
    def some(fr):
        return ex.make_enum(res_ty, "Ok", [ex.make_enum("Option<Frame>", "Some", [fr])])
    if letter == "Headers":
        return some(ex.make_enum(FRAME, "Headers", [Obj("bytes::Bytes")]))
    if letter in ("Data0", "DataN"):
        return some(ex.make_enum(FRAME, "Data", [Obj("proto::frame::PayloadLen")]))
    if letter in KNOWN_BAD:
        return some(ex.make_enum(FRAME, letter, [Obj("payload")]))
    if letter == "Forbidden":
        return ex.make_enum(res_ty, "Err", [ex.make_enum(FSE, "Proto", [ex.make_enum("frame::FrameProtocolError", "ForbiddenFrame", [Obj("n")])])])
    if letter == "Malformed":
        return ex.make_enum(res_ty, "Err", [ex.make_enum(FSE, "Proto", [ex.make_enum("frame::FrameProtocolError", "Malformed")])])
    if letter == "UnexpectedEnd":
        return ex.make_enum(res_ty, "Err", [ex.make_enum(FSE, "UnexpectedEnd")])
    if letter == "Fin":
        return ex.make_enum(res_ty, "Ok", [ex.make_enum("Option<Frame>", "None")])
    if letter == "Reset":
        q = ex.make_enum("quic::StreamErrorIncoming", "StreamTerminated", [z3.BitVec(E.fresh("reset_code"), 64)])
        return ex.make_enum(res_ty, "Err", [ex.make_enum(FSE, "Quic", [q])])
    if letter == "UnknownErr":
        q = ex.make_enum("quic::StreamErrorIncoming", "Unknown", [Obj("Box<dyn Error>")])
        return ex.make_enum(res_ty, "Err", [ex.make_enum(FSE, "Quic", [q])])
    if letter == "ConnClose":
        q = ex.make_enum("quic::StreamErrorIncoming", "ConnectionErrorIncoming", [Obj("quic::ConnectionErrorIncoming")])
        return ex.make_enum(res_ty, "Err", [ex.make_enum(FSE, "Quic", [q])])
    raise AssertionError(letter)


def c_poll_next(limit):
    def f(ex, st, key, argv, dest_ty, raw):
        res_ty = C.payload_type(dest_ty, "Ready")
        script = st.world["script"]
        cases = []
        if "Fin" in script:
            # transport contract: once the end of the stream has been reported nothing else follows
            return [Case(None, lambda ex, st, a: ex.make_enum(dest_ty, "Ready", [frame_result(ex, "Fin", res_ty)]))]
        if len(script) >= limit:
            # script budget used up: the decoder has nothing more for now
            return [Case(None, lambda ex, st, a: (st.world["script"].append("Pending"), ex.make_enum(dest_ty, "Pending"))[1])]

        def mk(letter):
            def ap(ex, st, a):
                st.world["script"].append(letter)
                if letter == "Pending":
                    return ex.make_enum(dest_ty, "Pending")
                if letter == "DataN":
                    st.world["in_data"] = True
                if letter == "Reset":
                    r = frame_result(ex, letter, res_ty)
                    st.world["reset_code"] = E.get_field(r, ("Err", 0), ("Quic", 0), ("StreamTerminated", 0))
                    return ex.make_enum(dest_ty, "Ready", [r])
                return ex.make_enum(dest_ty, "Ready", [frame_result(ex, letter, res_ty)])
            return ap
        for l in LETTERS:
            cases.append(Case(z3.BoolVal(True), mk(l)))
        return cases
    return f


def c_has_data(ex, st, key, argv, dest_ty, raw):
    return [Case(None, lambda ex, st, a: z3.BoolVal(bool(st.world.get("in_data", False))))]


def c_poll_data(ex, st, key, argv, dest_ty, raw):
    """FrameStream::poll_data: None when no payload is owed; otherwise a chunk (the last one ends the frame), pending,
    a reset or a truncation."""
    res_ty = C.payload_type(dest_ty, "Ready")

    def none(ex, st, a):
        st.world["script"].append("data:none")
        return ex.make_enum(dest_ty, "Ready", [ex.make_enum(res_ty, "Ok", [ex.make_enum("Option<Bytes>", "None")])])
    if not st.world.get("in_data", False):
        return [Case(None, none)]

    def chunk(last):
        def ap(ex, st, a):
            st.world["script"].append("data:last_chunk" if last else "data:chunk")
            st.effects.append(("payload_delivered",))
            if last:
                st.world["in_data"] = False
            return ex.make_enum(dest_ty, "Ready", [ex.make_enum(res_ty, "Ok", [ex.make_enum("Option<Bytes>", "Some", [Obj("bytes::Bytes")])])])
        return ap

    def pend(ex, st, a):
        st.world["script"].append("data:pending")
        return ex.make_enum(dest_ty, "Pending")

    def reset(ex, st, a):
        st.world["script"].append("data:reset")
        code = z3.BitVec(E.fresh("reset_code"), 64)
        st.world["reset_code"] = code
        q = ex.make_enum("quic::StreamErrorIncoming", "StreamTerminated", [code])
        return ex.make_enum(dest_ty, "Ready", [ex.make_enum(res_ty, "Err", [ex.make_enum(FSE, "Quic", [q])])])

    def trunc(ex, st, a):
        st.world["script"].append("data:truncated")
        return ex.make_enum(dest_ty, "Ready", [ex.make_enum(res_ty, "Err", [ex.make_enum(FSE, "UnexpectedEnd")])])
    budget = st.world.setdefault("data_polls", 0)
    st.world["data_polls"] = budget + 1
    cases = [Case(None, chunk(True)), Case(z3.BoolVal(True), reset), Case(z3.BoolVal(True), trunc)]
    if budget < 1:
        cases += [Case(z3.BoolVal(True), chunk(False)), Case(z3.BoolVal(True), pend)]
    return cases


def c_is_eos(ex, st, key, argv, dest_ty, raw):
    """True only if the end of the stream has been observed and nothing is buffered; the contract lets it be either
    when the end is next, and false otherwise (decided by what poll_next hands out afterwards)."""
    b = z3.Bool(E.fresh("is_eos"))

    def yes(ex, st, a):
        st.world["eos_claimed"] = True
        if "Fin" not in st.world["script"]:
            st.world["script"].append("Fin")      # is_eos() is true: the end of the stream HAS been observed, nothing is buffered
        return z3.BoolVal(True)
    return [Case(None, lambda ex, st, a: z3.BoolVal(False)), Case(z3.BoolVal(True), yes)]


def c_decode_stateless(ex, st, key, argv, dest_ty, raw):
    def ok(ex, st, a):
        st.world["qpack"] = "ok"
        return ex.make_enum(dest_ty, "Ok", [Obj("qpack::Decoded")])

    def too_long(ex, st, a):
        st.world["qpack"] = "too_long"
        return ex.make_enum(dest_ty, "Err", [ex.make_enum("qpack::decoder::DecoderError", "HeaderTooLong", [z3.BitVec(E.fresh("size"), 64)])])

    def bad(ex, st, a):
        st.world["qpack"] = "malformed"
        e = Obj("qpack::decoder::DecoderError")
        # any other variant
        d = ex.discr_of(st, e)
        st.pc.append(d != ex.enums.index_of("qpack::decoder::DecoderError", "HeaderTooLong"))
        return ex.make_enum(dest_ty, "Err", [e])
    return [Case(None, ok), Case(z3.BoolVal(True), too_long), Case(z3.BoolVal(True), bad)]


def c_header_try_from(ex, st, key, argv, dest_ty, raw):
    def ok(ex, st, a):
        st.world["fields"] = "ok"
        return ex.make_enum(dest_ty, "Ok", [Obj("proto::headers::Header")])

    def bad(ex, st, a):
        st.world["fields"] = "malformed"
        return ex.make_enum(dest_ty, "Err", [Obj("proto::headers::HeaderError")])
    return [Case(None, ok), Case(z3.BoolVal(True), bad)]


def eff(name, with_code=True):
    def f(ex, st, key, argv, dest_ty, raw):
        def ap(ex, st, a):
            v = a[1] if len(a) > 1 else None
            if isinstance(v, Obj):
                v = E.get_field(v, (None, 0))
            st.effects.append((name, v))
            return UNIT
        return [Case(None, ap)]
    return f


def c_conn_error_on_stream(ex, st, key, argv, dest_ty, raw):
    """CloseStream::handle_connection_error_on_stream (analysed under C05): records the connection error raised."""
    def ap(ex, st, a):
        st.effects.append(("connection_error", E.get_field(a[1], (None, 0), (None, 0))))
        se = ex.make_enum("error::error::StreamError", "ConnectionError", [Obj("error::error::ConnectionError")])
        return se
    return [Case(None, ap)]


def c_set_conn_error_and_wake(ex, st, key, argv, dest_ty, raw):
    def ap(ex, st, a):
        st.effects.append(("connection_error", "transport"))
        return Obj("error::internal_error::ErrorOrigin")
    return [Case(None, ap)]


def contracts(limit):
    return [
        (r"^FrameStream::poll_next$", c_poll_next(limit)),
        (r"^FrameStream::poll_data$", c_poll_data),
        (r"^FrameStream::has_data$", c_has_data),
        (r"^FrameStream::is_eos$", c_is_eos),
        (r"^FrameStream::stop_sending$|RequestStream::stop_sending$", eff("stop_sending")),
        (r"^FrameStream as SendStream::reset$", eff("reset")),
        (r"^FrameStream as SendStream::send_id$", C.c_opaque),
        (r"^decode_stateless$", c_decode_stateless),
        (r"^Header as TryFrom::try_from$", c_header_try_from),
        (r"^Header::into_fields$", C.c_opaque),
        (r" as CloseStream::handle_connection_error_on_stream$", c_conn_error_on_stream),
        (r"ConnectionState::set_conn_error_and_wake$", c_set_conn_error_and_wake),
        (r"^convert_to_connection_error$", C.c_opaque),
        (r"^Code as From::from$", lambda ex, st, key, argv, dest_ty, raw: [Case(None, lambda ex, st, a: mk_code(a[0]))]),
        (r"^Arc::new$|^Arc as Clone::clone$|^UnboundedSender as Clone::clone$", C.c_opaque),
        (r"^connection::RequestStream::new$|^ResolvedRequest::new$", C.c_opaque),
        (r"^str as ToString::to_string$", C.c_opaque),
    ] + c08.base_contracts()


def mk_code(v):
    o = Obj("error::codes::Code")
    o.fields[(None, 0)] = Cell(v)
    return o


INLINE = [
    (r"^InternalConnectionError::new$", r"internal_error.*::new$"),
    (r"^InternalConnectionError::got_frame_error$", r"internal_error.*::got_frame_error$"),
    (r" as HandleFrameStreamErrorOnRequestStream::handle_frame_stream_error_on_request_stream$",
     r"connection_error_creators.*::handle_frame_stream_error_on_request_stream$"),
    (r" as CloseStream::handle_quic_stream_error$", r"^CloseStream::handle_quic_stream_error$"),
]


def ret_kind(ex, ret):
    """('pending',) | ('ok_none',) | ('ok_some',) | ('err', StreamError obj) for Poll<Result<Option<T>, StreamError>>."""
    if not isinstance(ret, Obj) or not z3.is_bv_value(ret.discr):
        return ("?",)
    if ret.discr.as_long() == 1:
        return ("pending",)
    r = E.get_field(ret, ("Ready", 0))
    if r.discr.as_long() == 1:
        return ("err", E.get_field(r, ("Err", 0)))
    o = E.get_field(r, ("Ok", 0))
    return ("ok_some",) if o.discr.as_long() == 1 else ("ok_none",)


def stream_error_summary(ex, se):
    """(variant name, code term or None)"""
    SE = "error::error::StreamError"
    if not z3.is_bv_value(se.discr):
        return ("?", None)
    name = ex.enums.name_of(SE, se.discr.as_long())
    code = None
    if name == "StreamError":
        code = E.get_field(se, ("StreamError", 0), (None, 0))
    elif name == "RemoteTerminate":
        code = E.get_field(se, ("RemoteTerminate", 0), (None, 0))
    return (name, code)


class Run:
    """One exploration of the call pattern; collects finished paths as (state, list of (call, outcome))."""

    def __init__(self, L, limit):
        self.L = L
        self.ex = E.make_executor(L, INLINE, contracts(limit), max_unroll=4)
        self.done = []
        self.limit = limit

    def start(self):
        ex = self.ex
        st = State()
        st.world["script"] = []
        # first frame: the result of the resolver's own poll_next, every letter except Pending
        res_ty = "Result<Option<Frame>, FrameStreamError>"
        for letter in LETTERS:
            if letter == "Pending":
                continue
            s = st.clone()
            s.world["script"].append(letter)
            if letter == "DataN":
                s.world["in_data"] = True
            fr = frame_result(ex, letter, res_ty)
            if letter == "Reset":
                s.world["reset_code"] = E.get_field(fr, ("Err", 0), ("Quic", 0), ("StreamTerminated", 0))
            resolver = Obj("server::request::RequestResolver<C, B>")
            E.call(ex, s, r"^server::request::<impl[^>]*>::accept_with_frame$", [resolver, fr])
            for s2, ret in E.collect(ex, s):
                calls = [("accept", ret)]
                ok = isinstance(ret, Obj) and z3.is_bv_value(ret.discr) and ret.discr.as_long() == 0
                if not ok or s2.world.get("qpack") != "ok":
                    self.done.append((s2, calls))
                    continue
                rs = Cell(Obj("connection::RequestStream<S, B>"))
                rs.v.fields[(None, 1)] = Cell(ex.make_enum("std::option::Option<bytes::Bytes>", "None"))
                s2.world["rs"] = rs
                self.recv_data(s2, calls, 0)

    def recv_data(self, st, calls, depth):
        ex = self.ex
        if depth > self.limit + 2:
            self.done.append((st, calls))
            return
        E.call(ex, st, r"^connection::<impl[^>]*>::poll_recv_data$", [Ref(st.world["rs"]), Ref(Cell(Obj("Context")))])
        for s2, ret in E.collect(ex, st):
            k = ret_kind(ex, ret)
            c2 = calls + [("recv_data", k)]
            if k[0] in ("ok_some", "pending"):
                if len(s2.world["script"]) >= self.limit + 1:
                    self.done.append((s2, c2))
                else:
                    self.recv_data(s2, c2, depth + 1)
            elif k[0] == "ok_none":
                self.recv_trailers(s2, c2, 0)
            else:
                self.done.append((s2, c2))

    def recv_trailers(self, st, calls, depth):
        ex = self.ex
        E.call(ex, st, r"^connection::<impl[^>]*>::poll_recv_trailers$", [Ref(st.world["rs"]), Ref(Cell(Obj("Context")))])
        for s2, ret in E.collect(ex, st):
            k = ret_kind(ex, ret)
            c2 = calls + [("recv_trailers", k)]
            if k[0] == "pending" and depth < 1 and len(s2.world["script"]) < self.limit + 1:
                self.recv_trailers(s2, c2, depth + 1)
            else:
                self.done.append((s2, c2))


def verdict(script):
    """The property's verdict for the consumed decoder events. Returns a list of expectations in event order:
    each is (index, kind, detail)."""
    out = []
    state = "start"           # start -> body -> trailers -> done
    for i, ev in enumerate(script):
        if ev.startswith("data:"):
            if ev == "data:reset":
                return out + [(i, "stream_error", "RemoteTerminate")]
            if ev == "data:truncated":
                return out + [(i, "conn_error", "H3_FRAME_ERROR")]
            continue
        if ev == "Pending":
            continue
        if ev == "Reset":
            return out + [(i, "stream_error", "RemoteTerminate")]
        if ev == "UnknownErr":
            return out + [(i, "stream_error", "Undefined")]
        if ev == "ConnClose":
            return out + [(i, "conn_error", "transport")]
        if ev == "Forbidden":
            return out + [(i, "conn_error", "H3_FRAME_UNEXPECTED")]
        if ev == "Malformed":
            return out + [(i, "conn_error", "H3_FRAME_ERROR")]
        if ev == "UnexpectedEnd":
            return out + [(i, "conn_error", "H3_FRAME_ERROR")]
        if ev in KNOWN_BAD:
            return out + [(i, "conn_error", "H3_FRAME_UNEXPECTED")]
        if state == "start":
            if ev == "Headers":
                state = "body"
            elif ev == "Fin":
                return out + [(i, "stream_error", "H3_REQUEST_INCOMPLETE")]
            else:                       # DATA first
                return out + [(i, "conn_error", "H3_FRAME_UNEXPECTED")]
        elif state == "body":
            if ev == "Headers":
                state = "trailers"
            elif ev == "Fin":
                state = "done"
                out.append((i, "end", None))
        elif state == "trailers":
            if ev == "Fin":
                state = "done"
                out.append((i, "end", None))
            else:                       # HEADERS or DATA after trailers
                return out + [(i, "conn_error", "H3_FRAME_UNEXPECTED")]
    return out


def check(L, tier, log, samples):
    t0 = time.time()
    limit = 4 if tier == "quick" else 5
    run = Run(L, limit)
    run.start()
    ex = run.ex
    if ex.unroll_exceeded:
        raise Inconclusive("loop bound exceeded: " + repr(ex.unroll_exceeded[:3]))
    viols = []
    queries = 0
    wit = {"valid_message_delivered": False, "frame_unexpected": False, "request_incomplete": False, "remote_terminate": False,
           "header_too_big": False, "malformed_trailers": False}
    codes = {n: E.code_value(L.consts, n) for n in ("H3_FRAME_UNEXPECTED", "H3_FRAME_ERROR", "H3_REQUEST_INCOMPLETE",
                                                    "H3_MESSAGE_ERROR", "QPACK_DECOMPRESSION_FAILED")}

    def add(key, what, s, calls):
        viols.append({"key": key, "what": what,
                      "model": {"decoder_events": list(s.world["script"]), "calls": [c[0] + ":" + c[1][0] if isinstance(c[1], tuple) else c[0] for c in calls],
                                "qpack": s.world.get("qpack"), "fields": s.world.get("fields")}})

    for s, calls in run.done:
        script = s.world["script"]
        exp = verdict(script)
        conn_errs = [e for e in s.effects if e[0] == "connection_error"]
        last = calls[-1]
        lastk = last[1] if isinstance(last[1], tuple) else None
        final_err = None
        if last[0] == "accept":
            r = last[1]
            if isinstance(r, Obj) and z3.is_bv_value(r.discr) and r.discr.as_long() == 1:
                final_err = E.get_field(r, ("Err", 0))
        elif lastk and lastk[0] == "err":
            final_err = lastk[1]
        term = exp[-1] if exp and exp[-1][1] in ("conn_error", "stream_error") else None
        qp, fl = s.world.get("qpack"), s.world.get("fields")
        # ---- premature end of body: Ok(None) from recv_data while the next body event is not trailers/FIN
        for ci, c in enumerate(calls):
            if c[0] == "recv_data" and c[1][0] == "ok_none":
                # events consumed after this point that belong to the body?
                # the trailers call is the next one: it consumes its own events; a DATA frame there means the body had not ended
                pass
        # ---- verdict at the terminating event
        if term is not None:
            idx, kind, detail = term
            if kind == "conn_error":
                if detail == "transport":
                    if not conn_errs or conn_errs[0][1] != "transport":
                        add("c03.transport_error.not_reported", "a connection close seen on the request stream is not raised as the connection error", s, calls)
                    continue
                wantv = codes[detail]
                queries += 1
                bad = (len(conn_errs) != 1 or isinstance(conn_errs[0][1], str) or conn_errs[0][1] is None
                       or ex.feasible(s, conn_errs[0][1] != wantv))
                if bad:
                    # the empty DATA frame defect shows up as FRAME_UNEXPECTED on a VALID sequence, handled below; here the
                    # sequence is invalid and the error is missing or has another code
                    add(f"c03.invalid_sequence.expected_{detail}", f"decoder event #{idx} ({script[idx]}) must be the connection error {detail}", s, calls)
                else:
                    if detail == "H3_FRAME_UNEXPECTED":
                        wit["frame_unexpected"] = True
            else:
                if conn_errs:
                    add(f"c07.stream_fault.raised_connection_error.{detail}",
                        f"a fault confined to this request ({script[idx]}) raised a connection error", s, calls)
                    continue
                if final_err is None:
                    add(f"c07.stream_fault.not_reported.{detail}", f"{script[idx]} is not reported as a stream error", s, calls)
                    continue
                name, code = stream_error_summary(ex, final_err)
                if detail == "RemoteTerminate":
                    queries += 1
                    rc = s.world.get("reset_code")
                    if name != "RemoteTerminate" or code is None or rc is None or ex.feasible(s, code != rc):
                        add("c07.reset.not_remote_terminate_with_peer_code", "a RESET is not reported as RemoteTerminate with the peer's code", s, calls)
                    else:
                        wit["remote_terminate"] = True
                elif detail == "Undefined":
                    if name != "Undefined":
                        add("c07.transport_stream_error.not_undefined", "a transport-specific stream error is not passed through as Undefined", s, calls)
                elif detail == "H3_REQUEST_INCOMPLETE":
                    resets = [e for e in s.effects if e[0] == "reset"]
                    queries += 1
                    if (name != "StreamError" or code is None or ex.feasible(s, code != codes[detail]) or len(resets) != 1
                            or resets[0][1] is None or ex.feasible(s, resets[0][1] != codes[detail])):
                        add("c03.fin_before_headers.not_request_incomplete", "FIN before HEADERS is not refused with reset + stream error H3_REQUEST_INCOMPLETE", s, calls)
                    else:
                        wit["request_incomplete"] = True
            continue
        # ---- no terminating protocol event: faults can only come from the QPACK / field contracts
        if qp == "malformed":
            queries += 1
            if len(conn_errs) != 1 or isinstance(conn_errs[0][1], str) or ex.feasible(s, conn_errs[0][1] != codes["QPACK_DECOMPRESSION_FAILED"]):
                add("c03.qpack_failure.not_decompression_failed", "a field section the QPACK decoder refuses is not the connection error QPACK_DECOMPRESSION_FAILED", s, calls)
            continue
        if conn_errs:
            # a connection error on a sequence the property accepts
            zero = "Data0" in script
            if zero:
                add("c03.empty_data_frame.reported_as_end_of_body",
                    "a zero-length DATA frame makes recv_data report the end of the body; the DATA or HEADERS frame that follows "
                    "is then a connection error H3_FRAME_UNEXPECTED although the sequence is valid", s, calls)
            else:
                add("c03.valid_sequence.rejected", "a frame sequence RFC 9114 4.1 allows raised a connection error", s, calls)
            continue
        if qp == "too_long" and last[0] == "recv_trailers":
            name, _ = stream_error_summary(ex, final_err) if final_err is not None else ("none", None)
            if name != "HeaderTooBig":
                add("c07.oversized_trailers.not_header_too_big", "an oversized trailer section is not refused as HeaderTooBig", s, calls)
            else:
                wit["header_too_big"] = True
            continue
        if fl == "malformed" and last[0] == "recv_trailers":
            name, code = stream_error_summary(ex, final_err) if final_err is not None else ("none", None)
            stops = [e for e in s.effects if e[0] == "stop_sending"]
            queries += 1
            if name != "StreamError" or code is None or ex.feasible(s, code != codes["H3_MESSAGE_ERROR"]) or not stops:
                add("c07.malformed_trailers.not_message_error", "malformed trailers are not refused with H3_MESSAGE_ERROR + stop_sending", s, calls)
            else:
                wit["malformed_trailers"] = True
            continue
        # ---- premature end of body on an accepted sequence: recv_data said None but a body DATA followed
        nones = [i for i, c in enumerate(calls) if c[0] == "recv_data" and c[1][0] == "ok_none"]
        if final_err is not None and last[0] != "accept":
            add("c03.valid_sequence.stream_error", "a valid sequence ends in a stream error without any fault injected", s, calls)
            continue
        if lastk and lastk[0] in ("ok_none", "ok_some") and last[0] == "recv_trailers" and not (exp and exp[-1][1] == "end"):
            # the message is declared complete although the end of the stream has not been seen: whatever arrives later
            # (DATA, a second trailer section, SETTINGS ..) is never examined, so an invalid sequence is delivered
            add("c03.message_delivered_before_end_of_stream",
                "recv_trailers completes the message before the end of the stream was seen: a frame arriving in a later chunk "
                "(DATA or any known frame after the trailers) is never checked, the invalid sequence is delivered as a valid message", s, calls)
            continue
        if exp and exp[-1][1] == "end" and lastk and lastk[0] in ("ok_none", "ok_some") and last[0] == "recv_trailers":
            wit["valid_message_delivered"] = True
        if len(samples) < 3 and lastk:
            samples.append({"decoder_events": list(script), "calls": [c[0] + ":" + (c[1][0] if isinstance(c[1], tuple) else "") for c in calls]})
    log(f"{len(run.done)} call-pattern paths over decoder scripts of up to {limit} events "
        f"({len(LETTERS)} letters per decoder call), {queries} property queries, {ex.queries} feasibility queries")
    stats = {"states": len(run.done), "transitions": ex.queries + queries, "queries": ex.queries + queries,
             "solver_s": round(ex.solver_s, 2), "witness": wit, "functions": sorted(ex.functions_used),
             "script_len": limit, "wall_s": round(time.time() - t0, 1)}
    return viols, stats


def replay_args(v):
    if v["key"] == "c03.empty_data_frame.reported_as_end_of_body":
        return ("c03_empty_data", [])
    if v["key"] == "c03.message_delivered_before_end_of_stream":
        return ("c03_frame_after_trailers", [])
    return None


# ------------------------------------------------------------------------------------------------
# client receive side: the first frame of a response (recv_response resumed behind its only await)

def check_client_first_frame(L, tier, log, samples):
    """client::RequestStream::recv_response, resumed in the state behind its await, with the frame layer answering with
    every letter (each frame kind, each decoder / transport error, end of stream): HEADERS goes on to the QPACK decoder
    and the field gates; every other KNOWN frame first (DATA, CANCEL_PUSH, SETTINGS, GOAWAY, MAX_PUSH_ID, PUSH_PROMISE) is the
    connection error H3_FRAME_UNEXPECTED, an HTTP/2-reserved type H3_FRAME_UNEXPECTED, a malformed / truncated frame
    H3_FRAME_ERROR; RESET(code) is RemoteTerminate{code} and a transport-specific stream error Undefined - both WITHOUT a
    connection error (C07); an oversized response section is HeaderTooBig without connection error. (The end of the
    stream before any response HEADERS is reported by h3 as a connection error; the property does not name that case for
    the client side and it is recorded, not judged.)"""
    def c_pollfn_poll(ex, st, key, argv, dest_ty, raw):
        res_ty = C.payload_type(dest_ty, "Ready")

        def mk(letter):
            def ap(ex, st, a):
                st.world["script"].append(letter)
                if letter == "Pending":
                    return ex.make_enum(dest_ty, "Pending")
                r = frame_result(ex, letter, res_ty)
                if letter == "Reset":
                    st.world["reset_code"] = E.get_field(r, ("Err", 0), ("Quic", 0), ("StreamTerminated", 0))
                return ex.make_enum(dest_ty, "Ready", [r])
            return ap
        return [Case(None if i == 0 else z3.BoolVal(True), mk(l)) for i, l in enumerate(LETTERS)]

    def c_parts(ex, st, key, argv, dest_ty, raw):
        def ok(ex, st, a):
            return ex.make_enum(dest_ty, "Ok", [Obj("(http::StatusCode, http::HeaderMap)")])

        def bad(ex, st, a):
            st.world["fields"] = "malformed"
            return ex.make_enum(dest_ty, "Err", [Obj("proto::headers::HeaderError")])
        return [Case(None, ok), Case(z3.BoolVal(True), bad)]
    con = [
        (r"PollFn as .*Future::poll$", c_pollfn_poll),
        (r"^Header::into_response_parts$", c_parts),
        (r"^Response::new$|(status|headers|version)_mut$", lambda ex, st, key, argv, dest_ty, raw: [Case(None, lambda ex, st, a: Ref(Cell(Obj("slot"))))]),
        (r"^connection::RequestStream::stop_sending$", eff("stop_sending")),
    ] + contracts(1)
    ex = E.make_executor(L, INLINE, con)
    st = State()
    st.world.update({"script": []})
    co = Obj("{async fn body of client::stream::RequestStream<S, B>::recv_response()}", z3.BitVecVal(3, 32))
    pin = Obj("Pin<&mut coroutine>")
    pin.fields[(None, 0)] = Cell(Ref(Cell(co)))
    E.call(ex, st, r"^client::stream::<impl[^>]*>::recv_response::\{closure#0\}$", [pin, Ref(Cell(Obj("Context")))])
    outs = E.collect(ex, st)
    viols = []
    queries = 0
    codes = {n: E.code_value(L.consts, n) for n in ("H3_FRAME_UNEXPECTED", "H3_FRAME_ERROR", "QPACK_DECOMPRESSION_FAILED")}
    wit = {"client.response_delivered": False, "client.frame_unexpected": False, "client.remote_terminate": False, "client.frame_error": False}
    fin_outcome = set()
    for s, ret in outs:
        letter = s.world["script"][0] if s.world["script"] else None
        if ret == ("panic",):
            viols.append({"key": "c03.client.panic", "what": "recv_response can panic", "model": {"first_event": letter}})
            continue
        conn_errs = [e for e in s.effects if e[0] == "connection_error"]
        pending = ret.discr.as_long() == 1
        res = None if pending else E.get_field(ret, ("Ready", 0))
        is_err = res is not None and res.discr.as_long() == 1
        err = E.get_field(res, ("Err", 0)) if is_err else None
        info = {"first_event": letter, "qpack": s.world.get("qpack"), "fields": s.world.get("fields")}
        if letter == "Pending":
            if not pending:
                viols.append({"key": "c03.client.answers_while_pending", "what": "recv_response completes although no frame has arrived", "model": info})
            continue
        if pending:
            raise Inconclusive("recv_response suspends again after its first frame: the continuation behind that await is not analysed")
        want_conn = None
        if letter in ("Data0", "DataN") or letter in KNOWN_BAD or letter == "Forbidden":
            want_conn = "H3_FRAME_UNEXPECTED"
        elif letter in ("Malformed", "UnexpectedEnd"):
            want_conn = "H3_FRAME_ERROR"
        if want_conn:
            queries += 1
            bad = (len(conn_errs) != 1 or isinstance(conn_errs[0][1], str) or conn_errs[0][1] is None or ex.feasible(s, conn_errs[0][1] != codes[want_conn]) or not is_err)
            if bad:
                viols.append({"key": f"c03.client.invalid_first_frame.expected_{want_conn}",
                              "what": f"client: {letter} as the first frame of a response must be the connection error {want_conn}", "model": info})
            else:
                wit["client.frame_unexpected" if want_conn == "H3_FRAME_UNEXPECTED" else "client.frame_error"] = True
            continue
        if letter in ("Reset", "UnknownErr"):
            name, code = stream_error_summary(ex, err) if err is not None else ("none", None)
            if conn_errs:
                viols.append({"key": "c07.client.stream_fault.raised_connection_error", "what": f"client: {letter} on a response stream raises a connection error", "model": info})
            elif letter == "Reset":
                queries += 1
                rc = s.world.get("reset_code")
                if name != "RemoteTerminate" or code is None or rc is None or ex.feasible(s, code != rc):
                    viols.append({"key": "c07.client.reset.not_remote_terminate_with_peer_code", "what": "client: a RESET of the response stream is not RemoteTerminate with the peer's code", "model": info})
                else:
                    wit["client.remote_terminate"] = True
            elif name != "Undefined":
                viols.append({"key": "c07.client.transport_stream_error.not_undefined", "what": "client: a transport-specific stream error is not passed through as Undefined", "model": info})
            continue
        if letter == "ConnClose":
            if not conn_errs:
                viols.append({"key": "c03.client.transport_error.not_reported", "what": "client: a connection close seen on the response stream is not raised", "model": info})
            continue
        if letter == "Fin":
            fin_outcome.add("connection error" if conn_errs else ("stream error" if is_err else "ok"))
            continue
        # HEADERS
        qp, fl = s.world.get("qpack"), s.world.get("fields")
        if qp == "malformed":
            queries += 1
            if len(conn_errs) != 1 or isinstance(conn_errs[0][1], str) or ex.feasible(s, conn_errs[0][1] != codes["QPACK_DECOMPRESSION_FAILED"]):
                viols.append({"key": "c03.client.qpack_failure.not_decompression_failed", "what": "client: a response section the QPACK decoder refuses is not QPACK_DECOMPRESSION_FAILED", "model": info})
            continue
        if conn_errs:
            viols.append({"key": "c07.client.stream_fault.raised_connection_error", "what": "client: a response HEADERS frame (oversized / malformed fields) raises a connection error", "model": info})
            continue
        if qp == "too_long":
            name, _ = stream_error_summary(ex, err) if err is not None else ("none", None)
            if name != "HeaderTooBig":
                viols.append({"key": "c07.client.oversized_response.not_header_too_big", "what": "client: an oversized response section is not HeaderTooBig", "model": info})
            continue
        if fl == "malformed":
            continue      # code and signalling decided under C12
        if is_err:
            viols.append({"key": "c03.client.valid_response.refused", "what": "client: a valid first HEADERS frame does not yield the response", "model": info})
        else:
            wit["client.response_delivered"] = True
    log(f"client recv_response: {len(outs)} paths; end of stream before HEADERS is reported as: {sorted(fin_outcome)}")
    return viols, {"states": len(outs), "queries": ex.queries + queries, "solver_s": ex.solver_s, "witness": wit, "functions": sorted(ex.functions_used)}


_check_server = check


def check(L, tier, log, samples):
    v1, s1 = _check_server(L, tier, log, samples)
    v2, s2 = check_client_first_frame(L, tier, log, samples)
    s1["states"] += s2["states"]
    s1["queries"] += s2["queries"]
    s1["transitions"] = s1["queries"]
    s1["solver_s"] = round(s1["solver_s"] + s2["solver_s"], 2)
    s1["witness"].update(s2["witness"])
    s1["functions"] = sorted(set(s1["functions"]) | set(s2["functions"]))
    return v1 + v2, s1


# native scenarios that exercise, against the real build, the behaviours this spec decides: on a tree where the spec finds no
# violation every one of them must NOT reproduce (a scenario that reproduces there means the spec misses something)
SCENARIOS = [('c03_empty_data', []), ('c03_frame_after_trailers', [])]
