"""C09 — shutdown drains: accept() ends exactly when all accepted requests have.

The server counts a request as 'in progress' from the moment its stream id is inserted into `ongoing_streams`
(poll_accept_request_stream_internal) until that id arrives on the request-end channel; the id is sent by
`impl Drop for RequestEnd`. Decided on the MIR (z3 for every branch and comparison):
  A  create_resolver_internal (executed, not assumed): the RequestResolver handed to the application owns an
     Arc<RequestEnd> whose stream_id is the stream's id and whose sender is a clone of the connection's channel — so the
     end of the request is reported however the resolver ends (dropped unresolved, refused, resolved).
  B  RequestEnd::drop sends exactly its stream_id on its sender (the only effect).
  C  RequestResolver::accept_with_frame, for EVERY first-frame outcome (HEADERS, FIN, each other frame kind, each decoder /
     transport error) and every QPACK verdict: on every refusing path the resolver (and with it the Arc<RequestEnd>) is
     dropped, i.e. the id is reported; on the accepting path the RequestStream returned owns that same Arc (not a second
     one, not dropped early), so the id is reported exactly when the last handle of the request is dropped.
  D  poll_requests_completion from an arbitrary state, over every channel script of up to 3 messages: Ready iff the channel
     is closed or, after removing every received id, no accepted id is left (the emptiness test is the HashSet's own).
  E  poll_accept_request_stream_internal: 'no more requests' (Ready(Ok(None))) is returned only on paths where
     poll_requests_completion answered Ready in the same poll (never while a handed-out request is still in progress).
Trusted: Arc (the value is dropped when the last clone is), the tokio channel (FIFO, nothing lost), HashSet.
"""
import time
import z3

from .. import engine as E
from .. import contracts as C
from ..sym import State, Cell, Obj, Ref, UNIT, Case, Inconclusive
from . import c08, c03


def c_arc_new(ex, st, key, argv, dest_ty, raw):
    def ap(ex, st, a):
        o = Obj(dest_ty)
        o.attrs["arc_inner"] = a[0]
        o.attrs["arc_id"] = E.fresh("arc")
        return o
    return [Case(None, ap)]


def c_sender_clone(ex, st, key, argv, dest_ty, raw):
    def ap(ex, st, a):
        src = C.deref(a[0])
        o = Obj(dest_ty)
        o.attrs["channel"] = src.attrs.get("channel", "unknown")
        return o
    return [Case(None, ap)]


def c_ctor(ex, st, key, argv, dest_ty, raw):
    """A plain constructor (`Foo::new(a, b, ..)` storing its arguments): keep the arguments reachable."""
    def ap(ex, st, a):
        o = Obj(dest_ty)
        for i, v in enumerate(a):
            o.fields[(None, i)] = Cell(v)
        return o
    return [Case(None, ap)]


def c_send_id(ex, st, key, argv, dest_ty, raw):
    return [Case(None, lambda ex, st, a: c08.sid(st.world["stream_id"]))]


def find_arcs(v, seen=None, out=None):
    """All Arc<RequestEnd> objects reachable from v."""
    seen = seen if seen is not None else set()
    out = out if out is not None else []
    if isinstance(v, Ref):
        v = v.cell.v
    if isinstance(v, Cell):
        v = v.v
    if isinstance(v, Obj):
        if id(v) in seen:
            return out
        seen.add(id(v))
        if "arc_inner" in v.attrs and isinstance(v.attrs["arc_inner"], Obj) and "RequestEnd" in v.attrs["arc_inner"].ty:
            out.append(v)
            return out
        if v.ty.endswith("connection::RequestEnd") or v.ty == "RequestEnd":
            # a guard held by value (not behind an Arc)
            out.append(v)
            return out
        for c in v.fields.values():
            find_arcs(c.v, seen, out)
        for a in v.attrs.values():
            if isinstance(a, (Obj, Ref, Cell)):
                find_arcs(a, seen, out)
    return out


def drop_effect(name):
    def f(ex, st, key, argv, dest_ty, raw):
        def ap(ex, st, a):
            st.effects.append((name, a[0]))
            return UNIT
        return [Case(None, ap)]
    return f


def part_a(L, log):
    con = [(r"^UnboundedSender as Clone::clone$", c_sender_clone), (r"^Arc as Clone::clone$", C.c_opaque),
           (r"^Arc::new$", c_arc_new), (r"FrameStream as SendStream::send_id$", c_send_id)] + c08.base_contracts()
    ex = E.make_executor(L, [], con)
    st = State()
    st.world["stream_id"] = z3.BitVec("accepted_stream_id", 64)
    conn = Obj("server::connection::Connection<C, B>")
    fn = ex.find_fn(r"server::connection::<impl[^>]*>::create_resolver_internal$")
    import re
    text = "\n".join(s_ for b in fn.blocks.values() for s_ in b.stmts)
    m = re.search(r"\(\(\*_1\)\.(\d+): tokio::sync::mpsc::UnboundedSender<", text)
    if not m:
        raise Inconclusive("create_resolver_internal: cannot locate the request-end sender")
    sender = Obj("tokio::sync::mpsc::UnboundedSender<StreamId>")
    sender.attrs["channel"] = "request_end"
    conn.fields[(None, int(m.group(1)))] = Cell(sender)
    E.call(ex, st, r"server::connection::<impl[^>]*>::create_resolver_internal$", [Ref(Cell(conn)), Obj("frame::FrameStream<S, B>")])
    outs = E.collect(ex, st)
    viols = []
    resolver = None
    for s, ret in outs:
        arcs = find_arcs(ret)
        good = []
        for a in arcs:
            re_ = a.attrs.get("arc_inner", a)
            ch = E.get_field(re_, (None, 0))
            sidv = E.get_field(re_, (None, 1), (None, 0))
            if isinstance(ch, Obj) and ch.attrs.get("channel") == "request_end" and sidv is not None and not ex.feasible(s, sidv != s.world["stream_id"]):
                good.append(a)
        if len(good) != 1:
            viols.append({"key": "c09.resolver.owns_no_request_end",
                          "what": "the RequestResolver handed to the application does not own a RequestEnd for its stream: a request that ends "
                                  "before its HEADERS are decoded (handle dropped, FIN before HEADERS, another first frame, decoder error, QPACK "
                                  "failure) is never reported on the completion channel, so after a GOAWAY accept() waits forever",
                          "model": {"fields": (ret.attrs.get("field_names") if isinstance(ret, Obj) else None)}})
        resolver = (s, ret, good[0] if good else None)
    return ex, viols, resolver, len(outs)


def part_b(L, log):
    def c_send(ex, st, key, argv, dest_ty, raw):
        def ap(ex, st, a):
            ch = C.deref(a[0])
            st.effects.append(("send", ch.attrs.get("channel"), E.get_field(a[1], (None, 0))))
            return ex.fresh(dest_ty, "sendres")
        return [Case(None, ap)]
    ex = E.make_executor(L, [], [(r"^UnboundedSender::send$", c_send)] + c08.base_contracts())
    st = State()
    re_ = Obj("server::connection::RequestEnd")
    ch = Obj("UnboundedSender")
    ch.attrs["channel"] = "request_end"
    idv = z3.BitVec("request_end_stream_id", 64)
    re_.fields[(None, 0)] = Cell(ch)
    re_.fields[(None, 1)] = Cell(c08.sid(idv))
    E.call(ex, st, r"server::stream::<impl at src/server/stream\.rs[^>]*>::drop$", [Ref(Cell(re_))])
    viols = []
    outs = E.collect(ex, st)
    for s, ret in outs:
        sends = [e for e in s.effects if e[0] == "send"]
        if len(sends) != 1 or sends[0][1] != "request_end" or sends[0][2] is None or ex.feasible(s, sends[0][2] != idv):
            viols.append({"key": "c09.request_end.drop_does_not_send_its_id", "what": "dropping a RequestEnd does not send exactly its stream id on its channel", "model": {}})
    return ex, viols, len(outs)


def part_c(L, log, resolver_triple, samples):
    """accept_with_frame over every first frame, starting from the resolver create_resolver_internal really builds."""
    s0, resolver, arc = resolver_triple
    con = [
        (r"^Arc::new$", c_arc_new), (r"^Arc as Clone::clone$", C.c_identity), (r"^UnboundedSender as Clone::clone$", c_sender_clone),
        (r"FrameStream as SendStream::send_id$", c_send_id),
        (r"^connection::RequestStream::new$|^ResolvedRequest::new$", c_ctor),
        (r"^drop<.*RequestResolver.*>$", drop_effect("resolver_dropped")),
        (r"^drop<.*Arc<.*RequestEnd>.*>$|^drop<Arc>$|^drop<.*connection::RequestEnd>$|^drop<RequestEnd>$", drop_effect("arc_dropped")),
    ] + c03.contracts(1)
    ex = E.make_executor(L, c03.INLINE, con, max_unroll=3)
    viols = []
    paths = 0
    wit = {"refused": False, "accepted": False}
    res_ty = "Result<Option<Frame>, FrameStreamError>"
    for letter in c03.LETTERS:
        if letter == "Pending":
            continue
        st = s0.clone()
        st.effects = []
        st.world["script"] = [letter]
        import copy
        res2 = copy.deepcopy(resolver)
        my_arcs = find_arcs(res2)
        fr = c03.frame_result(ex, letter, res_ty)
        E.call(ex, st, r"^server::request::<impl[^>]*>::accept_with_frame$", [res2, fr])
        for s, ret in E.collect(ex, st):
            paths += 1
            ok = isinstance(ret, Obj) and z3.is_bv_value(ret.discr) and ret.discr.as_long() == 0
            dropped_resolver = [e for e in s.effects if e[0] == "resolver_dropped"]
            dropped_arcs = [e for e in s.effects if e[0] == "arc_dropped"]
            info = {"first_frame": letter, "qpack": s.world.get("qpack"), "returns": "Ok" if ok else "Err"}
            # the resolver's own Arc in this state: located again through the dropped objects / the result
            if not ok:
                wit["refused"] = True
                reported = any(find_arcs(e[1]) for e in dropped_resolver) or any(find_arcs(e[1]) or ("arc_inner" in C.deref(e[1]).attrs) for e in dropped_arcs)
                if not reported:
                    viols.append({"key": "c09.request_end.not_reported_when_request_is_refused",
                                  "what": "accept_with_frame refuses the request (no HEADERS / wrong first frame / decoder error / QPACK failure) without the "
                                          "request's end being reported on the completion channel: the stream id stays in ongoing_streams forever",
                                  "model": info})
            else:
                wit["accepted"] = True
                held = find_arcs(ret)
                if len(held) != 1:
                    viols.append({"key": "c09.request_end.accepted_request_holds_wrong_number_of_ends",
                                  "what": f"the accepted request owns {len(held)} RequestEnd objects instead of exactly one", "model": info})
                elif dropped_arcs or dropped_resolver and any(find_arcs(e[1]) for e in dropped_resolver):
                    viols.append({"key": "c09.request_end.reported_before_the_request_ended",
                                  "what": "the request's end is reported (RequestEnd dropped) although the request was just handed to the application", "model": info})
        if len(samples) < 3:
            samples.append({"part": "C", "first_frame": letter})
    return ex, viols, paths, wit


def part_d(L, log):
    k = 3

    def c_poll_recv(ex, st, key, argv, dest_ty, raw):
        n = st.world.setdefault("received", 0)

        def some(ex, st, a):
            st.world["received"] += 1
            return ex.make_enum(dest_ty, "Ready", [ex.make_enum("Option<StreamId>", "Some", [c08.sid(z3.BitVec(E.fresh("ended_id"), 64))])])

        def closed(ex, st, a):
            st.world["channel"] = "closed"
            return ex.make_enum(dest_ty, "Ready", [ex.make_enum("Option<StreamId>", "None")])

        def pend(ex, st, a):
            st.world["channel"] = "empty"
            return ex.make_enum(dest_ty, "Pending")
        cases = [Case(None, pend), Case(z3.BoolVal(True), closed)]
        if n < k:
            cases.append(Case(z3.BoolVal(True), some))
        return cases

    def c_remove(ex, st, key, argv, dest_ty, raw):
        def ap(ex, st, a):
            st.effects.append(("removed", E.get_field(C.deref(a[1]), (None, 0))))
            return z3.Bool(E.fresh("was_present"))
        return [Case(None, ap)]

    def c_is_empty(ex, st, key, argv, dest_ty, raw):
        b = z3.Bool(E.fresh("ongoing_empty"))

        def ap(ex, st, a):
            st.world["empty"] = b
            return b
        return [Case(None, ap)]
    ex = E.make_executor(L, [], [(r"^UnboundedReceiver::poll_recv$", c_poll_recv), (r"^HashSet::remove$", c_remove),
                                 (r"^HashSet::is_empty$", c_is_empty)] + c08.base_contracts(), max_unroll=k + 2)
    st = State()
    E.call(ex, st, r"server::connection::<impl[^>]*>::poll_requests_completion$", [Ref(Cell(Obj("server::connection::Connection<C, B>"))), Ref(Cell(Obj("Context")))])
    outs = E.collect(ex, st)
    if ex.unroll_exceeded:
        raise Inconclusive("loop bound exceeded: " + repr(ex.unroll_exceeded[:3]))
    viols = []
    wit = {"ready_when_drained": False, "pending_while_in_progress": False}
    for s, ret in outs:
        ready = z3.is_bv_value(ret.discr) and ret.discr.as_long() == 0
        removed = len([e for e in s.effects if e[0] == "removed"])
        if removed != s.world.get("received", 0):
            viols.append({"key": "c09.completion.received_id_not_removed", "what": "an id received on the completion channel is not removed from ongoing_streams", "model": {}})
        if s.world.get("channel") == "closed":
            if not ready:
                viols.append({"key": "c09.completion.closed_channel_not_ready", "what": "a closed completion channel does not end the wait", "model": {}})
            continue
        emp = s.world.get("empty")
        if emp is None:
            viols.append({"key": "c09.completion.no_emptiness_test", "what": "the decision is taken without looking at ongoing_streams", "model": {}})
            continue
        if ready:
            wit["ready_when_drained"] = True
            if ex.feasible(s, z3.Not(emp)):
                viols.append({"key": "c09.completion.ready_while_request_in_progress",
                              "what": "poll_requests_completion answers Ready although an accepted request has not ended", "model": {}})
        else:
            wit["pending_while_in_progress"] = True
            if ex.feasible(s, emp):
                viols.append({"key": "c09.completion.pending_although_all_requests_ended",
                              "what": "poll_requests_completion stays Pending although every accepted request has ended", "model": {}})
    return ex, viols, len(outs), wit


def part_e(L, log):
    """Ready(Ok(None)) from the accept poll only after poll_requests_completion said Ready in the same poll."""
    def c_completion(ex, st, key, argv, dest_ty, raw):
        def r(ex, st, a):
            st.effects.append(("completion", "ready"))
            return ex.make_enum(dest_ty, "Ready", [UNIT])

        def p(ex, st, a):
            st.effects.append(("completion", "pending"))
            return ex.make_enum(dest_ty, "Pending")
        return [Case(None, r), Case(z3.BoolVal(True), p)]
    con = [
        (r"^server::connection::Connection::poll_control$", c08.c_nondet_poll_unit_result),
        (r"^server::connection::Connection::poll_requests_completion$", c_completion),
        (r"^ConnectionInner::poll_accept_bi$", c08.c_poll_accept_bi(2)),
        (r" as SendStream::send_id$", c08.c_send_id),
        (r" as RecvStream::stop_sending$", c08.eff_stream("stop_sending")),
        (r" as SendStream::reset$", c08.eff_stream("reset")),
        (r"^HashSet::insert$|^BTreeSet::insert$|^Vec::push$", c08.c_hashset_insert),
    ] + c08.base_contracts()
    ex = E.make_executor(L, c08.INLINE_COMMON, con, max_unroll=3)
    st = State()
    conn = Obj("server::connection::Connection<C, B>")
    sent, _, _ = c08.sym_option_id(ex, st, "sent_goaway_id")
    conn.fields[(None, 5)] = Cell(sent)
    E.call(ex, st, r"^server::connection.*::poll_accept_request_stream_internal$", [Ref(Cell(conn)), Ref(Cell(Obj("Context")))])
    outs = E.collect(ex, st)
    viols = []
    wit = {"no_more_requests_reported": False}
    for s, ret in outs:
        none = False
        if isinstance(ret, Obj) and z3.is_bv_value(ret.discr) and ret.discr.as_long() == 0:
            r = E.get_field(ret, ("Ready", 0))
            if r is not None and r.discr.as_long() == 0:
                o = E.get_field(r, ("Ok", 0))
                none = o is not None and o.discr.as_long() == 0
        if none:
            wit["no_more_requests_reported"] = True
            comps = [e[1] for e in s.effects if e[0] == "completion"]
            if not comps or comps[-1] != "ready":
                viols.append({"key": "c09.accept.no_more_requests_while_in_progress",
                              "what": "accept reports 'no more requests' on a path where the completion check did not answer Ready", "model": {"completion_calls": comps}})
    return ex, viols, len(outs), wit


def check(L, tier, log, samples):
    t0 = time.time()
    viols = []
    fns = set()
    queries = 0
    states = 0
    wit = {}
    exa, va, resolver, na = part_a(L, log)
    viols += va
    fns |= exa.functions_used
    queries += exa.queries
    states += na
    exb, vb, nb = part_b(L, log)
    viols += vb
    fns |= exb.functions_used
    queries += exb.queries
    states += nb
    exc, vc, nc, wc = part_c(L, log, resolver, samples)
    viols += vc
    fns |= exc.functions_used
    queries += exc.queries
    states += nc
    wit.update({"C." + k: v for k, v in wc.items()})
    d_solver_s = 0.0
    try:
        exd, vd, nd, wd = part_d(L, log)
        viols += vd
        fns |= exd.functions_used
        queries += exd.queries
        states += nd
        d_solver_s = exd.solver_s
        wit.update({"D." + k: v for k, v in wd.items()})
    except Inconclusive as e:
        # part D abstracts ongoing_streams as a set (HashSet contracts, arbitrary pre-state). With another representation
        # it does not apply; the history part G, which executes the collection's operations on an explicit list, decides.
        nd = 0
        log(f"D (arbitrary-state step over an abstract set) not applicable to this representation of ongoing_streams: {e}; decided by the histories of part G only")
    exe, ve, ne, we = part_e(L, log)
    viols += ve
    fns |= exe.functions_used
    queries += exe.queries
    states += ne
    wit.update({"E." + k: v for k, v in we.items()})
    exg, vg, ng, wg = part_g(L, log, tier)
    viols += vg
    fns |= exg.functions_used
    queries += exg.queries
    states += ng
    wit.update(wg)
    exf, vf, nf, wf = part_f(L, log)
    viols += vf
    fns |= exf.functions_used
    queries += exf.queries
    states += nf
    wit.update({"F." + k: v for k, v in wf.items()})
    log(f"A resolver {na} path(s); B RequestEnd::drop {nb}; C accept_with_frame {nc} paths; D completion {nd} paths; E accept gate {ne} paths")
    stats = {"states": states, "transitions": queries, "queries": queries,
             "solver_s": round(exa.solver_s + exb.solver_s + exc.solver_s + d_solver_s + exe.solver_s, 2),
             "witness": wit, "functions": sorted(fns), "wall_s": round(time.time() - t0, 1)}
    return viols, stats


def part_g(L, log, tier):
    """Histories of the accounting set itself, with the collection's operations executed with their std semantics on an
    explicit list (not abstracted): 3 (quick) / 4 (thorough) requests are in progress (ids 0,4,8[,12] - only their order
    matters, StreamId's Ord is numeric, C16), the completion channel reports their ends in EVERY order, all in one poll or
    spread over two polls: after the last one poll_requests_completion must answer Ready, before it Pending. Supported
    representations of ongoing_streams: HashSet (insert/remove/is_empty/contains) and Vec (push, binary_search with the
    std algorithm - also on a list that is no longer sorted -, swap_remove, remove, is_empty, contains)."""
    import itertools
    n = 3 if tier == "quick" else 4
    ids = [4 * i for i in range(n)]

    def sid_val(v):
        v = C.deref(v)
        x = E.get_field(v, (None, 0)) if isinstance(v, Obj) else v
        x = z3.simplify(x)
        if not z3.is_bv_value(x):
            raise Inconclusive("request id is not concrete in the history spec")
        return x.as_long()

    def c_poll_recv(ex, st, key, argv, dest_ty, raw):
        def ap(ex, st, a):
            w = st.world
            if w["inbox"]:
                i = w["inbox"].pop(0)
                return ex.make_enum(dest_ty, "Ready", [ex.make_enum("Option<StreamId>", "Some", [c08.sid(z3.BitVecVal(i, 64))])])
            return ex.make_enum(dest_ty, "Pending")
        return [Case(None, ap)]

    def op(fn):
        def f(ex, st, key, argv, dest_ty, raw):
            return [Case(None, lambda ex, st, a: fn(ex, st, a, dest_ty))]
        return f

    def set_remove(ex, st, a, dest_ty):
        v = sid_val(a[1])
        present = v in st.world["ongoing"]
        st.world["ongoing"] = [x for x in st.world["ongoing"] if x != v]
        return z3.BoolVal(present)

    def set_insert(ex, st, a, dest_ty):
        v = sid_val(a[1])
        fresh = v not in st.world["ongoing"]
        if fresh:
            st.world["ongoing"].append(v)
        return z3.BoolVal(fresh)

    def coll_is_empty(ex, st, a, dest_ty):
        return z3.BoolVal(len(st.world["ongoing"]) == 0)

    def coll_contains(ex, st, a, dest_ty):
        return z3.BoolVal(sid_val(a[1]) in st.world["ongoing"])

    def vec_push(ex, st, a, dest_ty):
        st.world["ongoing"].append(sid_val(a[1]))
        return UNIT

    def vec_binary_search(ex, st, a, dest_ty):
        # core::slice::binary_search_by as in the standard library (the result on an unsorted slice is whatever this
        # algorithm yields)
        lst = st.world["ongoing"]
        key_ = sid_val(a[1])
        size = len(lst)
        if size == 0:
            return ex.make_enum(dest_ty, "Err", [z3.BitVecVal(0, 64)])
        base = 0
        while size > 1:
            half = size // 2
            mid = base + half
            if not lst[mid] > key_:
                base = mid
            size -= half
        if lst[base] == key_:
            return ex.make_enum(dest_ty, "Ok", [z3.BitVecVal(base, 64)])
        return ex.make_enum(dest_ty, "Err", [z3.BitVecVal(base + (1 if lst[base] < key_ else 0), 64)])

    def idx_of(v):
        v = z3.simplify(v)
        if not z3.is_bv_value(v):
            raise Inconclusive("symbolic index into ongoing_streams")
        return v.as_long()

    def vec_swap_remove(ex, st, a, dest_ty):
        lst = st.world["ongoing"]
        i = idx_of(a[1])
        if i >= len(lst):
            st.world["__panicked"] = True
            st.effects.append(("panic", "swap_remove index out of bounds", "", ""))
            return UNIT
        out = lst[i]
        lst[i] = lst[-1]
        lst.pop()
        return c08.sid(z3.BitVecVal(out, 64))

    def vec_remove(ex, st, a, dest_ty):
        lst = st.world["ongoing"]
        i = idx_of(a[1])
        if i >= len(lst):
            st.world["__panicked"] = True
            st.effects.append(("panic", "remove index out of bounds", "", ""))
            return UNIT
        return c08.sid(z3.BitVecVal(lst.pop(i), 64))
    con = [
        (r"^UnboundedReceiver::poll_recv$", c_poll_recv),
        (r"^HashSet::remove$|^BTreeSet::remove$", op(set_remove)), (r"^HashSet::insert$|^BTreeSet::insert$", op(set_insert)),
        (r"^HashSet::is_empty$|^BTreeSet::is_empty$|^Vec::is_empty$|\]::is_empty$|^\[T\]::is_empty$", op(coll_is_empty)),
        (r"^HashSet::contains$|^BTreeSet::contains$|\]::contains$|^\[T\]::contains$", op(coll_contains)),
        (r"^Vec::push$", op(vec_push)), (r"\]::binary_search$|^\[T\]::binary_search$", op(vec_binary_search)),
        (r"^Vec::swap_remove$", op(vec_swap_remove)), (r"^Vec::remove$", op(vec_remove)),
        (r"^Vec as Deref::deref$|^Vec as DerefMut::deref_mut$", C.c_identity),
    ] + c08.base_contracts()
    ex = E.make_executor(L, [], con, max_unroll=n + 2)
    viols = []
    wit = {"G.drained_in_every_order": False, "G.pending_before_the_last_end": False}
    paths = 0
    all_ok = True
    for perm in itertools.permutations(ids):
        for split in (n, n - 1):         # all ends in one poll; or the last one in a second poll
            st = State()
            st.world.update({"ongoing": list(ids), "inbox": list(perm[:split])})
            conn = Cell(Obj("server::connection::Connection<C, B>"))
            st.world["conn"] = conn
            E.call(ex, st, r"server::connection::<impl[^>]*>::poll_requests_completion$", [Ref(conn), Ref(Cell(Obj("Context")))])
            outs = E.collect(ex, st)
            if ex.unroll_exceeded:
                raise Inconclusive("loop bound exceeded: " + repr(ex.unroll_exceeded[:3]))
            for s, ret in outs:
                paths += 1
                if ret == ("panic",):
                    viols.append({"key": "c09.history.panic", "what": "poll_requests_completion panics", "model": {"order": list(perm)}})
                    all_ok = False
                    continue
                ready = ret.discr.as_long() == 0
                if split == n:
                    if not ready:
                        viols.append({"key": "c09.history.not_drained_after_every_request_ended",
                                      "what": f"{n} requests in progress end in the order {list(perm)}: after the last end poll_requests_completion still answers Pending "
                                              "(an ended id stays in ongoing_streams): accept() never reports 'no more requests'",
                                      "model": {"order": list(perm), "left": list(s.world["ongoing"])}})
                        all_ok = False
                    continue
                if ready:
                    viols.append({"key": "c09.history.drained_while_a_request_is_in_progress",
                                  "what": f"poll_requests_completion answers Ready although request {perm[-1]} has not ended", "model": {"order": list(perm)}})
                    all_ok = False
                    continue
                wit["G.pending_before_the_last_end"] = True
                s.world["inbox"] = [perm[-1]]
                E.call(ex, s, r"server::connection::<impl[^>]*>::poll_requests_completion$", [Ref(s.world["conn"]), Ref(Cell(Obj("Context")))])
                for s2, r2 in E.collect(ex, s):
                    paths += 1
                    if r2 == ("panic",) or r2.discr.as_long() != 0:
                        viols.append({"key": "c09.history.not_drained_after_every_request_ended",
                                      "what": f"{n} requests in progress end in the order {list(perm)} (the last one in a later poll): poll_requests_completion still answers Pending",
                                      "model": {"order": list(perm), "left": list(s2.world["ongoing"])}})
                        all_ok = False
    wit["G.drained_in_every_order"] = all_ok
    return ex, viols, paths, wit


def part_f(L, log):
    """server RequestStream::split: both halves must hold the SAME RequestEnd (one shared guard, dropped with the last half):
    a copied guard would report the request's end when the first half is dropped."""
    guards = []

    def c_arc_clone(ex, st, key, argv, dest_ty, raw):
        def ap(ex, st, a):
            src = C.deref(a[0])
            o = Obj(dest_ty)
            o.attrs["guard"] = src.attrs.get("guard")   # another handle on the same guard
            return o
        return [Case(None, ap)]

    def c_guard_copy(ex, st, key, argv, dest_ty, raw):
        def ap(ex, st, a):
            o = Obj(dest_ty)
            o.attrs["guard"] = "copy%d_of_%s" % (len(st.world.setdefault("copies", [])), C.deref(a[0]).attrs.get("guard"))
            st.world["copies"].append(o.attrs["guard"])
            return o
        return [Case(None, ap)]

    def c_inner_split(ex, st, key, argv, dest_ty, raw):
        def ap(ex, st, a):
            t = Obj(dest_ty)
            t.fields[(None, 0)] = Cell(Obj("connection::RequestStream<send half>"))
            t.fields[(None, 1)] = Cell(Obj("connection::RequestStream<recv half>"))
            return t
        return [Case(None, ap)]
    con = [(r"^Arc as Clone::clone$", c_arc_clone), (r"^RequestEnd as Clone::clone$", c_guard_copy),
           (r"^connection::RequestStream::split$", c_inner_split)] + c08.base_contracts()
    ex = E.make_executor(L, [], con)
    st = State()
    rs = Obj("server::stream::RequestStream<S, B>")
    g = Obj("request end guard")
    g.attrs["guard"] = "the_request_end"
    rs.fields[(None, 1)] = Cell(g)
    E.call(ex, st, r"^server::stream::<impl[^>]*>::split$", [rs])
    outs = E.collect(ex, st)
    viols = []
    wit = {"split_executed": False}
    for s, ret in outs:
        if ret == ("panic",):
            continue
        wit["split_executed"] = True
        held = []
        for i in (0, 1):
            half = E.get_field(ret, (None, i))
            gd = E.get_field(half, (None, 1)) if half is not None else None
            held.append(gd.attrs.get("guard") if isinstance(gd, Obj) else None)
        if held != ["the_request_end", "the_request_end"]:
            viols.append({"key": "c09.split.halves_do_not_share_one_request_end",
                          "what": "after split() the two halves do not share the request's single RequestEnd: the half dropped first reports the end of a "
                                  "request whose other half is still in use, so accept() can report 'no more requests' while a request is in progress",
                          "model": {"guards_held": held}})
    return ex, viols, len(outs), wit


def replay_args(v):
    if v["key"] in ("c09.resolver.owns_no_request_end", "c09.request_end.not_reported_when_request_is_refused"):
        return ("c09_refused_request_blocks_shutdown", [])
    if v["key"].startswith("c09.history."):
        order = v.get("model", {}).get("order") or [0, 8, 4]
        return ("c09_end_order", [",".join(str(i) for i in order)])
    if v["key"] in ("c09.split.halves_do_not_share_one_request_end", "c09.request_end.accepted_request_holds_wrong_number_of_ends"):
        return ("c09_split_halves", [])
    return None


# native scenarios that exercise, against the real build, the behaviours this spec decides: on a tree where the spec finds no
# violation every one of them must NOT reproduce (a scenario that reproduces there means the spec misses something)
SCENARIOS = [('c09_refused_request_blocks_shutdown', []), ('c09_split_halves', []), ('c09_end_order', ['0,8,4']), ('c09_end_order', ['8,0,4']), ('c09_end_order', ['4,8,0'])]
