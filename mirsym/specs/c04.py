"""C04 — control and unidirectional stream rules are enforced with the right error.

One poll of ConnectionInner::poll_control (111 MIR blocks, inlined together with poll_grease_stream,
InternalConnectionError::{new,got_frame_error}) from an ARBITRARY pre-state (got_peer_settings, send_grease_stream_flag and
the grease step are symbolic; the peer's control stream is present), for EVERY result the frame decoder can hand out
(contract for FrameStream::poll_next: each frame kind, each decoder error, end of stream, reset, transport errors, pending)
and every behaviour of the endpoint's own grease stream (open/write/finish: ready, pending, error):
  P1 the connection error raised is exactly the code the property names for that event;
  P2 a legal frame is returned to the role layer; and NO path takes a frame from the decoder and then returns Pending
     (the frame would be lost: 'every frame the peer sends is acted upon exactly once, whatever back-pressure or stream-credit
     shortage the endpoint's own outgoing streams experience');
  P3 the first SETTINGS is applied to the shared settings (set_settings) and flips got_peer_settings.
Role layers: server::Connection::poll_next_control and client::Connection::poll_close over every frame poll_control can
return: the server accepts SETTINGS/GOAWAY/CANCEL_PUSH/MAX_PUSH_ID; the client answers MAX_PUSH_ID with H3_FRAME_UNEXPECTED.
"""
import time
import z3

from .. import engine as E
from .. import contracts as C
from ..sym import State, Cell, Obj, Ref, UNIT, Case, Inconclusive
from . import c08

FRAME = "proto::frame::Frame<proto::frame::PayloadLen>"
CE = "error::error::ConnectionError"

# event -> (how poll_next reports it, the code the property names, or None = no h3 error / frame returned)
FRAME_EVENTS = ["Settings", "Goaway", "CancelPush", "MaxPushId", "Data", "Headers", "PushPromise", "WebTransportStream"]
PROTO_ERRORS = {"ForbiddenFrame": "H3_FRAME_UNEXPECTED", "Malformed": "H3_FRAME_ERROR", "InvalidFrameValue": "H3_FRAME_ERROR",
                "Settings": "H3_SETTINGS_ERROR", "InvalidStreamId": "H3_ID_ERROR", "InvalidPushId": "H3_ID_ERROR"}


def c_poll_connection_error(ex, st, key, argv, dest_ty, raw):
    inner = C.payload_type(dest_ty, "Ready")

    def err(ex, st, a):
        st.world["event"] = "connection_error_already_set"
        return ex.make_enum(dest_ty, "Ready", [ex.make_enum(inner, "Err", [Obj(CE)])])
    return [Case(None, lambda ex, st, a: ex.make_enum(dest_ty, "Pending")), Case(z3.BoolVal(True), err)]


def c_poll_accept_recv(ex, st, key, argv, dest_ty, raw):
    def err(ex, st, a):
        st.world["event"] = "accept_recv_error"
        return ex.make_enum(dest_ty, "Err", [Obj(CE)])
    return [Case(None, lambda ex, st, a: ex.make_enum(dest_ty, "Ok", [UNIT])), Case(z3.BoolVal(True), err)]


def c_poll_next(ex, st, key, argv, dest_ty, raw):
    """FrameStream::poll_next on the control stream: one symbolic event per call."""
    res_ty = C.payload_type(dest_ty, "Ready")                  # Result<Option<Frame>, FrameStreamError>
    FSE = "frame::FrameStreamError"
    cases = []

    def mk_frame(kind):
        def ap(ex, st, a):
            st.world["event"] = "frame:" + kind
            st.effects.append(("frame_taken", kind))
            fr = ex.make_enum(FRAME, kind, [] if kind in ("Grease",) else [Obj("payload:" + kind)])
            return ex.make_enum(dest_ty, "Ready", [ex.make_enum(res_ty, "Ok", [ex.make_enum("Option<Frame>", "Some", [fr])])])
        return ap
    for k in FRAME_EVENTS:
        cases.append(Case(z3.BoolVal(True), mk_frame(k)))

    def mk_proto(kind):
        def ap(ex, st, a):
            st.world["event"] = "proto:" + kind
            pe = ex.make_enum("frame::FrameProtocolError", kind, [] if kind in ("Malformed", "InvalidFrameValue") else [Obj("p")])
            return ex.make_enum(dest_ty, "Ready", [ex.make_enum(res_ty, "Err", [ex.make_enum(FSE, "Proto", [pe])])])
        return ap
    for k in PROTO_ERRORS:
        cases.append(Case(z3.BoolVal(True), mk_proto(k)))

    def mk_quic(kind):
        def ap(ex, st, a):
            st.world["event"] = "quic:" + kind
            qe = ex.make_enum("quic::StreamErrorIncoming", kind, [Obj("q")])
            return ex.make_enum(dest_ty, "Ready", [ex.make_enum(res_ty, "Err", [ex.make_enum(FSE, "Quic", [qe])])])
        return ap
    for k in ("ConnectionErrorIncoming", "StreamTerminated", "Unknown"):
        cases.append(Case(z3.BoolVal(True), mk_quic(k)))

    def unexpected_end(ex, st, a):
        st.world["event"] = "unexpected_end"
        return ex.make_enum(dest_ty, "Ready", [ex.make_enum(res_ty, "Err", [ex.make_enum(FSE, "UnexpectedEnd")])])

    def fin(ex, st, a):
        st.world["event"] = "fin"
        return ex.make_enum(dest_ty, "Ready", [ex.make_enum(res_ty, "Ok", [ex.make_enum("Option<Frame>", "None")])])

    def pending(ex, st, a):
        st.world["event"] = "pending"
        return ex.make_enum(dest_ty, "Pending")
    cases += [Case(z3.BoolVal(True), unexpected_end), Case(z3.BoolVal(True), fin), Case(z3.BoolVal(True), pending)]
    return cases


def c_handle_connection_error(ex, st, key, argv, dest_ty, raw):
    def ap(ex, st, a):
        st.effects.append(("connection_error", a[1]))
        return Obj(CE)
    return [Case(None, ap)]


def nondet3(name):
    """Poll<Result<T, E>>-returning transport call: Ready(Ok) / Pending / Ready(Err)."""
    def f(ex, st, key, argv, dest_ty, raw):
        inner = C.payload_type(dest_ty, "Ready")

        def ok(ex, st, a):
            st.effects.append((name, "ok"))
            okty = C.payload_type(inner, "Ok") or "()"
            return ex.make_enum(dest_ty, "Ready", [ex.make_enum(inner, "Ok", [UNIT if okty.strip() == "()" else Obj(okty)])])

        def pend(ex, st, a):
            st.effects.append((name, "pending"))
            return ex.make_enum(dest_ty, "Pending")

        def err(ex, st, a):
            st.effects.append((name, "err"))
            return ex.make_enum(dest_ty, "Ready", [ex.make_enum(inner, "Err", [Obj("quic::StreamErrorIncoming")])])
        return [Case(None, ok), Case(z3.BoolVal(True), pend), Case(z3.BoolVal(True), err)]
    return f


def c_send_data(ex, st, key, argv, dest_ty, raw):
    def ok(ex, st, a):
        st.effects.append(("grease_send_data", "ok"))
        return ex.make_enum(dest_ty, "Ok", [UNIT])

    def err(ex, st, a):
        st.effects.append(("grease_send_data", "err"))
        return ex.make_enum(dest_ty, "Err", [Obj("quic::StreamErrorIncoming")])
    return [Case(None, ok), Case(z3.BoolVal(True), err)]


def c_set_settings(ex, st, key, argv, dest_ty, raw):
    def ap(ex, st, a):
        st.effects.append(("set_settings",))
        return UNIT
    return [Case(None, ap)]


def contracts():
    return [
        (r"ConnectionInner::poll_connection_error$", c_poll_connection_error),
        (r"^ConnectionInner::poll_accept_recv$", c_poll_accept_recv),
        (r"^FrameStream::poll_next$", c_poll_next),
        (r"ConnectionInner::handle_connection_error$", c_handle_connection_error),
        (r"ConnectionState::set_settings$", c_set_settings),
        (r"^&proto::frame::Settings as Into::into$", C.c_opaque),
        (r" as OpenStreams::poll_open_send$", nondet3("grease_open")),
        (r" as SendStream::poll_ready$", nondet3("grease_ready")),
        (r" as SendStream::poll_finish$", nondet3("grease_finish")),
        (r" as SendStream::send_data$", c_send_data),
        (r"^StreamType::grease$", C.c_opaque),
        (r"^str as ToString::to_string$", C.c_opaque),
        (r"^core::mem::replace$|^std::mem::replace$", c_mem_replace),
    ] + c08.base_contracts()


def c_mem_replace(ex, st, key, argv, dest_ty, raw):
    def ap(ex, st, a):
        old = a[0].cell.v
        if old is None:
            old = ex.fresh(dest_ty, "mr")
        a[0].cell.v = a[1]
        return old
    return [Case(None, ap)]


INLINE = [
    (r"^InternalConnectionError::new$", r"internal_error.*::new$"),
    (r"^InternalConnectionError::got_frame_error$", r"internal_error.*::got_frame_error$"),
    (r"^ConnectionInner::poll_grease_stream$", r"^connection::<impl[^>]*>::poll_grease_stream$"),
]


def conn_error_code(ex, s):
    errs = [e for e in s.effects if e[0] == "connection_error"]
    if not errs:
        return None, 0
    e = C.deref(errs[0][1])
    if isinstance(e, Obj) and "InternalConnectionError" in e.ty:
        return E.get_field(e, (None, 0), (None, 0)), len(errs)
    return "transport", len(errs)


def expected_code(event, got_settings):
    """The property's table. Returns a code NAME, 'transport' (error passed through), 'frame' (frame returned), or None."""
    if event.startswith("frame:"):
        kind = event[6:]
        if kind == "Settings":
            return "H3_FRAME_UNEXPECTED" if got_settings else "frame"
        if not got_settings:
            return "H3_MISSING_SETTINGS"
        if kind in ("Goaway", "CancelPush", "MaxPushId"):
            return "frame"
        return "H3_FRAME_UNEXPECTED"
    if event.startswith("proto:"):
        return PROTO_ERRORS[event[6:]]
    if event == "quic:ConnectionErrorIncoming":
        return "transport"
    if event in ("quic:StreamTerminated", "quic:Unknown", "fin"):
        return "H3_CLOSED_CRITICAL_STREAM"
    if event == "unexpected_end":
        return "H3_FRAME_ERROR"
    return None


def part_inner(L, tier, log, samples):
    ex = E.make_executor(L, INLINE, contracts(), max_unroll=3)
    fn = ex.find_fn(r"^connection::<impl[^>]*>::poll_control$")
    # field indices of ConnectionInner from the MIR's own projections
    import re
    idx = {}
    text = "\n".join(s_ for b in fn.blocks.values() for s_ in b.stmts + [b.term or ""])
    for name, pat in (("control_recv", r"\(\(\*_1\)\.(\d+): std::option::Option<frame::FrameStream<"),
                      ("got_peer_settings", None), ("grease_flag", None)):
        if pat:
            m = re.search(pat, text)
            if not m:
                raise Inconclusive("cannot locate field " + name)
            idx[name] = int(m.group(1))
    bools = sorted({int(m.group(1)) for m in re.finditer(r"\(\(\*_1\)\.(\d+): bool\)", text)})
    if len(bools) != 2:
        raise Inconclusive("expected two bool fields (got_peer_settings, send_grease_stream_flag) in poll_control, found " + repr(bools))
    # the first bool read in program order guards the SETTINGS logic: identify by source order of struct fields
    idx["got_peer_settings"], idx["grease_flag"] = bools[0], bools[1]
    gfn = ex.find_fn(r"^connection::<impl[^>]*>::poll_grease_stream$")
    gtext = "\n".join(s_ for b in gfn.blocks.values() for s_ in b.stmts + [b.term or ""])
    m = re.search(r"\(\(\*_1\)\.(\d+): connection::GreaseStatus<", gtext)
    if not m:
        raise Inconclusive("cannot locate grease_step")
    idx["grease_step"] = int(m.group(1))

    st = State()
    inner = Obj("connection::ConnectionInner<C, B>")
    got = z3.Bool("pre_got_peer_settings")
    gflag = z3.Bool("pre_send_grease_stream_flag")
    inner.fields[(None, idx["got_peer_settings"])] = Cell(got)
    inner.fields[(None, idx["grease_flag"])] = Cell(gflag)
    ctrl = ex.make_enum("std::option::Option<frame::FrameStream<S, B>>", "Some", [Obj("frame::FrameStream<S, B>")])
    inner.fields[(None, idx["control_recv"])] = Cell(ctrl)
    gs = Obj("connection::GreaseStatus<S, B>")
    ex.discr_of(st, gs)
    inner.fields[(None, idx["grease_step"])] = Cell(gs)
    st.world["inner"] = Cell(inner)
    E.call(ex, st, r"^connection::<impl[^>]*>::poll_control$", [Ref(st.world["inner"]), Ref(Cell(Obj("Context")))])
    outs = E.collect(ex, st)
    if ex.unroll_exceeded:
        raise Inconclusive("loop bound exceeded: " + repr(ex.unroll_exceeded[:3]))
    viols = []
    queries = 0
    wit = {"frame_returned": False, "missing_settings": False, "frame_unexpected": False, "closed_critical": False,
           "grease_pending_path": False, "settings_applied": False}
    events_seen = set()
    for s, ret in outs:
        ev = s.world.get("event")
        if ev is None or ev in ("pending", "connection_error_already_set", "accept_recv_error"):
            continue
        events_seen.add(ev)
        code, nerr = conn_error_code(ex, s)
        is_pending = isinstance(ret, Obj) and z3.is_bv_value(ret.discr) and ret.discr.as_long() == 1
        returned_frame = None
        if isinstance(ret, Obj) and z3.is_bv_value(ret.discr) and ret.discr.as_long() == 0:
            r = E.get_field(ret, ("Ready", 0))
            if r is not None and z3.is_bv_value(r.discr) and r.discr.as_long() == 0:
                returned_frame = E.get_field(r, ("Ok", 0))
        if any(e[0] == "grease_open" and e[1] == "pending" or e[0] in ("grease_ready", "grease_finish") and e[1] == "pending"
               for e in s.effects):
            wit["grease_pending_path"] = True
        for gs_val in (True, False):
            cond = got if gs_val else z3.Not(got)
            queries += 1
            if not ex.feasible(s, cond):
                continue
            want = expected_code(ev, gs_val)
            pre = {"event": ev, "got_peer_settings_before": gs_val,
                   "own_grease_stream": [f"{e[0]}={e[1]}" for e in s.effects if e[0].startswith("grease")]}
            if want == "frame":
                if returned_frame is not None and nerr == 0:
                    wit["frame_returned"] = True
                    if ev == "frame:Settings":
                        if not any(e[0] == "set_settings" for e in s.effects):
                            viols.append({"key": "c04.settings.not_applied", "what": "the first SETTINGS frame is not applied to the shared settings", "model": pre})
                        else:
                            wit["settings_applied"] = True
                        post = s.world["inner"].v.fields[(None, idx["got_peer_settings"])].v
                        queries += 1
                        if ex.feasible(s, z3.And(cond, z3.Not(post))):
                            viols.append({"key": "c04.settings.flag_not_set", "what": "got_peer_settings is not set after the first SETTINGS", "model": pre})
                elif is_pending and nerr == 0:
                    viols.append({"key": "c04.frame_taken_then_pending.frame_lost",
                                  "what": "a frame was taken from the control stream's decoder and the poll then returned Pending (the "
                                          "endpoint's own grease stream could not make progress): the frame is dropped and never acted upon",
                                  "model": pre})
                else:
                    viols.append({"key": "c04.legal_frame.rejected", "what": f"a legal control frame ({ev}) causes a connection error", "model": pre})
            elif want == "transport":
                if not (isinstance(code, str) and code == "transport") or nerr != 1:
                    viols.append({"key": "c04.transport_error.not_passed_through", "what": "a transport connection error on the control stream is not reported as such", "model": pre})
            elif want is not None:
                wit_key = {"H3_MISSING_SETTINGS": "missing_settings", "H3_FRAME_UNEXPECTED": "frame_unexpected",
                           "H3_CLOSED_CRITICAL_STREAM": "closed_critical"}.get(want)
                if wit_key:
                    wit[wit_key] = True
                wantv = E.code_value(L.consts, want)
                queries += 1
                if nerr != 1 or code is None or isinstance(code, str) or ex.feasible(s, z3.And(cond, code != wantv)):
                    got_name = None
                    if code is not None and not isinstance(code, str) and z3.is_bv_value(z3.simplify(code)):
                        gv = z3.simplify(code).as_long()
                        got_name = next((k for k, v in L.consts.items() if k.startswith("Code::") and z3.is_bv_value(v.fields[(None, 0)].v) and v.fields[(None, 0)].v.as_long() == gv), hex(gv))
                    pre["got"] = got_name if nerr else ("Pending" if is_pending else "no error")
                    viols.append({"key": f"c04.wrong_error.{ev.replace(':', '_')}.expected_{want}",
                                  "what": f"event {ev} (SETTINGS received before: {gs_val}) must be the connection error {want}", "model": pre})
        if len(samples) < 3:
            samples.append({"event": ev, "effects": [e[0] + (":" + str(e[1]) if len(e) > 1 and isinstance(e[1], str) else "") for e in s.effects],
                            "returns": "Pending" if is_pending else ("frame" if returned_frame is not None else "error")})
    expected_events = {"frame:" + k for k in FRAME_EVENTS} | {"proto:" + k for k in PROTO_ERRORS} | {
        "quic:ConnectionErrorIncoming", "quic:StreamTerminated", "quic:Unknown", "unexpected_end", "fin"}
    missing = expected_events - events_seen
    if missing:
        raise Inconclusive("events never reached the analysed code: " + ", ".join(sorted(missing)))
    log(f"ConnectionInner::poll_control: {len(outs)} paths, {len(events_seen)} decoder events x grease behaviours, {queries} property queries")
    return viols, {"paths": len(outs), "queries": queries + ex.queries, "solver_s": ex.solver_s, "witness": wit,
                   "functions": sorted(ex.functions_used)}


def c_inner_poll_control(kinds):
    def f(ex, st, key, argv, dest_ty, raw):
        inner = C.payload_type(dest_ty, "Ready")
        cases = []

        def mk(kind):
            def ap(ex, st, a):
                st.world["event"] = "frame:" + kind
                k = st.world.get("ctrl_calls", 0)
                st.world["ctrl_calls"] = k + 1
                payload = []
                if kind == "Goaway":
                    payload = [c08.sid(z3.BitVec(E.fresh("goaway_id"), 64), "proto::varint::VarInt")]
                elif kind != "Grease":
                    payload = [Obj("payload:" + kind)]
                return ex.make_enum(dest_ty, "Ready", [ex.make_enum(inner, "Ok", [ex.make_enum(FRAME, kind, payload)])])
            return ap
        if st.world.get("ctrl_calls", 0) == 0:
            for k in kinds:
                cases.append(Case(z3.BoolVal(True), mk(k)))

        def pending(ex, st, a):
            return ex.make_enum(dest_ty, "Pending")
        cases.append(Case(z3.BoolVal(True) if cases else None, pending))
        return cases
    return f


def part_roles(L, tier, log, samples):
    """What the role layers do with every frame ConnectionInner::poll_control can return."""
    kinds = ["Settings", "Goaway", "CancelPush", "MaxPushId"]
    viols = []
    queries = 0
    wit = {"server_frame_accepted": False, "client_max_push_id_refused": False}
    fns = set()
    unexpected = E.code_value(L.consts, "H3_FRAME_UNEXPECTED")
    # server
    con = [(r"^ConnectionInner::poll_control$", c_inner_poll_control(kinds)),
           (r"^ConnectionInner::process_goaway$", lambda ex, st, key, argv, dest_ty, raw: [Case(None, lambda ex, st, a: ex.make_enum(dest_ty, "Ok", [UNIT]))]),
           (r"ConnectionInner::handle_connection_error$", c_handle_connection_error)] + c08.base_contracts()
    ex = E.make_executor(L, [(r"^InternalConnectionError::new$", r"internal_error.*::new$")], con)
    st = State()
    E.call(ex, st, r"^server::connection::<impl[^>]*>::poll_next_control$", [Ref(Cell(Obj("server::connection::Connection<C, B>"))), Ref(Cell(Obj("Context")))])
    for s, ret in E.collect(ex, st):
        ev = s.world.get("event")
        if ev is None:
            continue
        code, nerr = conn_error_code(ex, s)
        queries += 1
        if nerr:
            viols.append({"key": "c04.server.legal_control_frame.rejected", "what": f"the server treats {ev} on the control stream as a connection error", "model": {"event": ev}})
        else:
            wit["server_frame_accepted"] = True
    fns |= ex.functions_used
    q1 = ex.queries
    # client
    con = [(r"^ConnectionInner::poll_control$", c_inner_poll_control(kinds)),
           (r"^ConnectionInner::process_goaway$", lambda ex, st, key, argv, dest_ty, raw: [Case(None, lambda ex, st, a: ex.make_enum(dest_ty, "Ok", [UNIT]))]),
           (r"^ConnectionInner::poll_accept_bi$", lambda ex, st, key, argv, dest_ty, raw: [Case(None, lambda ex, st, a: ex.make_enum(dest_ty, "Pending"))]),
           (r"ConnectionInner::handle_connection_error$", c_handle_connection_error)] + c08.base_contracts()
    ex = E.make_executor(L, [(r"^InternalConnectionError::new$", r"internal_error.*::new$")], con, max_unroll=3)
    st = State()
    E.call(ex, st, r"^client::connection::<impl[^>]*>::poll_close$", [Ref(Cell(Obj("client::connection::Connection<C, B>"))), Ref(Cell(Obj("Context")))])
    for s, ret in E.collect(ex, st):
        ev = s.world.get("event")
        if ev is None:
            continue
        code, nerr = conn_error_code(ex, s)
        queries += 1
        if ev == "frame:MaxPushId":
            if nerr != 1 or code is None or isinstance(code, str) or ex.feasible(s, code != unexpected):
                viols.append({"key": "c04.client.max_push_id.not_frame_unexpected", "what": "a client does not answer MAX_PUSH_ID with H3_FRAME_UNEXPECTED", "model": {"event": ev}})
            else:
                wit["client_max_push_id_refused"] = True
        elif ev in ("frame:Settings",) and nerr:
            viols.append({"key": "c04.client.legal_control_frame.rejected", "what": f"the client treats {ev} as a connection error", "model": {"event": ev}})
    fns |= ex.functions_used
    log(f"role layers: server poll_next_control and client poll_close over {len(kinds)} returned frame kinds, {queries} property queries")
    return viols, {"paths": 0, "queries": queries + q1 + ex.queries, "solver_s": ex.solver_s, "witness": wit, "functions": sorted(fns)}


def check(L, tier, log, samples):
    t0 = time.time()
    viols = []
    stats = {"queries": 0, "solver_s": 0.0, "witness": {}, "functions": set(), "states": 0}
    for name, part in (("inner", part_inner), ("roles", part_roles)):
        v, s = part(L, tier, log, samples)
        viols += v
        stats["queries"] += s["queries"]
        stats["solver_s"] += s["solver_s"]
        stats["states"] += s["paths"]
        for k, w in s["witness"].items():
            stats["witness"][f"{name}.{k}"] = w
        stats["functions"] |= set(s["functions"])
    stats["functions"] = sorted(stats["functions"])
    stats["solver_s"] = round(stats["solver_s"], 2)
    stats["transitions"] = stats["queries"]
    stats["wall_s"] = round(time.time() - t0, 1)
    return viols, stats


def replay_args(v):
    if v["key"] == "c04.frame_taken_then_pending.frame_lost":
        return ("c04_frame_lost", [])
    return None


# native scenarios that exercise, against the real build, the behaviours this spec decides: on a tree where the spec finds no
# violation every one of them must NOT reproduce (a scenario that reproduces there means the spec misses something)
SCENARIOS = [('c04_frame_lost', []), ('c04_frame_lost', ['no_backpressure'])]
