"""C12 — only well-formed messages reach the application; sent ones are well-formed (h3's own gate logic).

Analysed (MIR of proto/headers.rs): Field::parse (119 blocks), TryFrom<Vec<HeaderField>> for Header, Header::
{into_request_parts, into_response_parts}, HeaderIter::next. The `http` crate's validators are CONTRACTS that answer
Ok or Err nondeterministically (HeaderName::from_lowercase, HeaderValue::from_bytes, Method::from_bytes,
StatusCode::from_bytes, the FromStr parsers behind try_value, uri::Builder::build): that they reject exactly the illegal
bytes is NOT claimed (not encodable, see DESIGN.md); what is decided is that h3 routes every field through the right
validator and honours its verdict:
  P  Field::parse on a SYMBOLIC name (symbolic length, bytes materialised on demand): Ok only if the name is non-empty and
     either a regular name (first byte not ':') whose name AND value validators both accepted, or EXACTLY one of the six
     defined pseudo-header names whose value parser accepted; every other ':x' name and the empty name are refused; each of
     the six names is reachable.
  T  TryFrom over every script of up to 3 fields: Ok only if every field parsed Ok; a refused field ends the conversion.
  R  into_request_parts from arbitrary pseudo fields: Ok iff :method is present, an authority is available (:authority or
     Host), the two do not contradict when both are present, and the URI builder accepted; into_response_parts Ok iff
     :status is present.
  I  HeaderIter::next called until exhaustion from arbitrary pseudo fields and up to 2 regular fields: every present
     pseudo field is emitted exactly once, all of them before the first regular field.
"""
import time
import z3

from .. import engine as E
from .. import contracts as C
from ..sym import State, Cell, Obj, Ref, UNIT, Case, Inconclusive
from . import c08, c11m

PSEUDO = {"Scheme": b":scheme", "Authority": b":authority", "Path": b":path", "Method": b":method", "Status": b":status", "Protocol": b":protocol"}
FIELD = "proto::headers::Field"
HERR = "proto::headers::HeaderError"


def validator(kind):
    def f(ex, st, key, argv, dest_ty, raw):
        def ok(ex, st, a):
            st.effects.append(("validated", kind, True))
            return ex.make_enum(dest_ty, "Ok", [Obj("valid:" + kind)])

        def bad(ex, st, a):
            st.effects.append(("validated", kind, False))
            return ex.make_enum(dest_ty, "Err", [Obj("invalid:" + kind)])
        return [Case(None, ok), Case(z3.BoolVal(True), bad)]
    return f


def c_try_value(ex, st, key, argv, dest_ty, raw):
    ty = C.payload_type(dest_ty, "Ok") or "?"
    kind = "value:" + ty.split("::")[-1]

    def ok(ex, st, a):
        st.effects.append(("validated", kind, True))
        return ex.make_enum(dest_ty, "Ok", [Obj("valid:" + kind)])

    def bad(ex, st, a):
        st.effects.append(("validated", kind, False))
        return ex.make_enum(dest_ty, "Err", [Obj(HERR)])
    return [Case(None, ok), Case(z3.BoolVal(True), bad)]


def part_parse(L, log):
    def c_as_ref(which):
        def f(ex, st, key, argv, dest_ty, raw):
            return [Case(None, lambda ex, st, a: Ref(st.world[which]))]
        return f

    def c_is_empty(ex, st, key, argv, dest_ty, raw):
        return [Case(None, lambda ex, st, a: ex.field(C.deref(a[0]), "meta", 0, "usize").v == 0)]
    con = [
        (r"^N as AsRef::as_ref$", c_as_ref("name")), (r"^V as AsRef::as_ref$", c_as_ref("value")),
        (r"^core::slice::\[u8\]::is_empty$|^\[u8\]::is_empty$|slice::.*is_empty$", c_is_empty),
        (r"^HeaderName::from_lowercase$", validator("name")), (r"^HeaderValue::from_bytes$", validator("value")),
        (r"^Method::from_bytes$", validator("value:Method")), (r"^StatusCode::from_bytes$", validator("value:StatusCode")),
        (r"^try_value$", c_try_value),
        (r"^HeaderError::invalid_name$|^HeaderError::invalid_value$|^&str as Into::into$", C.c_opaque),
    ] + c08.base_contracts()
    # a name may be accepted because it EQUALS an already validated name (a reuse optimisation): sound only for a byte-exact
    # comparison. http's `HeaderName == str` ignores ASCII case: two relations, identical => equal ignoring case.
    identical = z3.Bool("name_identical_to_a_validated_name")
    eq_ic = z3.Bool("name_equal_to_a_validated_name_ignoring_case")

    def relation(term):
        def f(ex, st, key, argv, dest_ty, raw):
            def ap(ex, st, a):
                st.world.setdefault("compared_with_validated_name", []).append(key)
                return z3.Not(term) if key.endswith("::ne") else term
            return [Case(None, ap)]
        return f

    def c_from_utf8(ex, st, key, argv, dest_ty, raw):
        def ok(ex, st, a):
            return ex.make_enum(dest_ty, "Ok", [a[0]])      # the same bytes, seen as &str
        return [Case(None, ok), Case(z3.BoolVal(True), lambda ex, st, a: ex.make_enum(dest_ty, "Err", [Obj("core::str::Utf8Error")]))]
    con = [
        (r"HeaderName as PartialEq::(eq|ne)$", relation(eq_ic)),
        (r"^\[u8\] as PartialEq::(eq|ne)$|^&\[u8\] as PartialEq::(eq|ne)$|^str as PartialEq::(eq|ne)$|^&str as PartialEq::(eq|ne)$", relation(identical)),
        (r"^core::str::from_utf8$|^std::str::from_utf8$|^from_utf8$", c_from_utf8),
        (r"^HeaderName::as_str$|^str::as_bytes$|^HeaderName as AsRef::as_ref$", C.c_identity),
    ] + con
    ex = E.make_executor(L, [], con, max_unroll=2, max_paths=100000)
    st = State()
    st.pc.append(z3.Implies(identical, eq_ic))
    name_sl = Obj("[u8]")
    st.world["name"] = Cell(name_sl)
    st.world["value"] = Cell(Obj("[u8]"))
    fn = ex.find_fn(r"^headers::<impl[^>]*>::parse$")
    # further parameters a change may add (e.g. the previously validated name) are arbitrary values of their type
    args = [Obj("N"), Obj("V")] + [Obj(ty) for _, ty in fn.args[2:]]
    E.call(ex, st, r"^headers::<impl[^>]*>::parse$", args)
    outs = E.collect(ex, st)
    viols = []
    queries = 0
    reached = set()
    wit = {"regular_field_accepted": False, "unknown_pseudo_refused": False, "empty_name_refused": False}
    want_validator = {"Scheme": "value:Scheme", "Authority": "value:Authority", "Path": "value:PathAndQuery", "Method": "value:Method",
                      "Status": "value:StatusCode", "Protocol": "value:Protocol"}
    for s, ret in outs:
        if ret == ("panic",):
            viols.append({"key": "c12.parse.panic", "what": "Field::parse can panic", "model": {"effects": [e[:3] for e in s.effects if e[0] == "panic"]}})
            continue
        nm = s.world["name"].v
        ln = ex.field(nm, "meta", 0, "usize").v
        b0 = ex.field(nm, "elem", 0, "u8").v
        vals = [(e[1], e[2]) for e in s.effects if e[0] == "validated"]
        ok = z3.is_bv_value(ret.discr) and ret.discr.as_long() == 0
        if not ok:
            if ex.feasible(s, ln == 0):
                wit["empty_name_refused"] = True
            if ex.feasible(s, z3.And(ln != 0, b0 == 58)) and not vals:
                wit["unknown_pseudo_refused"] = True
            continue
        fld = E.get_field(ret, ("Ok", 0))
        variant = ex.enums.name_of(FIELD, fld.discr.as_long()) if z3.is_bv_value(fld.discr) else None
        queries += 1
        if ex.feasible(s, ln == 0):
            viols.append({"key": "c12.parse.empty_name_accepted", "what": "a field with an empty name is accepted", "model": {}})
        if variant == "Header":
            wit["regular_field_accepted"] = True
            queries += 1
            if ex.feasible(s, b0 == 58):
                viols.append({"key": "c12.parse.pseudo_name_accepted_as_regular_field", "what": "a name starting with ':' is accepted as a regular field", "model": {}})
            reused = s.world.get("compared_with_validated_name")
            if ("name", True) not in vals and reused:
                queries += 1
                if ex.feasible(s, z3.Not(identical)):
                    viols.append({"key": "c12.parse.name_accepted_by_inexact_comparison",
                                  "what": "a regular field name is accepted without validation because it compares equal to an already validated name, but the "
                                          "comparison is not byte-exact (http's HeaderName == str ignores ASCII case): an upper-case spelling passes",
                                  "model": {"comparison": reused}})
                if ("value", True) not in vals:
                    viols.append({"key": "c12.parse.regular_field_not_validated", "what": "a regular field is accepted without its value having passed the validator", "model": {"validators": vals}})
            elif ("name", True) not in vals or ("value", True) not in vals or any(not okv for _, okv in vals):
                viols.append({"key": "c12.parse.regular_field_not_validated",
                              "what": "a regular field is accepted without both its name and its value having passed the http validators", "model": {"validators": vals}})
        elif variant in PSEUDO:
            reached.add(variant)
            queries += 1
            m = ex.model(s, z3.Not(c11m.equals(ex, nm, PSEUDO[variant])))
            if m is not None:
                nl = m.eval(ln, True).as_long()
                nb = bytes(m.eval(ex.field(nm, "elem", i, "u8").v, True).as_long() for i in range(min(nl, 32)))
                viols.append({"key": "c12.parse.undefined_pseudo_header_accepted",
                              "what": f"a name other than {PSEUDO[variant].decode()} is accepted as that pseudo-header field", "model": {"name": nb.decode('latin1'), "as": variant}})
            if (want_validator[variant], True) not in vals or any(not okv for _, okv in vals):
                viols.append({"key": "c12.parse.pseudo_value_not_validated", "what": f"{variant}: accepted without its value parser having accepted the value",
                              "model": {"validators": vals}})
        else:
            viols.append({"key": "c12.parse.unknown_field_kind", "what": "unexpected Field variant", "model": {"variant": variant}})
    missing = set(PSEUDO) - reached
    if missing:
        # 'only if' property: a gate that accepts fewer pseudo-header fields is stricter, not wrong - said in the log
        log(f"note: pseudo-header fields never accepted on any path: {sorted(missing)}")
    log(f"Field::parse: {len(outs)} paths, pseudo names reached {sorted(reached)}")
    return ex, viols, len(outs), queries, wit


def part_request(L, log):
    def opt(ex, st, name, ty):
        o = Obj(f"std::option::Option<{ty}>")
        d = ex.discr_of(st, o)
        return o, d == 1

    def c_get_host(ex, st, key, argv, dest_ty, raw):
        def some(ex, st, a):
            st.world["host"] = True
            return ex.make_enum(dest_ty, "Some", [Ref(Cell(Obj("http::HeaderValue")))])

        def none(ex, st, a):
            st.world["host"] = False
            return ex.make_enum(dest_ty, "None")
        return [Case(None, some), Case(z3.BoolVal(True), none)]

    # :authority and Host as two abstract strings with two relations between them: byte-identical, and equal ignoring
    # ASCII case (what http's Authority == Authority means); identical implies equal-ignoring-case
    identical = z3.Bool("authority_and_host_identical")
    eq_ic = z3.Bool("authority_and_host_equal_ignoring_case")

    def relation(term, negate):
        def f(ex, st, key, argv, dest_ty, raw):
            def ap(ex, st, a):
                st.world["differs"] = z3.Not(identical)
                st.world["compared"] = key
                return z3.Not(term) if negate else term
            return [Case(None, ap)]
        return f

    def c_host_to_authority(ex, st, key, argv, dest_ty, raw):
        def ok(ex, st, a):
            return ex.make_enum(dest_ty, "Ok", [Obj("http::uri::Authority")])

        def bad(ex, st, a):
            st.world["host_unparseable"] = True
            return ex.make_enum(dest_ty, "Err", [Obj("http::uri::InvalidUri")])
        return [Case(None, ok), Case(z3.BoolVal(True), bad)]

    def c_build(ex, st, key, argv, dest_ty, raw):
        def ok(ex, st, a):
            st.world["build"] = True
            return ex.make_enum(dest_ty, "Ok", [Obj("http::Uri")])

        def bad(ex, st, a):
            st.world["build"] = False
            return ex.make_enum(dest_ty, "Err", [Obj("http::Error")])
        return [Case(None, ok), Case(z3.BoolVal(True), bad)]
    con = [
        (r"^HeaderMap::get$", c_get_host), (r"^http::uri::Builder::build$", c_build),
        (r"^&?str as PartialEq::ne$|^HeaderValue as PartialEq::ne$", relation(identical, True)),
        (r"^&?str as PartialEq::eq$|^HeaderValue as PartialEq::eq$", relation(identical, False)),
        (r"^Authority as PartialEq::ne$", relation(eq_ic, True)), (r"^Authority as PartialEq::eq$", relation(eq_ic, False)),
        (r"^Authority as TryFrom::try_from$|^Authority::try_from$|^Authority::from_maybe_shared$|^Authority as FromStr::from_str$", c_host_to_authority),
        (r"as Into::into$|^HeaderValue::as_bytes$|^HeaderValue::to_str$", C.c_opaque),
        (r"^Uri::builder$|^http::uri::Builder::(authority|path_and_query|scheme)$|as_str$|as_bytes$", C.c_opaque),
        (r"^HeaderError::InvalidRequest$", C.c_opaque),
    ] + c08.base_contracts()
    ex = E.make_executor(L, [], con)
    fn = ex.find_fn(r"^headers::<impl[^>]*>::into_request_parts$")
    st = State()
    st.pc.append(z3.Implies(identical, eq_ic))
    hdr = Obj("proto::headers::Header")
    pseudo = Obj("proto::headers::Pseudo")
    hdr.fields[(None, 0)] = Cell(pseudo)
    st.world["hdr"] = Cell(hdr)
    E.call(ex, st, r"^headers::<impl[^>]*>::into_request_parts$", [hdr])
    outs = E.collect(ex, st)
    viols = []
    wit = {"request_accepted": False, "missing_method_refused": False, "contradiction_refused": False}
    # locate the pseudo fields by their types in the MIR projections
    import re
    text = "\n".join(s_ for b in fn.blocks.values() for s_ in b.stmts + [b.term or ""])
    def idx(tyfrag):
        m = re.search(r"\(\(_1\.0: proto::headers::Pseudo\)\.(\d+): std::option::Option<" + tyfrag, text)
        if not m:
            raise Inconclusive("into_request_parts: cannot locate pseudo field " + tyfrag)
        return int(m.group(1))
    i_method, i_auth = idx("http::Method"), idx("http::uri::Authority")
    for s, ret in outs:
        ok = z3.is_bv_value(ret.discr) and ret.discr.as_long() == 0
        ps = s.world["hdr"].v.fields[(None, 0)].v
        m_some = ex.discr_of(s, ex.field(ps, None, i_method, "std::option::Option<http::Method>").v) == 1
        a_some = ex.discr_of(s, ex.field(ps, None, i_auth, "std::option::Option<http::uri::Authority>").v) == 1
        host = s.world.get("host")
        differs = s.world.get("differs")
        build = s.world.get("build")
        if ok:
            wit["request_accepted"] = True
            if ex.feasible(s, z3.Not(m_some)):
                viols.append({"key": "c12.request.accepted_without_method", "what": "a request without :method is accepted", "model": {}})
            if host is False and ex.feasible(s, z3.Not(a_some)):
                viols.append({"key": "c12.request.accepted_without_authority", "what": "a request with neither :authority nor Host is accepted", "model": {}})
            if host and ex.feasible(s, z3.And(a_some, z3.Not(identical))):
                m = ex.model(s, z3.And(a_some, z3.Not(identical)))
                viols.append({"key": "c12.request.contradicting_authority_accepted", "what": "a request whose :authority and Host are not identical is accepted",
                              "model": {"equal_ignoring_case": z3.is_true(m.eval(eq_ic, True)), "compared_with": s.world.get("compared")}})
            if build is not True:
                viols.append({"key": "c12.request.accepted_without_uri", "what": "a request is accepted although the URI builder refused", "model": {}})
        else:
            if ex.feasible(s, z3.Not(m_some)):
                wit["missing_method_refused"] = True
            if differs is not None and ex.feasible(s, differs):
                wit["contradiction_refused"] = True
            legit = z3.And(m_some, z3.Or(a_some, z3.BoolVal(bool(host))), z3.BoolVal(build is True), z3.BoolVal(not s.world.get("host_unparseable")),
                           z3.Not(z3.And(a_some, z3.BoolVal(bool(host)), z3.Not(identical))))
            if ex.feasible(s, legit):
                s.world["refused_although_legit"] = True      # a stricter gate: recorded, not a violation of an 'only if' property
    # responses
    ex2 = E.make_executor(L, [], c08.base_contracts())
    st = State()
    hdr = Obj("proto::headers::Header")
    st.world["hdr"] = Cell(hdr)
    E.call(ex2, st, r"^headers::<impl[^>]*>::into_response_parts$", [hdr])
    outs2 = E.collect(ex2, st)
    oks = [s for s, r in outs2 if r.discr.as_long() == 0]
    errs = [s for s, r in outs2 if r.discr.as_long() == 1]
    if len(oks) != 1 or len(errs) != 1:
        viols.append({"key": "c12.response.status_gate_missing", "what": "into_response_parts does not have exactly one accepting and one refusing path on :status", "model": {}})
    log(f"into_request_parts: {len(outs)} paths; into_response_parts: {len(outs2)} paths")
    return ex, viols, len(outs) + len(outs2), ex.queries + ex2.queries, wit


def part_iter(L, log):
    """HeaderIter::next until exhaustion."""
    def c_fields_next(ex, st, key, argv, dest_ty, raw):
        n = st.world.setdefault("regular", 0)

        def none(ex, st, a):
            st.world["fields_done"] = True
            return ex.make_enum(dest_ty, "None")

        def some(ex, st, a):
            st.world["regular"] += 1
            tup = Obj("(Option<HeaderName>, HeaderValue)")
            tup.fields[(None, 0)] = Cell(ex.make_enum("Option<HeaderName>", "Some", [Obj("http::HeaderName")]))
            tup.fields[(None, 1)] = Cell(Obj("http::HeaderValue"))
            return ex.make_enum(dest_ty, "Some", [tup])
        cases = [Case(None, none)]
        if n < 2 and not st.world.get("fields_done"):
            cases.append(Case(z3.BoolVal(True), some))
        return cases

    def c_into_field(ex, st, key, argv, dest_ty, raw):
        def ap(ex, st, a):
            t = a[0]
            nm = E.get_field(t, (None, 0))
            label = nm.attrs.get("str") if isinstance(nm, Obj) and "str" in nm.attrs else "regular"
            st.effects.append(("emit", label))
            return Obj("qpack::field::HeaderField")
        return [Case(None, ap)]
    con = [
        (r"IntoIter as Iterator::next$", c_fields_next),
        (r"IntoIter as IntoIterator::into_iter$|IntoIter as Iterator::by_ref$", C.c_identity),
        (r"as Into::into$", c_into_field),
        (r"as_str$|as_bytes$", C.c_opaque),
    ] + c08.base_contracts()
    ex = E.make_executor(L, [], con, max_unroll=4)
    st = State()
    it = Obj("proto::headers::HeaderIter")
    pseudo = Obj("proto::headers::Pseudo")
    it.fields[(None, 0)] = Cell(ex.make_enum("std::option::Option<proto::headers::Pseudo>", "Some", [pseudo]))
    it.fields[(None, 1)] = Cell(ex.make_enum("std::option::Option<http::HeaderName>", "None"))
    st.world["it"] = Cell(it)
    done = []

    def go(st, depth):
        if depth > 9:
            raise Inconclusive("HeaderIter::next does not terminate within 9 calls")
        E.call(ex, st, r"^headers::<impl[^>]*>::next$", [Ref(st.world["it"])])
        for s, ret in E.collect(ex, st):
            if z3.is_bv_value(ret.discr) and ret.discr.as_long() == 0:
                done.append(s)
            else:
                go(s, depth + 1)
    go(st, 0)
    viols = []
    wit = {"pseudo_then_regular": False}
    for s in done:
        emits = [e[1] for e in s.effects if e[0] == "emit"]
        names = [e.strip('"') for e in emits]
        seen_regular = False
        seen = set()
        for n in names:
            if n == "regular" or not n.startswith(":"):
                seen_regular = True
                continue
            if seen_regular:
                viols.append({"key": "c12.send.pseudo_header_after_regular_field", "what": "a pseudo-header field is emitted after a regular field", "model": {"order": names}})
            if n in seen:
                viols.append({"key": "c12.send.pseudo_header_emitted_twice", "what": f"{n} is emitted twice", "model": {"order": names}})
            seen.add(n)
        if seen and seen_regular:
            wit["pseudo_then_regular"] = True
        # every present pseudo field was emitted: after exhaustion all six options are None (take()) or the pseudo block is gone
    log(f"HeaderIter::next: {len(done)} exhausted iterations")
    return ex, viols, len(done), ex.queries, wit


MSG = 0x10e  # H3_MESSAGE_ERROR, cross-checked against the dump's named const below


def nondet_result(tag, ok_payload=None):
    def f(ex, st, key, argv, dest_ty, raw):
        def ok(ex, st, a):
            st.effects.append((tag, True))
            return ex.make_enum(dest_ty, "Ok", [ok_payload(ex) if ok_payload else Obj(C.payload_type(dest_ty, "Ok") or "ok")])

        def bad(ex, st, a):
            st.effects.append((tag, False))
            return ex.make_enum(dest_ty, "Err", [Obj(C.payload_type(dest_ty, "Err") or "err")])
        return [Case(None, ok), Case(z3.BoolVal(True), bad)]
    return f


def code_of(ex, v):
    v = C.deref(v)
    if isinstance(v, Obj):
        c = E.get_field(v, (None, 0))
        return c if c is not None else v
    return v


def signal(kind):
    def f(ex, st, key, argv, dest_ty, raw):
        def ap(ex, st, a):
            st.effects.append((kind, code_of(ex, a[1])))
            return UNIT
        return [Case(None, ap)]
    return f


def stream_error_code(ex, s, err):
    """code field of StreamError::StreamError{code, reason}; None for another variant."""
    err = C.deref(err)
    if not z3.is_bv_value(err.discr):
        return None
    if ex.enums.name_of("error::error::StreamError", err.discr.as_long()) != "StreamError":
        return None
    c = E.get_field(err, ("StreamError", 0))
    return code_of(ex, c)


def judge_refusal(ex, s, ret_err, where, viols, signals_required):
    code = stream_error_code(ex, s, ret_err)
    if code is None or ex.feasible(s, code != z3.BitVecVal(MSG, 64)):
        viols.append({"key": f"c12.refusal.{where}.error_is_not_message_error",
                      "what": f"{where}: a malformed message is refused with an error other than StreamError{{code: H3_MESSAGE_ERROR}}", "model": {}})
    sig = [e for e in s.effects if e[0] in ("stop_sending", "stop_stream")]
    kinds = {e[0] for e in sig}
    if not kinds:
        # refused 'on that stream': at least one of STOP_SENDING / RESET_STREAM must tell the peer (which of the two is the
        # implementation's choice)
        viols.append({"key": f"c12.refusal.{where}.stream_not_signalled",
                      "what": f"{where}: a malformed message is refused without any signal (STOP_SENDING / RESET_STREAM) on the stream", "model": {"signals": sorted(kinds)}})
    for e in sig:
        if ex.feasible(s, e[1] != z3.BitVecVal(MSG, 64)):
            m = ex.model(s, e[1] != z3.BitVecVal(MSG, 64))
            viols.append({"key": f"c12.refusal.{where}.{e[0]}_carries_other_code",
                          "what": f"{where}: the {e[0]} signalled for a malformed message carries a code other than H3_MESSAGE_ERROR",
                          "model": {"code": hex(m.eval(e[1], True).as_long())}})


def part_refusal(L, log):
    if L.consts.get("H3_MESSAGE_ERROR") not in (None, MSG):
        raise Inconclusive("H3_MESSAGE_ERROR constant changed")
    viols = []
    wit = {}
    nstates = 0
    queries = 0
    fns = set()
    common = [
        (r"^<Header as TryFrom<Vec<HeaderField>>>::try_from$|^Header as TryFrom::try_from$", nondet_result("try_from")),
        (r"^Header::into_request_parts$", nondet_result("parts")),
        (r"^Header::into_response_parts$", nondet_result("parts")),
        (r"^Header::into_fields$", C.c_opaque),
        (r"^decode_stateless$", nondet_result("qpack")),
        (r"RequestStream::stop_stream$", signal("stop_stream")), (r"(RequestStream|FrameStream)::stop_sending$", signal("stop_sending")),
        (r"^format$|^must_use$|^Arguments::new$|Argument::new_display$|Argument::new_debug$|ToString::to_string$", C.c_opaque),
        (r"^http::Request::new$|^Response::new$|^http::Response::new$", C.c_opaque),
        (r"(method|uri|headers|version|status|extensions)_mut$", lambda ex, st, key, argv, dest_ty, raw: [Case(None, lambda ex, st, a: Ref(Cell(Obj("slot"))))]),
        (r"^Extensions::insert$", C.c_opaque),
        (r"handle_connection_error_on_stream$|handle_frame_stream_error_on_request_stream$", lambda ex, st, key, argv, dest_ty, raw:
            [Case(None, lambda ex, st, a: (st.effects.append(("connection_error",)), ex.make_enum("error::error::StreamError", "ConnectionError", [Obj("ConnectionErrorIncoming")]))[1])]),
        (r"^InternalConnectionError::new$", C.c_opaque),
    ] + c08.base_contracts()

    # ---- server: ResolvedRequest::resolve, decoded = Ok(_) (no await on that path: the whole decision is in state 0)
    ex = E.make_executor(L, [], common)
    st = State()
    rr = Obj("server::request::ResolvedRequest<C, B>")
    rr.fields[(None, 1)] = Cell(ex.make_enum("std::result::Result<qpack::decoder::Decoded, u64>", "Ok", [Obj("qpack::decoder::Decoded")]))
    co = Obj("{async fn body of server::request::ResolvedRequest<C, B>::resolve()}", z3.BitVecVal(0, 32))
    co.fields[(None, 0)] = Cell(rr)
    pin = Obj("Pin<&mut coroutine>")
    pin.fields[(None, 0)] = Cell(Ref(Cell(co)))
    E.call(ex, st, r"^server::request::<impl[^>]*>::resolve::\{closure#0\}$", [pin, Ref(Cell(Obj("Context")))])
    outs = E.collect(ex, st)
    wit["server.accepted"] = wit["server.refused_by_try_from"] = wit["server.refused_by_request_parts"] = False
    for s, ret in outs:
        nstates += 1
        res = E.get_field(ret, ("Ready", 0))
        if res is None or not z3.is_bv_value(ret.discr) or ret.discr.as_long() != 0:
            raise Inconclusive("ResolvedRequest::resolve suspends on the decoded path: the continuation behind that await is not analysed")
        verdicts = {e[0]: e[1] for e in s.effects if e[0] in ("try_from", "parts")}
        well = verdicts.get("try_from") is True and verdicts.get("parts") is True
        ok = res.discr.as_long() == 0
        if ok and not well:
            viols.append({"key": "c12.refusal.server.malformed_request_handed_over", "what": "resolve() returns a request although Header::try_from or into_request_parts refused it",
                          "model": {"verdicts": verdicts}})
        if ok:
            wit["server.accepted"] = True
            if any(e[0] in ("stop_sending", "stop_stream") for e in s.effects):
                viols.append({"key": "c12.refusal.server.accepted_request_stream_stopped", "what": "an accepted request has its stream stopped", "model": {}})
        if not ok:
            if well:
                continue        # refusing more than the gates demand is stricter, not a violation of this property
            wit["server.refused_by_try_from" if verdicts.get("try_from") is False else "server.refused_by_request_parts"] = True
            judge_refusal(ex, s, E.get_field(res, ("Err", 0)), "server", viols, ("stop_sending", "stop_stream"))
    fns |= ex.functions_used
    queries += ex.queries

    # ---- client: recv_response resumed after its only await (state 3) with the frame poll answering anything
    def c_pollfn_poll(ex, st, key, argv, dest_ty, raw):
        def ready(ex, st, a):
            return ex.make_enum(dest_ty, "Ready", [Obj(C.payload_type(dest_ty, "Ready") or "std::result::Result<std::option::Option<proto::frame::Frame<proto::frame::PayloadLen>>, frame::FrameStreamError>")])
        return [Case(None, ready)]
    ex = E.make_executor(L, [], [(r"PollFn as .*Future::poll$", c_pollfn_poll)] + common)
    st = State()
    co = Obj("{async fn body of client::stream::RequestStream<S, B>::recv_response()}", z3.BitVecVal(3, 32))
    pin = Obj("Pin<&mut coroutine>")
    pin.fields[(None, 0)] = Cell(Ref(Cell(co)))
    E.call(ex, st, r"^client::stream::<impl[^>]*>::recv_response::\{closure#0\}$", [pin, Ref(Cell(Obj("Context")))])
    outs = E.collect(ex, st)
    wit["client.accepted"] = wit["client.refused_by_try_from"] = wit["client.refused_by_response_parts"] = False
    for s, ret in outs:
        nstates += 1
        if not z3.is_bv_value(ret.discr) or ret.discr.as_long() != 0:
            continue
        res = E.get_field(ret, ("Ready", 0))
        verdicts = {e[0]: e[1] for e in s.effects if e[0] in ("try_from", "parts", "qpack")}
        ok = res.discr.as_long() == 0
        well = verdicts.get("qpack") is True and verdicts.get("try_from") is True and verdicts.get("parts") is True
        if ok and not well:
            viols.append({"key": "c12.refusal.client.malformed_response_handed_over", "what": "recv_response returns a response although a gate refused it", "model": {"verdicts": verdicts}})
        if ok:
            wit["client.accepted"] = True
        if not ok and verdicts.get("qpack") is True and ("try_from" in verdicts):
            if well:
                continue
            wit["client.refused_by_try_from" if verdicts.get("try_from") is False else "client.refused_by_response_parts"] = True
            judge_refusal(ex, s, E.get_field(res, ("Err", 0)), "client", viols, ("stop_sending",))
    fns |= ex.functions_used
    queries += ex.queries

    # ---- trailers (both roles): connection::RequestStream::poll_recv_trailers
    def c_poll_next(ex, st, key, argv, dest_ty, raw):
        return [Case(None, lambda ex, st, a: Obj(dest_ty))]
    ex = E.make_executor(L, [], [(r"^FrameStream::poll_next$", c_poll_next), (r"^FrameStream::is_eos$", C.c_opaque)] + common, max_unroll=2)
    st = State()
    rs = Obj("connection::RequestStream<S, B>")
    st.world["rs"] = Cell(rs)
    E.call(ex, st, r"^connection::<impl[^>]*>::poll_recv_trailers$", [Ref(st.world["rs"]), Ref(Cell(Obj("Context")))])
    outs = E.collect(ex, st)
    wit["trailers.accepted"] = wit["trailers.refused"] = False
    for s, ret in outs:
        nstates += 1
        if ret == ("panic",) or not z3.is_bv_value(ret.discr) or ret.discr.as_long() != 0:
            continue
        res = E.get_field(ret, ("Ready", 0))
        verdicts = {e[0]: e[1] for e in s.effects if e[0] in ("try_from", "qpack")}
        ok = res.discr.as_long() == 0
        if "try_from" not in verdicts:
            continue
        if ok and verdicts["try_from"] is not True:
            viols.append({"key": "c12.refusal.trailers.malformed_trailers_handed_over", "what": "poll_recv_trailers returns trailers Header::try_from refused", "model": {}})
        elif ok:
            wit["trailers.accepted"] = True
        elif verdicts["try_from"] is True:
            pass
        else:
            wit["trailers.refused"] = True
            judge_refusal(ex, s, E.get_field(res, ("Err", 0)), "trailers", viols, ("stop_sending",))
    fns |= ex.functions_used
    queries += ex.queries
    log(f"refusal: {nstates} paths over resolve / recv_response / poll_recv_trailers")
    ex.functions_used = fns
    return ex, viols, nstates, queries, wit


def replay_args(v):
    k = v["key"]
    if k.startswith("c12.refusal."):
        return ("c12_refusal", [k.split(".")[2]])
    if k.startswith("c12.parse."):
        name = v.get("model", {}).get("name")
        if k == "c12.parse.empty_name_accepted":
            name = ""
        elif k == "c12.parse.pseudo_name_accepted_as_regular_field":
            name = ":x"
        elif k in ("c12.parse.regular_field_not_validated",):
            name = "Ab"
        elif k == "c12.parse.name_accepted_by_inexact_comparison":
            return ("c12_field_sequence", ["ab=x,Ab=y"])
        if name is None:
            return None
        return ("c12_field_gate", [name.encode("latin1").hex(), "78"])
    if k.startswith("c12.request."):
        flags = {"c12.request.accepted_without_method": "a", "c12.request.accepted_without_authority": "m",
                 "c12.request.contradicting_authority_accepted": "maH", "c12.request.well_formed_request_refused": "ma"}.get(k)
        if k == "c12.request.contradicting_authority_accepted" and v.get("model", {}).get("equal_ignoring_case"):
            flags = "maC"
        return ("c12_request_gate", [flags]) if flags else None
    if k.startswith("c12.send."):
        return ("c12_send_order", [])
    return None


def check(L, tier, log, samples):
    t0 = time.time()
    viols, fns, queries, states, wit = [], set(), 0, 0, {}
    for name, part in (("P", part_parse), ("R", part_request), ("I", part_iter), ("E", part_refusal)):
        ex, v, n, q, w = part(L, log)
        viols += v
        fns |= ex.functions_used
        queries += q + ex.queries
        states += n
        wit.update({f"{name}.{k}": val for k, val in w.items()})
    samples.append({"parts": ["Field::parse", "into_request_parts/into_response_parts", "HeaderIter::next"], "paths": states})
    stats = {"states": states, "transitions": queries, "queries": queries, "solver_s": 0.0, "witness": wit,
             "functions": sorted(fns), "wall_s": round(time.time() - t0, 1)}
    return viols, stats


# native scenarios that exercise, against the real build, the behaviours this spec decides: on a tree where the spec finds no
# violation every one of them must NOT reproduce (a scenario that reproduces there means the spec misses something)
SCENARIOS = [('c12_refusal', ['client']), ('c12_refusal', ['server']), ('c12_refusal', ['trailers']), ('c12_field_gate', ['41', '78']), ('c12_field_gate', ['3a78', '78']), ('c12_field_gate', ['61', '0a']), ('c12_request_gate', ['']), ('c12_request_gate', ['m']), ('c12_request_gate', ['ma']), ('c12_request_gate', ['mh']), ('c12_request_gate', ['maH']), ('c12_request_gate', ['mah']), ('c12_request_gate', ['maC']), ('c12_send_order', []), ('c12_field_sequence', ['ab=x,Ab=y']), ('c12_field_sequence', ['ab=x,ab=y'])]
