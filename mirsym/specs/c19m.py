"""C19/C04/C06 (unidirectional stream header) — the type and the push/session id of an incoming unidirectional stream are
read correctly however the header bytes are chunked.

Analysed (MIR): stream::AcceptRecvStream::poll_type, poll_next_varint and its error closure, VarInt::encoded_size. The stream
is a string of up to MAXB symbolic bytes; the transport's answers to BufRecvStream::poll_read are explored as a fork at every
call: Pending, a chunk of 1..3 bytes, FIN, RESET, connection error (at most EVENTS answers, at most POLLS polls of poll_type;
after Pending the next poll follows). Contracts: the buffer (remaining / chunk() / advance through VarInt::decode) is a
window [consumed, delivered) over the symbolic bytes kept as a list of transport chunks - chunk() is the rest of the first
chunk only, as in BufList; VarInt::decode on the window = RFC 9000 16 (length from the two top
bits of the first byte; Err(UnexpectedEnd) iff the window is shorter) — the real VarInt::decode is decided against the same
rule by the Kani harnesses of C16. Decided on every path, for all byte values:
  * poll_type never reports an internal error (a varint can be incomplete, never malformed) and never panics;
  * Ready(Ok): the type is the varint at offset 0, the id (PUSH / WEBTRANSPORT_UNI streams) is the varint that follows, and
    exactly those bytes were consumed - the payload behind the header stays in the buffer untouched;
  * Err(EndOfStream) only when the transport ended or reset the stream before the header was complete;
  * Pending only while the header is incomplete in the buffer (a header that arrived whole, alone or with payload behind
    it in the same chunk, is surfaced by that very poll).
"""
import re
import time
import z3

from .. import engine as E
from .. import contracts as C
from ..sym import State, Cell, Obj, Ref, UNIT, Case, Inconclusive
from . import c08

MAXB = 9
PTE = "stream::PollTypeError"


def bv(v, n=64):
    return z3.BitVecVal(v, n)


def need_of(b):
    """encoded size of a varint whose first byte is b (z3 BitVec 8) as BitVec 64"""
    return z3.ZeroExt(56, z3.BitVecVal(1, 8) << z3.LShR(b, 6))


def varint_value(bytes_, off, n):
    v = z3.ZeroExt(56, bytes_[off] & 0x3f)
    for i in range(1, n):
        v = (v << 8) | z3.ZeroExt(56, bytes_[off + i])
    return v


def c_poll_read(events, maxchunk):
    def f(ex, st, key, argv, dest_ty, raw):
        w = st.world
        cases = []
        if len(w["script"]) >= events or w["ended"]:
            # script exhausted: the transport has nothing more to say in this exploration
            def pend(ex, st, a):
                st.world["script"].append("P")
                st.world["exhausted"] = True
                return ex.make_enum(dest_ty, "Pending")
            return [Case(None, pend)]

        def mk(kind, k=0):
            def ap(ex, st, a):
                w = st.world
                w["script"].append(kind + (str(k) if k else ""))
                if kind == "P":
                    return ex.make_enum(dest_ty, "Pending")
                inner_ty = C.payload_type(dest_ty, "Ready") or "Result<bool, StreamErrorIncoming>"
                if kind == "D":
                    w["delivered"] += k
                    w["chunks"].append(k)      # BufList keeps one entry per transport chunk
                    return ex.make_enum(dest_ty, "Ready", [ex.make_enum(inner_ty, "Ok", [z3.BoolVal(False)])])
                w["ended"] = True
                if kind == "F":
                    return ex.make_enum(dest_ty, "Ready", [ex.make_enum(inner_ty, "Ok", [z3.BoolVal(True)])])
                err_ty = "quic::StreamErrorIncoming"
                if kind == "R":
                    e = ex.make_enum(err_ty, "StreamTerminated", [z3.BitVec(E.fresh("reset_code"), 64)])
                else:
                    e = ex.make_enum(err_ty, "ConnectionErrorIncoming", [Obj("quic::ConnectionErrorIncoming")])
                return ex.make_enum(dest_ty, "Ready", [ex.make_enum(inner_ty, "Err", [e])])
            return ap
        kinds = [("P", 0), ("F", 0), ("R", 0), ("C", 0)] + [("D", k) for k in range(1, maxchunk + 1) if w["delivered"] + k <= MAXB]
        for i, (kind, k) in enumerate(kinds):
            cases.append(Case(None if i == 0 else z3.BoolVal(True), mk(kind, k)))
        return cases
    return f


def c_remaining(ex, st, key, argv, dest_ty, raw):
    return [Case(None, lambda ex, st, a: bv(st.world["delivered"] - st.world["consumed"]))]


def c_chunk(ex, st, key, argv, dest_ty, raw):
    def ap(ex, st, a):
        w = st.world
        sl = Obj("[u8]")
        # Buf::chunk() of a BufList is the rest of its FIRST entry only, not everything that is buffered
        n = w["chunks"][0] if w["chunks"] else 0
        ex.field(sl, "meta", 0, "usize").v = bv(n)
        for i in range(min(n, 2)):
            ex.field(sl, "elem", i, "u8").v = w["bytes"][w["consumed"] + i]
        return Ref(Cell(sl))
    return [Case(None, ap)]


def c_varint_decode(ex, st, key, argv, dest_ty, raw):
    w = st.world
    n = w["delivered"] - w["consumed"]
    if n == 0:
        return [Case(None, lambda ex, st, a: ex.make_enum(dest_ty, "Err", [Obj("proto::coding::UnexpectedEnd")]))]
    first = w["bytes"][w["consumed"]]
    cases = []
    for lg in range(4):
        size = 1 << lg
        cond = z3.LShR(first, 6) == lg

        def mk(size):
            def ap(ex, st, a):
                w = st.world
                avail = w["delivered"] - w["consumed"]
                if avail < size:
                    w["decode_short"] = True
                    return ex.make_enum(dest_ty, "Err", [Obj("proto::coding::UnexpectedEnd")])
                v = varint_value(w["bytes"], w["consumed"], size)
                w["decoded"].append((w["consumed"], size))
                w["consumed"] += size
                left = size
                while left:
                    take = min(left, w["chunks"][0])
                    w["chunks"][0] -= take
                    left -= take
                    if w["chunks"][0] == 0:
                        w["chunks"].pop(0)
                o = Obj("proto::varint::VarInt")
                ex.field(o, None, 0, "u64").v = v
                return ex.make_enum(dest_ty, "Ok", [o])
            return ap
        cases.append(Case(cond, mk(size)))
    return cases


def c_pow2(ex, st, key, argv, dest_ty, raw):
    def ap(ex, st, a):
        base, e = a[0], a[1]
        if not (z3.is_bv_value(z3.simplify(base)) and z3.simplify(base).as_long() == 2):
            raise Inconclusive("usize::pow with a base other than 2")
        return z3.BitVecVal(1, 64) << z3.ZeroExt(32, e) if e.size() == 32 else z3.BitVecVal(1, 64) << e
    return [Case(None, ap)]


def c_from_value(ex, st, key, argv, dest_ty, raw):
    def ap(ex, st, a):
        o = Obj("proto::stream::StreamType")
        ex.field(o, None, 0, "u64").v = a[0]
        return o
    return [Case(None, ap)]


def check(L, tier, log, samples):
    t0 = time.time()
    events = 3 if tier == "quick" else 4
    polls = 3 if tier == "quick" else 4
    maxchunk = 3
    con = [
        (r"^BufRecvStream::poll_read$", c_poll_read(events, maxchunk)),
        (r"^BufRecvStream::buf_mut$", C.c_opaque),
        (r"BufList<.*> as Buf::remaining$|BufList as Buf::remaining$", c_remaining),
        (r"BufList<.*> as Buf::chunk$|BufList as Buf::chunk$", c_chunk),
        (r"^VarInt::decode$", c_varint_decode),
        (r"usize::pow$|impl usize>::pow$", c_pow2),
        (r"^StreamType::from_value$", c_from_value),
        (r"ToString::to_string$", C.c_opaque),
    ] + c08.base_contracts()
    inline = [(r"^VarInt::encoded_size$", r"varint::<impl[^>]*>::encoded_size$"),
              (r"^AcceptRecvStream::poll_next_varint$", r"stream::<impl[^>]*>::poll_next_varint$"),
              (r"^InternalConnectionError::new$", r"internal_error.*::new$")]
    ex = E.make_executor(L, inline, con, max_unroll=events + 3, max_paths=200000)
    st = State()
    acc = Obj("stream::AcceptRecvStream<S, B>")
    # AcceptRecvStream::new: ty, id, expected = None (field order read from the constructor's MIR)
    st.world.update({"bytes": [z3.BitVec(f"stream_byte_{i}", 8) for i in range(MAXB + 4)], "delivered": 0, "consumed": 0,
                     "script": [], "ended": False, "exhausted": False, "decoded": [], "decode_short": False, "chunks": []})
    fields = field_indices(L)
    acc.fields[(None, fields["ty"])] = Cell(ex.make_enum("std::option::Option<proto::stream::StreamType>", "None"))
    acc.fields[(None, fields["id"])] = Cell(ex.make_enum("std::option::Option<proto::varint::VarInt>", "None"))
    acc.fields[(None, fields["expected"])] = Cell(ex.make_enum("std::option::Option<usize>", "None"))
    st.world["acc"] = Cell(acc)
    finals = []
    pendings = []
    npaths = [0]

    def go(st, depth):
        E.call(ex, st, r"^stream::<impl[^>]*>::poll_type$", [Ref(st.world["acc"]), Ref(Cell(Obj("Context")))])
        for s, ret in E.collect(ex, st):
            npaths[0] += 1
            if ret != ("panic",) and z3.is_bv_value(ret.discr) and ret.discr.as_long() == 1:
                pendings.append(s)
            if ret != ("panic",) and z3.is_bv_value(ret.discr) and ret.discr.as_long() == 1 and depth + 1 < polls and not s.world["exhausted"]:
                go(s, depth + 1)
            else:
                finals.append((s, ret))
    go(st, 0)
    if ex.unroll_exceeded:
        raise Inconclusive("loop bound exceeded: " + repr(ex.unroll_exceeded[:3]))
    viols = []
    queries = 0
    wit = {"type_only_stream_resolved": False, "stream_with_id_resolved": False, "id_split_across_chunks": False,
           "ended_before_header": False, "multi_byte_type": False}
    b = st.world["bytes"]
    for s, ret in finals:
        w = s.world
        script = " ".join(w["script"])
        if ret == ("panic",):
            viols.append({"key": "c19.uni_header.panic", "what": "poll_type panics", "model": {"script": script}})
            continue
        if ret.discr.as_long() == 1:
            continue  # Pending at the end of the exploration
        res = E.get_field(ret, ("Ready", 0))
        if res.discr.as_long() == 1:
            err = E.get_field(res, ("Err", 0))
            kind = ex.enums.name_of(PTE, err.discr.as_long()) if z3.is_bv_value(err.discr) else None
            if kind == "InternalError":
                queries += 1
                m = ex.model(s, z3.Or(b[0] == 0x01, z3.And(b[0] == 0x40, b[1] == 0x54))) or ex.model(s, z3.BoolVal(True))
                data = [m.eval(b[i], True).as_long() for i in range(w["delivered"])]
                viols.append({"key": "c19.uni_header.complete_header_reported_as_internal_error",
                              "what": "a stream header whose bytes arrive in pieces is reported as a connection error H3_INTERNAL_ERROR "
                                      "(the varint was decoded before all its bytes were buffered)",
                              "model": {"script": script, "bytes": data}})
            elif kind == "EndOfStream":
                if not w["ended"]:
                    viols.append({"key": "c19.uni_header.end_of_stream_without_end", "what": "EndOfStream reported although the transport did not end the stream",
                                  "model": {"script": script}})
                else:
                    wit["ended_before_header"] = True
            continue
        # Ready(Ok(()))
        a = s.world["acc"].v
        ty = a.fields[(None, fields["ty"])].v
        idv = a.fields[(None, fields["id"])].v
        t_need = need_of(b[0])
        queries += 1
        # reference: type varint at 0; id varint follows for 0x01 / 0x54
        exp_cases = []
        for lg in range(4):
            tn = 1 << lg
            if tn > w["delivered"]:
                continue
            tval = varint_value(b, 0, tn)
            exp_cases.append((z3.LShR(b[0], 6) == lg, tn, tval))
        tyv = E.get_field(ty, ("Some", 0), (None, 0)) if z3.is_bv_value(ty.discr) and ty.discr.as_long() == 1 else None
        if tyv is None:
            viols.append({"key": "c19.uni_header.resolved_without_type", "what": "poll_type is Ready(Ok) without a stream type", "model": {"script": script}})
            continue
        ok_terms = []
        for cond, tn, tval in exp_cases:
            needs_id = z3.Or(tval == 0x01, tval == 0x54)
            # without id
            ok_terms.append(z3.And(cond, z3.Not(needs_id), tyv == tval, z3.BoolVal(w["consumed"] == tn),
                                   z3.BoolVal(not (z3.is_bv_value(idv.discr) and idv.discr.as_long() == 1))))
            for lg2 in range(4):
                n2 = 1 << lg2
                if tn + n2 > w["delivered"]:
                    continue
                idval = varint_value(b, tn, n2)
                got_id = E.get_field(idv, ("Some", 0), (None, 0)) if z3.is_bv_value(idv.discr) and idv.discr.as_long() == 1 else None
                if got_id is None:
                    continue
                ok_terms.append(z3.And(cond, needs_id, z3.LShR(b[tn], 6) == lg2, tyv == tval, got_id == idval,
                                       z3.BoolVal(w["consumed"] == tn + n2)))
        m = ex.model(s, z3.Not(z3.Or(*ok_terms)) if ok_terms else z3.BoolVal(True))
        if m is not None:
            data = [m.eval(b[i], True).as_long() for i in range(w["delivered"])]
            viols.append({"key": "c19.uni_header.type_or_id_or_consumption_wrong",
                          "what": "the resolved stream type / id differ from the varints at the start of the stream, or more/less than the header was consumed",
                          "model": {"script": script, "bytes": data, "consumed": w["consumed"]}})
        if len(w["decoded"]) == 1:
            wit["type_only_stream_resolved"] = True
        if len(w["decoded"]) == 2:
            wit["stream_with_id_resolved"] = True
            off, size = w["decoded"][1]
            # was the id split across transport chunks?
            pos = 0
            cuts = set()
            for ev in w["script"]:
                if ev.startswith("D"):
                    pos += int(ev[1:])
                    cuts.add(pos)
            if any(off < c < off + size for c in cuts):
                wit["id_split_across_chunks"] = True
        if w["decoded"] and w["decoded"][0][1] > 1:
            wit["multi_byte_type"] = True
    # a poll that answers Pending although the complete header is already buffered: the stream (and the payload that came
    # in the same chunk) stays invisible until the transport happens to deliver something else
    seen_scripts = set()
    for s in pendings:
        w = s.world
        script = " ".join(w["script"])
        d = w["delivered"]
        terms = []
        for lg in range(4):
            tn = 1 << lg
            if tn > d:
                continue
            tval = varint_value(b, 0, tn)
            needs_id = z3.Or(tval == 0x01, tval == 0x54)
            terms.append(z3.And(z3.LShR(b[0], 6) == lg, z3.Not(needs_id)))
            for lg2 in range(4):
                n2 = 1 << lg2
                if tn + n2 <= d:
                    terms.append(z3.And(z3.LShR(b[0], 6) == lg, needs_id, z3.LShR(b[tn], 6) == lg2))
        if not terms:
            continue
        queries += 1
        m = ex.model(s, z3.And(z3.Or(*terms), z3.Or(b[0] == 0x01, z3.And(b[0] == 0x40, b[1] == 0x54), b[0] == 0x00)))
        if m is None:
            m = ex.model(s, z3.Or(*terms))
        if m is not None:
            wit_pending_incomplete = True
            data = [m.eval(b[i], True).as_long() for i in range(d)]
            viols.append({"key": "c19.uni_header.buffered_header_not_surfaced",
                          "what": "poll_type answers Pending although the complete stream header is already buffered: the stream, and the payload "
                                  "that arrived in the same chunk, are not surfaced until the transport delivers something more",
                          "model": {"script": script, "bytes": data}})
    # report the shortest counterexample of each kind first (it is the one replayed natively)
    def rank(v):
        m = v.get("model", {})
        by, sc = m.get("bytes", []), m.get("script", "")
        natural_wt = by[:2] == [0x40, 0x54]
        only_chunking = not any(e in sc for e in "RFC")
        return (v["key"], not natural_wt, not only_chunking, len(sc), len(by))
    viols.sort(key=rank)
    samples.append({"paths": npaths[0], "finals": len(finals), "example_scripts": [" ".join(s.world["script"]) for s, _ in finals[:3]]})
    log(f"poll_type: {npaths[0]} poll paths, {len(finals)} final states, events<={events}, polls<={polls}, stream bytes<={MAXB}")
    exb, vb, nb, qb, wb = part_handover(L, tier, log)
    viols += vb
    wit.update(wb)
    stats = {"states": npaths[0] + nb, "transitions": queries + ex.queries + qb, "queries": queries + ex.queries + qb, "solver_s": round(ex.solver_s + exb.solver_s, 2),
             "witness": wit, "functions": sorted(ex.functions_used | exb.functions_used), "script_len": events, "wall_s": round(time.time() - t0, 1)}
    return viols, stats


# ------------------------------------------------------------------------------------------------ part B

def part_handover(L, tier, log):
    """<BufRecvStream as RecvStream>::poll_data from an ARBITRARY state (eos flag symbolic, buffer holding a chunk or not):
    bytes buffered behind a stream header are handed out first, unmodified, whatever else is known about the stream; only
    with an empty buffer is the transport asked, and its answer is passed on (chunk copied whole; None sets eos)."""
    def c_take_first(ex, st, key, argv, dest_ty, raw):
        def some(ex, st, a):
            ch = Obj("bytes::Bytes")
            ch.attrs["tag"] = "buffered_chunk"
            st.world["buffered"] = True
            return ex.make_enum(dest_ty, "Some", [ch])

        def none(ex, st, a):
            st.world["buffered"] = False
            return ex.make_enum(dest_ty, "None")
        return [Case(None, some), Case(z3.BoolVal(True), none)]

    def c_transport(ex, st, key, argv, dest_ty, raw):
        inner = C.payload_type(dest_ty, "Ready") or "std::result::Result<std::option::Option<<S as quic::RecvStream>::Buf>, quic::StreamErrorIncoming>"
        opt = C.payload_type(inner, "Ok") or "std::option::Option<<S as quic::RecvStream>::Buf>"

        def mk(kind):
            def ap(ex, st, a):
                st.world["transport"] = kind
                if kind == "pending":
                    return ex.make_enum(dest_ty, "Pending")
                if kind == "data":
                    ch = Obj("<S as quic::RecvStream>::Buf")
                    ch.attrs["tag"] = "transport_chunk"
                    return ex.make_enum(dest_ty, "Ready", [ex.make_enum(inner, "Ok", [ex.make_enum(opt, "Some", [ch])])])
                if kind == "fin":
                    return ex.make_enum(dest_ty, "Ready", [ex.make_enum(inner, "Ok", [ex.make_enum(opt, "None")])])
                e = Obj("quic::StreamErrorIncoming")
                e.attrs["tag"] = "transport_error"
                return ex.make_enum(dest_ty, "Ready", [ex.make_enum(inner, "Err", [e])])
            return ap
        return [Case(None if i == 0 else z3.BoolVal(True), mk(k)) for i, k in enumerate(("pending", "data", "fin", "error"))]

    def c_remaining(ex, st, key, argv, dest_ty, raw):
        def ap(ex, st, a):
            n = z3.BitVec("transport_chunk_len", 64)
            st.world["chunk_len"] = n
            return n
        return [Case(None, ap)]

    def c_copy_to_bytes(ex, st, key, argv, dest_ty, raw):
        def ap(ex, st, a):
            out = Obj("bytes::Bytes")
            src = C.deref(a[0])
            out.attrs["tag"] = "copy_of:" + str(src.attrs.get("tag"))
            out.attrs["len"] = a[1]
            return out
        return [Case(None, ap)]
    con = [
        (r"^BufList::take_first_chunk$", c_take_first),
        (r"^S as RecvStream::poll_data$", c_transport),
        (r"as Buf::remaining$", c_remaining),
        (r"as Buf::copy_to_bytes$", c_copy_to_bytes),
    ] + c08.base_contracts()
    ex = E.make_executor(L, [], con)
    st = State()
    brs = Obj("stream::BufRecvStream<S, B>")
    eos0 = z3.Bool("eos_before")
    fn = ex.find_fn(r"^stream::<impl at src/stream\.rs[^>]*>::poll_data$")
    text = "\n".join(s_ for b in fn.blocks.values() for s_ in b.stmts)
    m = re.search(r"\(\(\*_1\)\.(\d+): bool\)", text)
    if not m:
        raise Inconclusive("BufRecvStream::poll_data: cannot find the eos flag")
    eos_idx = int(m.group(1))
    brs.fields[(None, eos_idx)] = Cell(eos0)
    st.world["brs"] = Cell(brs)
    E.call(ex, st, r"^stream::<impl at src/stream\.rs[^>]*>::poll_data$", [Ref(st.world["brs"]), Ref(Cell(Obj("Context")))])
    outs = E.collect(ex, st)
    viols = []
    wit = {"B.buffered_chunk_delivered": False, "B.transport_chunk_delivered": False, "B.end_reported": False}
    q = 0

    def shape(ret):
        if ret.discr.as_long() == 1:
            return ("pending", None)
        res = E.get_field(ret, ("Ready", 0))
        if res.discr.as_long() == 1:
            return ("error", E.get_field(res, ("Err", 0)))
        o = E.get_field(res, ("Ok", 0))
        if o.discr.as_long() == 0:
            return ("none", None)
        return ("some", E.get_field(o, ("Some", 0)))
    for s, ret in outs:
        if ret == ("panic",):
            viols.append({"key": "c19.handover.panic", "what": "BufRecvStream::poll_data can panic", "model": {}})
            continue
        kind, val = shape(ret)
        if "buffered" not in s.world:
            # answered without looking at the buffer
            q += 1
            viols.append({"key": "c19.handover.buffered_payload_not_delivered_first",
                          "what": "BufRecvStream::poll_data answers without handing out what is buffered (e.g. reports the end of the stream while "
                                  "payload that arrived together with the stream header is still in the buffer)",
                          "model": {"answer": kind, "eos_before": str(ex.model(s, z3.BoolVal(True)).eval(eos0, True))}})
            continue
        if s.world["buffered"]:
            if kind != "some" or val.attrs.get("tag") != "buffered_chunk" or "transport" in s.world:
                viols.append({"key": "c19.handover.buffered_payload_not_delivered_first",
                              "what": "with a chunk in the buffer poll_data does not return exactly that chunk (or polls the transport first)",
                              "model": {"answer": kind}})
            else:
                wit["B.buffered_chunk_delivered"] = True
            continue
        t = s.world.get("transport")
        want = {"pending": "pending", "data": "some", "fin": "none", "error": "error"}.get(t)
        if t is None or kind != want:
            viols.append({"key": "c19.handover.transport_answer_not_passed_on", "what": "with an empty buffer the transport's answer is not what poll_data returns",
                          "model": {"transport": t, "answer": kind}})
            continue
        if t == "data":
            ln = val.attrs.get("len")
            q += 1
            if val.attrs.get("tag") != "copy_of:transport_chunk" or ln is None or ex.feasible(s, ln != s.world["chunk_len"]):
                viols.append({"key": "c19.handover.transport_chunk_truncated", "what": "the transport's chunk is not copied whole", "model": {}})
            else:
                wit["B.transport_chunk_delivered"] = True
        if t == "fin":
            post = s.world["brs"].v.fields[(None, eos_idx)].v
            q += 1
            if ex.feasible(s, z3.Not(post)):
                viols.append({"key": "c19.handover.end_not_recorded", "what": "the end of the stream is passed on without being recorded", "model": {}})
            else:
                wit["B.end_reported"] = True
        if t == "error" and (val is None or val.attrs.get("tag") != "transport_error"):
            viols.append({"key": "c19.handover.transport_error_changed", "what": "the transport's error is not passed on unchanged", "model": {}})
    log(f"B BufRecvStream::poll_data: {len(outs)} paths")
    return ex, viols, len(outs), q + ex.queries, wit


def field_indices(L):
    """indices of AcceptRecvStream's fields, read from the aggregate in AcceptRecvStream::new's MIR"""
    import re
    for name, fn in L.fns.items():
        if not re.search(r"^stream::<impl at src/stream\.rs[^>]*>::new$", name):
            continue
        text = "\n".join(s_ for blk in fn.blocks.values() for s_ in blk.stmts)
        m = re.search(r"AcceptRecvStream::?<[^{]*\{([^}]*)\}", text) or re.search(r"AcceptRecvStream \{([^}]*)\}", text)
        if m and "expected" in m.group(1):
            names = [p.strip().split(":")[0].strip() for p in m.group(1).split(",") if ":" in p]
            return {n: i for i, n in enumerate(names)}
    raise Inconclusive("cannot read AcceptRecvStream's field order from AcceptRecvStream::new")


def replay_args(v):
    if v["key"].startswith("c19.handover."):
        return ("c19_payload_with_header", [])
    m = v.get("model", {})
    if "script" in m and "bytes" in m:
        extra = ["surfaced"] if v["key"].endswith("not_surfaced") else []
        return ("c19_uni_header", [m["script"].replace(" ", ","), bytes(m["bytes"]).hex()] + extra)
    return None


# native scenarios that exercise, against the real build, the behaviours this spec decides: on a tree where the spec finds no
# violation every one of them must NOT reproduce (a scenario that reproduces there means the spec misses something)
SCENARIOS = [('c19_uni_header', ['D3,D1', '4054c000']), ('c19_uni_header', ['D3,P', '405400', 'surfaced']), ('c19_uni_header', ['D1,D1,D1', '014004']), ('c19_uni_header', ['D2,R', '01c0']), ('c19_payload_with_header', [])]
