"""C13 (set-up sequence) — each endpoint sends exactly one SETTINGS frame, as the first bytes of its control stream, built
from its configuration.

  S  structure of the whole MIR dump (every function of the h3 crate): the ONLY place that constructs a SETTINGS to be
     sent (`UniStreamHeader::Control(..)`; no `Frame::<B>::Settings(..)`, the writable frame type, is constructed anywhere) is
     ConnectionInner::send_control_stream_headers, and that function has exactly one call site, in ConnectionInner::new,
     behind the opening of the control stream;
  H  symbolic execution of send_control_stream_headers (coroutine, first poll) for every outcome of the conversion
     Config -> Settings: if the configuration is representable, the FIRST write on the control send stream is
     WriteBuf::from(UniStreamHeader::Control(settings)) with exactly the Settings the conversion returned for self.config
     (whose bytes - stream type 0x00, frame type 0x04, each configured id once - are decided by the Kani harnesses
     c13_config_to_wire_*); nothing is written on the control stream before it; otherwise the connection error
     H3_INTERNAL_ERROR is raised and nothing is written.
"""
import re
import time
import z3

from .. import engine as E
from .. import contracts as C
from ..sym import State, Cell, Obj, Ref, UNIT, Case, Inconclusive
from . import c08


def part_structure(L, log):
    viols = []
    ctor_sites, frame_sites, call_sites = [], [], []
    for name, fn in L.fns.items():
        if name.startswith("const:") or re.search(r"(^|::)(UniStreamHeader::Control|Frame::Settings)$", name):
            continue        # constants; the variant constructor shims themselves
        for b in fn.blocks.values():
            for s_ in b.stmts:
                if re.search(r"= UniStreamHeader::Control\(", s_):
                    ctor_sites.append(name)
                # frames that can be WRITTEN have the payload type B (received ones are Frame<PayloadLen>)
                if re.search(r"= (proto::frame::)?Frame::<B>::Settings\(", s_):
                    frame_sites.append(name)
            t = b.term or ""
            if re.search(r"= ConnectionInner::<[^>]*>::send_control_stream_headers\(", t):
                call_sites.append(name)
    # exactly one construction site in the whole crate; WHERE it is does not matter (part H follows the calls from
    # send_control_stream_headers into whatever helper builds it)
    ok_ctor = len(ctor_sites) == 1
    if not ok_ctor:
        viols.append({"key": "c13.setup.settings_built_for_sending_elsewhere",
                      "what": "a SETTINGS to be sent (UniStreamHeader::Control) is not constructed at exactly one place in the crate (a second SETTINGS could be written)",
                      "model": {"sites": ctor_sites}})
    bad_frames = frame_sites
    if bad_frames:
        viols.append({"key": "c13.setup.settings_frame_built_outside_the_decoder",
                      "what": "a Frame::Settings value is constructed outside the frame decoder (a second SETTINGS could be written)", "model": {"sites": bad_frames}})
    ok_call = len(call_sites) == 1 and call_sites[0].endswith("::new::{closure#0}") and "connection::" in call_sites[0]
    if not ok_call:
        viols.append({"key": "c13.setup.settings_sent_from_other_call_sites",
                      "what": "send_control_stream_headers is not called exactly once, from ConnectionInner::new", "model": {"sites": call_sites}})
    log(f"S structure: {len(L.fns)} functions scanned; Control-header construction sites {len(ctor_sites)}, writable Frame::Settings sites {len(frame_sites)}, "
        f"call sites of send_control_stream_headers {len(call_sites)}")
    return viols, {"S.single_construction_site": ok_ctor, "S.single_call_site": ok_call}


def part_first_write(L, log):
    def c_try_from(ex, st, key, argv, dest_ty, raw):
        def ok(ex, st, a):
            s = Obj("proto::frame::Settings")
            s.attrs["from_config"] = a[0]
            st.world["settings"] = s
            return ex.make_enum(dest_ty, "Ok", [s])

        def bad(ex, st, a):
            st.world["settings"] = None
            return ex.make_enum(dest_ty, "Err", [Obj("proto::frame::SettingsError")])
        return [Case(None, ok), Case(z3.BoolVal(True), bad)]

    def c_writebuf_from(ex, st, key, argv, dest_ty, raw):
        def ap(ex, st, a):
            o = Obj("WriteBuf<B>")
            o.attrs["header"] = a[0]
            return o
        return [Case(None, ap)]

    def c_write(ex, st, key, argv, dest_ty, raw):
        def ap(ex, st, a):
            st.effects.append(("write", a[0], a[1]))
            return Obj("{async fn body of stream::write()}")
        return [Case(None, ap)]

    def c_join_poll(ex, st, key, argv, dest_ty, raw):
        return [Case(None, lambda ex, st, a: ex.make_enum(dest_ty, "Pending"))]
    con = [
        (r"^proto::frame::Settings as TryFrom::try_from$|^Settings as TryFrom::try_from$", c_try_from),
        (r"^WriteBuf as From::from$", c_writebuf_from),
        (r"^stream::write$", c_write),
        (r"^join3$|Join3 as IntoFuture::into_future$", C.c_opaque),
        (r"Join3 as .*Future::poll$", c_join_poll),
        (r"ToString::to_string$", C.c_opaque),
    ] + c08.base_contracts()
    ex = E.make_executor(L, c08.INLINE_COMMON, con)
    st = State()
    inner = Obj("connection::ConnectionInner<C, B>")
    cfg = Obj("config::Config")
    cfg.attrs["tag"] = "the_configuration"
    fn = ex.find_fn(r"send_control_stream_headers::\{closure#0\}$")
    text = "\n".join(s_ for b in fn.blocks.values() for s_ in b.stmts)
    m = re.search(r"\(\(\*_\d+\)\.(\d+): config::Config\)", text)
    mc = re.search(r"&mut \(\(\*_\d+\)\.(\d+): <C as quic::OpenStreams<B>>::SendStream\)", text)
    if not m or not mc:
        raise Inconclusive("send_control_stream_headers: cannot locate config / control_send")
    inner.fields[(None, int(m.group(1)))] = Cell(cfg)
    ctrl = Obj("<C as quic::OpenStreams<B>>::SendStream")
    ctrl.attrs["tag"] = "control_send"
    inner.fields[(None, int(mc.group(1)))] = Cell(ctrl)
    co = Obj("{async fn body of ConnectionInner<C, B>::send_control_stream_headers()}", z3.BitVecVal(0, 32))
    co.fields[(None, 0)] = Cell(Ref(Cell(inner)))
    pin = Obj("Pin<&mut coroutine>")
    pin.fields[(None, 0)] = Cell(Ref(Cell(co)))
    E.call(ex, st, r"send_control_stream_headers::\{closure#0\}$", [pin, Ref(Cell(Obj("Context")))])
    outs = E.collect(ex, st)
    viols = []
    wit = {"H.settings_written_first": False, "H.unrepresentable_configuration_refused": False}
    internal = E.code_value(L.consts, "H3_INTERNAL_ERROR")
    for s, ret in outs:
        if ret == ("panic",):
            viols.append({"key": "c13.setup.panic", "what": "send_control_stream_headers can panic", "model": {}})
            continue
        writes = [e for e in s.effects if e[0] == "write"]
        errs = [e for e in s.effects if e[0] == "connection_error"]
        ctrl_writes = [w for w in writes if isinstance(C.deref(w[1]), Obj) and C.deref(w[1]).attrs.get("tag") == "control_send"]
        if s.world.get("settings") is None:
            code = E.get_field(C.deref(errs[0][1]), (None, 0), (None, 0)) if errs else None
            if writes or len(errs) != 1 or code is None or ex.feasible(s, code != internal):
                viols.append({"key": "c13.setup.unrepresentable_configuration_not_refused",
                              "what": "a configuration that cannot be represented as SETTINGS does not end in H3_INTERNAL_ERROR with nothing written", "model": {"writes": len(writes)}})
            else:
                wit["H.unrepresentable_configuration_refused"] = True
            continue
        first = ctrl_writes[0] if ctrl_writes else None
        hdr = C.deref(first[2]).attrs.get("header") if first is not None and isinstance(C.deref(first[2]), Obj) else None
        good = False
        if isinstance(hdr, Obj) and z3.is_bv_value(hdr.discr) and ex.enums.name_of("stream::UniStreamHeader", hdr.discr.as_long()) == "Control":
            sent = E.get_field(hdr, ("Control", 0))
            src = sent.attrs.get("from_config") if isinstance(sent, Obj) else None
            good = isinstance(src, Obj) and src.attrs.get("tag") == "the_configuration" and len(ctrl_writes) == 1
        if not good:
            viols.append({"key": "c13.setup.first_control_write_is_not_the_settings",
                          "what": "the first (and only) thing written on the control send stream at set-up is not WriteBuf::from(UniStreamHeader::Control(Settings::try_from(self.config)))",
                          "model": {"control_writes": len(ctrl_writes)}})
        else:
            wit["H.settings_written_first"] = True
    log(f"H send_control_stream_headers: {len(outs)} paths")
    return ex, viols, len(outs), wit


def check(L, tier, log, samples):
    t0 = time.time()
    v1, w1 = part_structure(L, log)
    ex, v2, n, w2 = part_first_write(L, log)
    wit = dict(w1)
    wit.update(w2)
    samples.append({"parts": ["structure of the dump", "send_control_stream_headers first poll"], "paths": n})
    stats = {"states": n, "transitions": ex.queries, "queries": ex.queries + len(L.fns), "solver_s": round(ex.solver_s, 2), "witness": wit,
             "functions": sorted(ex.functions_used), "wall_s": round(time.time() - t0, 1)}
    return v1 + v2, stats
