"""C08 — GOAWAY identifiers never grow and draw the accept/reject line exactly.

One-step inductive checks from arbitrary pre-states (the representation carries no other invariant):
  A  server::Connection::poll_accept_request_stream_internal: with any `sent_closing`, any arriving client-bidi stream
     ids (up to N arrivals per poll): a request is handed to the application iff its id is BELOW the last GOAWAY id
     sent (RFC 9114 5.2: requests with the indicated identifier or greater are rejected); every other one gets
     stop_sending + reset with H3_REQUEST_REJECTED and is never returned.
  B  ConnectionInner::shutdown (first poll of the coroutine): a GOAWAY is written iff no id was sent before or the new
     id is smaller; the id written is the argument; `sent_closing` becomes that id; closing is set.
  C  server::Connection::shutdown(n) (prefix up to the call of ConnectionInner::shutdown): the id it announces is
     greater than every request id already handed to the application (`last_accepted_stream`), for every n.
  D  client::Connection::poll_close + process_goaway: for every sequence of received GOAWAY ids: H3_ID_ERROR iff the id
     is not a client-initiated bidirectional id or is larger than the previous one; otherwise it is recorded and the
     shared `closing` flag is set; check_peer_connection_closing (first statement of send_request) then refuses.

Lemmas from engine K (C16): StreamId ordering is numeric; StreamId + n keeps the kind and saturates; is_request.
"""
import time
import z3

from .. import engine as E
from .. import contracts as C
from ..sym import State, Cell, Obj, Ref, UNIT, Case, Inconclusive

MAX62 = (1 << 62) - 1
CE = "error::error::ConnectionError"


def bv(x):
    return z3.BitVecVal(x, 64)


def sid(val, ty="proto::stream::StreamId"):
    o = Obj(ty)
    o.fields[(None, 0)] = Cell(val)
    return o


def opt_some(ex, ty, v):
    return ex.make_enum(f"std::option::Option<{ty}>", "Some", [v])


def sym_option_id(ex, st, name, ty="proto::stream::StreamId"):
    """An arbitrary Option<StreamId> with a valid id."""
    o = Obj(f"std::option::Option<{ty}>")
    d = ex.discr_of(st, o)
    v = z3.BitVec(name, 64)
    st.pc.append(z3.ULE(v, bv(MAX62)))
    o.fields[("Some", 0)] = Cell(sid(v, ty))
    return o, d == 1, v


# ------------------------------------------------------------------------------------------------ contracts

def c_nondet_poll_unit_result(ex, st, key, argv, dest_ty, raw):
    """server poll_control: Pending, or Ready(Err(e)) (its Ok case loops internally; see C04)."""
    def err(ex, st, a):
        return ex.make_enum(dest_ty, "Ready", [ex.make_enum(C.payload_type(dest_ty, "Ready"), "Err", [Obj(CE)])])
    return [Case(None, lambda ex, st, a: ex.make_enum(dest_ty, "Pending")), Case(z3.BoolVal(True), err)]


def c_poll_requests_completion(ex, st, key, argv, dest_ty, raw):
    r = z3.Bool(E.fresh("completion_ready"))
    return [Case(r, lambda ex, st, a: ex.make_enum(dest_ty, "Ready", [UNIT])),
            Case(z3.Not(r), lambda ex, st, a: ex.make_enum(dest_ty, "Pending"))]


def c_poll_accept_bi(limit):
    def f(ex, st, key, argv, dest_ty, raw):
        n = len(st.world.setdefault("arrivals", []))
        inner_ty = C.payload_type(dest_ty, "Ready")

        def pending(ex, st, a):
            return ex.make_enum(dest_ty, "Pending")

        def err(ex, st, a):
            return ex.make_enum(dest_ty, "Ready", [ex.make_enum(inner_ty, "Err", [Obj(CE)])])

        def arrive(ex, st, a):
            i = len(st.world["arrivals"])
            s = Obj("BidiStream")
            idv = z3.BitVec(f"arrival{i}_id", 64)
            # the transport hands out client-initiated bidirectional streams: id = 4k, below 2^62
            st.pc.append(z3.And(z3.ULE(idv, bv(MAX62)), (idv & 3) == 0))
            s.attrs["id"] = idv
            s.attrs["n"] = i
            st.world["arrivals"].append(idv)
            return ex.make_enum(dest_ty, "Ready", [ex.make_enum(inner_ty, "Ok", [s])])
        cases = [Case(z3.BoolVal(True), pending), Case(z3.BoolVal(True), err)]
        if n < limit:
            cases.append(Case(z3.BoolVal(True), arrive))
        return cases
    return f


def c_send_id(ex, st, key, argv, dest_ty, raw):
    def ap(ex, st, a):
        s = C.deref(a[0])
        return sid(s.attrs["id"])
    return [Case(None, ap)]


def c_code_value(ex, st, key, argv, dest_ty, raw):
    return [Case(None, lambda ex, st, a: ex.field(C.deref(a[0]), None, 0, "u64").v)]


def eff_stream(name):
    def f(ex, st, key, argv, dest_ty, raw):
        def ap(ex, st, a):
            s = C.deref(a[0])
            st.effects.append((name, s.attrs.get("n"), a[1]))
            return UNIT
        return [Case(None, ap)]
    return f


def c_hashset_insert(ex, st, key, argv, dest_ty, raw):
    def ap(ex, st, a):
        st.effects.append(("ongoing_insert", ex.field(C.deref(a[1]), None, 0, "u64").v))
        return z3.Bool(E.fresh("inserted"))
    return [Case(None, ap)]


def c_set_closing(ex, st, key, argv, dest_ty, raw):
    def ap(ex, st, a):
        st.effects.append(("set_closing",))
        st.world["closing"] = True
        return UNIT
    return [Case(None, ap)]


def c_is_closing(ex, st, key, argv, dest_ty, raw):
    return [Case(None, lambda ex, st, a: z3.BoolVal(bool(st.world.get("closing", False))))]


def c_stream_write(ex, st, key, argv, dest_ty, raw):
    """stream::write(stream, frame): returns the future; the frame handed over is the effect."""
    def ap(ex, st, a):
        st.effects.append(("write", a[1]))
        return Obj(dest_ty)
    return [Case(None, ap)]


def c_future_poll_write(ex, st, key, argv, dest_ty, raw):
    inner_ty = C.payload_type(dest_ty, "Ready")

    def err(ex, st, a):
        return ex.make_enum(dest_ty, "Ready", [ex.make_enum(inner_ty, "Err", [Obj("quic::StreamErrorIncoming")])])
    return [Case(None, lambda ex, st, a: ex.make_enum(dest_ty, "Pending")),
            Case(z3.BoolVal(True), lambda ex, st, a: ex.make_enum(dest_ty, "Ready", [ex.make_enum(inner_ty, "Ok", [UNIT])])),
            Case(z3.BoolVal(True), err)]


def c_handle_connection_error(ex, st, key, argv, dest_ty, raw):
    """ConnectionInner::handle_connection_error is analysed under C05; here only the error handed to it matters."""
    def ap(ex, st, a):
        st.effects.append(("connection_error", a[1]))
        o = Obj(CE)
        o.attrs["from"] = a[1]
        return o
    return [Case(None, ap)]


def c_streamid_add(ex, st, key, argv, dest_ty, raw):
    """<StreamId as Add<usize>>::add — lemma proved by Kani harness c16_streamid_add_saturates: keeps the two low
    bits, index = min(index + n, 2^60 - 1)."""
    def ap(ex, st, a):
        raw_id = ex.field(C.deref(a[0]), None, 0, "u64").v
        n = a[1]
        idx = z3.LShR(raw_id, 2)
        wide = z3.ZeroExt(64, idx) + z3.ZeroExt(64, n)
        maxi = z3.BitVecVal((1 << 60) - 1, 128)
        sat = z3.Extract(63, 0, z3.If(z3.UGT(wide, maxi), maxi, wide))
        return sid((sat << 2) | (raw_id & 3))
    return [Case(None, ap)]


def c_is_request(ex, st, key, argv, dest_ty, raw):
    """StreamId::is_request — lemma proved by Kani harness c16_streamid_classification: raw & 3 == 0."""
    return [Case(None, lambda ex, st, a: (ex.field(C.deref(a[0]), None, 0, "u64").v & 3) == 0)]


def c_inner_shutdown_call(ex, st, key, argv, dest_ty, raw):
    """ConnectionInner::shutdown::<StreamId>(inner, &mut sent_closing, max_id): only builds the future (part B analyses
    its body); record the id it is asked to announce."""
    def ap(ex, st, a):
        st.effects.append(("inner_shutdown", ex.field(C.deref(a[2]), None, 0, "u64").v))
        return Obj(dest_ty)
    return [Case(None, ap)]


def c_future_poll_unit(ex, st, key, argv, dest_ty, raw):
    return [Case(None, lambda ex, st, a: ex.make_enum(dest_ty, "Pending"))]


def c_control_script(ex, st, key, argv, dest_ty, raw):
    """client: ConnectionInner::poll_control — the next frame of a symbolic script of GOAWAY frames, then Pending."""
    inner_ty = C.payload_type(dest_ty, "Ready")
    k = st.world.setdefault("ctrl_pos", 0)
    script = st.world["ctrl_script"]

    def pending(ex, st, a):
        return ex.make_enum(dest_ty, "Pending")

    def goaway(ex, st, a):
        k = st.world["ctrl_pos"]
        st.world["ctrl_pos"] = k + 1
        vi = sid(st.world["ctrl_script"][k], "proto::varint::VarInt")
        fr = ex.make_enum("proto::frame::Frame<proto::frame::PayloadLen>", "Goaway", [vi])
        return ex.make_enum(dest_ty, "Ready", [ex.make_enum(inner_ty, "Ok", [fr])])
    if k < len(script):
        return [Case(None, goaway)]
    return [Case(None, pending)]


def base_contracts():
    return [
        (r"ConnectionState::set_closing$", c_set_closing),
        (r"ConnectionState::is_closing$", c_is_closing),
        (r"^Code::value$", c_code_value),
        (r"ConnectionInner::handle_connection_error$", c_handle_connection_error),
        (r"^StreamId as Add::add$", c_streamid_add),
        (r"^StreamId::is_request$", c_is_request),
    ] + C.std_contracts()


INLINE_COMMON = [
    (r"^InternalConnectionError::new$", r"internal_error.*::new$"),
]

REJECTED = None


# ------------------------------------------------------------------------------------------------ part A

def part_a(L, tier, log, samples):
    arrivals = 2 if tier == "quick" else 3
    con = [
        (r"^server::connection::Connection::poll_control$", c_nondet_poll_unit_result),
        (r"^server::connection::Connection::poll_requests_completion$", c_poll_requests_completion),
        (r"^ConnectionInner::poll_accept_bi$", c_poll_accept_bi(arrivals)),
        (r" as SendStream::send_id$", c_send_id),
        (r" as RecvStream::stop_sending$", eff_stream("stop_sending")),
        (r" as SendStream::reset$", eff_stream("reset")),
        (r"^HashSet::insert$|^BTreeSet::insert$|^Vec::push$", c_hashset_insert),
    ] + base_contracts()
    ex = E.make_executor(L, INLINE_COMMON, con, max_unroll=arrivals + 1)
    st = State()
    conn = Obj("server::connection::Connection<C, B>")
    sent, sent_is_some, m = sym_option_id(ex, st, "sent_goaway_id")
    conn.fields[(None, 5)] = Cell(sent)
    st.world["conn"] = Cell(conn)
    E.call(ex, st, r"^server::connection.*::poll_accept_request_stream_internal$",
           [Ref(st.world["conn"]), Ref(Cell(Obj("Context")))])
    outs = E.collect(ex, st)
    if ex.unroll_exceeded:
        raise Inconclusive("loop bound exceeded: " + repr(ex.unroll_exceeded[:3]))
    rejected_code = E.code_value(L.consts, "H3_REQUEST_REJECTED")
    viols = []
    queries = 0
    wit = {"accepted_below_line": False, "rejected_above_line": False, "accepted_without_goaway": False}
    for s, ret in outs:
        arr = s.world.get("arrivals", [])
        # which arrival (if any) was handed to the application?
        returned = None
        if isinstance(ret, Obj) and z3.is_bv_value(ret.discr) and ret.discr.as_long() == 0:
            r = E.get_field(ret, ("Ready", 0))
            if r is not None and z3.is_bv_value(r.discr) and r.discr.as_long() == 0:
                o = E.get_field(r, ("Ok", 0))
                if o is not None and z3.is_bv_value(o.discr) and o.discr.as_long() == 1:
                    returned = E.get_field(o, ("Some", 0)).attrs.get("n")
        stops = {e[1]: e[2] for e in s.effects if e[0] == "stop_sending"}
        resets = {e[1]: e[2] for e in s.effects if e[0] == "reset"}
        for i, idv in enumerate(arr):
            last = (i == len(arr) - 1)
            if returned == i:
                # handed out: must be below the line (or no GOAWAY sent yet)
                queries += 1
                mm = ex.model(s, z3.And(sent_is_some, z3.UGE(idv, m)))
                if mm is not None:
                    eq = mm.eval(idv, True).as_long() == mm.eval(m, True).as_long()
                    viols.append({"key": "c08.accept_line.id_equals_goaway.accepted" if eq and not ex.feasible(
                        s, z3.And(sent_is_some, z3.UGT(idv, m))) else "c08.accept_line.id_above_goaway.accepted",
                                  "what": "a request whose stream id is greater than or equal to the last GOAWAY id sent is handed to "
                                          "the application instead of being rejected with H3_REQUEST_REJECTED",
                                  "model": {"goaway_id_sent": mm.eval(m, True).as_long(), "arriving_id": mm.eval(idv, True).as_long()}})
                if ex.feasible(s, sent_is_some):
                    wit["accepted_below_line"] = True
                if ex.feasible(s, z3.Not(sent_is_some)):
                    wit["accepted_without_goaway"] = True
                if i in stops or i in resets:
                    viols.append({"key": "c08.accept_line.accepted_but_reset", "what": "an accepted request was also reset", "model": {}})
            elif i in stops or i in resets or not last:
                # rejected: both calls with H3_REQUEST_REJECTED, only above the line
                wit["rejected_above_line"] = True
                ok_codes = z3.And(stops.get(i, bv(0)) == rejected_code, resets.get(i, bv(0)) == rejected_code) \
                    if (i in stops and i in resets) else z3.BoolVal(False)
                queries += 1
                if ex.feasible(s, z3.Not(ok_codes)):
                    viols.append({"key": "c08.reject.missing_or_wrong_reset", "model": {},
                                  "what": "a rejected request is not both stop_sending'ed and reset with H3_REQUEST_REJECTED"})
                queries += 1
                mm = ex.model(s, z3.Or(z3.Not(sent_is_some), z3.ULT(idv, m)))
                if mm is not None:
                    viols.append({"key": "c08.accept_line.id_below_goaway.rejected",
                                  "what": "a request below the last GOAWAY id (or with no GOAWAY sent) is rejected",
                                  "model": {"goaway_id_sent": mm.eval(m, True).as_long(), "arriving_id": mm.eval(idv, True).as_long()}})
        if len(samples) < 2 and arr:
            samples.append({"part": "A", "arrivals": len(arr), "returned": returned,
                            "effects": [e[0] for e in s.effects]})
    log(f"A accept line: {len(outs)} paths, {queries} property queries, {ex.queries} feasibility queries")
    return viols, {"paths": len(outs), "queries": queries + ex.queries, "solver_s": ex.solver_s, "witness": wit,
                   "functions": sorted(ex.functions_used)}


# ------------------------------------------------------------------------------------------------ part B

def part_b(L, tier, log, samples):
    con = [
        (r"^stream::write$", c_stream_write),
        (r"^\{async fn body of stream::write\(\)\} as Future::poll$|async fn body of stream::write.* as .*Future::poll$", c_future_poll_write),
    ] + base_contracts()
    ex = E.make_executor(L, INLINE_COMMON, con)
    st = State()
    sent, sent_is_some, p = sym_option_id(ex, st, "previously_sent_id")
    sent_cell = Cell(sent)
    st.world["sent"] = sent_cell
    new_id = z3.BitVec("shutdown_arg_id", 64)
    st.pc.append(z3.ULE(new_id, bv(MAX62)))
    co = Obj("{async fn body of ConnectionInner<C, B>::shutdown<T>()}", bv(0))
    co.fields[(None, 0)] = Cell(Ref(Cell(Obj("connection::ConnectionInner<C, B>"))))
    co.fields[(None, 1)] = Cell(Ref(sent_cell))
    co.fields[(None, 2)] = Cell(sid(new_id, "T"))
    pin = Obj("Pin<&mut coroutine>")
    pin.fields[(None, 0)] = Cell(Ref(Cell(co)))
    E.call(ex, st, r"^connection::<impl at src/connection\.rs[^>]*>::shutdown::\{closure#0\}$", [pin, Ref(Cell(Obj("Context")))])
    outs = E.collect(ex, st)
    viols = []
    queries = 0
    wit = {"goaway_written": False, "goaway_suppressed": False}
    for s, ret in outs:
        writes = [e for e in s.effects if e[0] == "write"]
        closing = any(e[0] == "set_closing" for e in s.effects)
        should = z3.Or(z3.Not(sent_is_some), z3.ULT(new_id, p))
        if writes:
            wit["goaway_written"] = True
            queries += 1
            mm = ex.model(s, z3.Not(should))
            if mm is not None:
                viols.append({"key": "c08.shutdown.goaway_id_not_smaller_than_previous.sent",
                              "what": "a GOAWAY is written although its id is not smaller than the id sent before",
                              "model": {"previous": mm.eval(p, True).as_long(), "new": mm.eval(new_id, True).as_long()}})
            fr = C.deref(writes[0][1])
            idx_goaway = ex.enums.index_of("proto::frame::Frame", "Goaway")
            is_goaway = z3.is_bv_value(fr.discr) and fr.discr.as_long() == idx_goaway
            wid = E.get_field(fr, ("Goaway", 0), (None, 0)) if is_goaway else None
            queries += 1
            if not is_goaway or wid is None or ex.feasible(s, wid != new_id) or len(writes) > 1:
                viols.append({"key": "c08.shutdown.goaway_carries_other_id", "model": {},
                              "what": "the frame written is not exactly one GOAWAY carrying the requested id"})
            post = C.deref(s.world["sent"].v)
            pid = E.get_field(post, ("Some", 0), (None, 0))
            queries += 1
            if not (z3.is_bv_value(post.discr) and post.discr.as_long() == 1) or pid is None or ex.feasible(s, pid != new_id) or not closing:
                viols.append({"key": "c08.shutdown.state_not_updated", "model": {},
                              "what": "after writing GOAWAY(id) the recorded last id is not id or closing is not set"})
        else:
            wit["goaway_suppressed"] = True
            queries += 1
            mm = ex.model(s, should)
            if mm is not None:
                viols.append({"key": "c08.shutdown.smaller_id_not_sent",
                              "what": "shutdown with a smaller id (or the first shutdown) does not write a GOAWAY",
                              "model": {"previous": mm.eval(p, True).as_long(), "new": mm.eval(new_id, True).as_long()}})
    if len(samples) < 4:
        samples.append({"part": "B", "paths": len(outs), "effects": [[e[0] for e in s.effects] for s, _ in outs][:4]})
    log(f"B ConnectionInner::shutdown: {len(outs)} paths, {queries} property queries")
    return viols, {"paths": len(outs), "queries": queries + ex.queries, "solver_s": ex.solver_s, "witness": wit,
                   "functions": sorted(ex.functions_used)}


# ------------------------------------------------------------------------------------------------ part C

def part_c(L, tier, log, samples):
    con = [
        (r"^ConnectionInner::shutdown$", c_inner_shutdown_call),
        (r"async fn body of ConnectionInner::shutdown.* as .*Future::poll$|^\{async fn body of ConnectionInner::shutdown\(\)\} as Future::poll$", c_future_poll_unit),
    ] + base_contracts()
    ex = E.make_executor(L, INLINE_COMMON, con)
    st = State()
    conn = Obj("server::connection::Connection<C, B>")
    last, last_is_some, lastv = sym_option_id(ex, st, "last_accepted_id")
    st.pc.append((lastv & 3) == 0)
    conn.fields[(None, 7)] = Cell(last)
    n = z3.BitVec("max_requests", 64)
    co = Obj("{async fn body of server::connection::Connection<C, B>::shutdown()}", bv(0))
    co.fields[(None, 0)] = Cell(Ref(Cell(conn)))
    co.fields[(None, 1)] = Cell(n)
    pin = Obj("Pin<&mut coroutine>")
    pin.fields[(None, 0)] = Cell(Ref(Cell(co)))
    E.call(ex, st, r"^server::connection::<impl[^>]*>::shutdown::\{closure#0\}$", [pin, Ref(Cell(Obj("Context")))])
    outs = E.collect(ex, st)
    viols = []
    queries = 0
    wit = {"announced_with_accepted_request": False, "announced_without": False}
    for s, ret in outs:
        ann = [e for e in s.effects if e[0] == "inner_shutdown"]
        if len(ann) != 1:
            viols.append({"key": "c08.server_shutdown.no_single_announcement", "model": {},
                          "what": "shutdown(n) does not hand exactly one id to ConnectionInner::shutdown"})
            continue
        a = ann[0][1]
        if ex.feasible(s, last_is_some):
            wit["announced_with_accepted_request"] = True
        if ex.feasible(s, z3.Not(last_is_some)):
            wit["announced_without"] = True
        queries += 1
        mm = ex.model(s, z3.And(last_is_some, z3.ULE(a, lastv), z3.ULT(lastv, bv(MAX62 - 3))))
        if mm is not None:
            viols.append({"key": "c08.server_shutdown.announces_id_of_request_already_handed_out",
                          "what": "shutdown(n) announces a GOAWAY id that is not greater than the id of a request already handed to the "
                                  "application: the peer is told that request was not processed (RFC 9114 5.2: requests with the "
                                  "indicated identifier or greater are rejected)",
                          "model": {"last_accepted": mm.eval(lastv, True).as_long(), "max_requests": mm.eval(n, True).as_long(),
                                    "announced": mm.eval(a, True).as_long()}})
        queries += 1
        if ex.feasible(s, z3.Or((a & 3) != 0, z3.UGT(a, bv(MAX62)))):
            viols.append({"key": "c08.server_shutdown.announced_id_not_a_request_id", "model": {},
                          "what": "the announced id is not a client-initiated bidirectional stream id below 2^62"})
    if len(samples) < 6:
        samples.append({"part": "C", "paths": len(outs)})
    log(f"C server shutdown(n): {len(outs)} paths, {queries} property queries")
    return viols, {"paths": len(outs), "queries": queries + ex.queries, "solver_s": ex.solver_s, "witness": wit,
                   "functions": sorted(ex.functions_used)}


# ------------------------------------------------------------------------------------------------ part D

def part_d(L, tier, log, samples):
    k = 3 if tier == "quick" else 4   # three GOAWAYs are needed to see a limit that is not updated (a, b<a, b<c<=a)
    con = [
        (r"^ConnectionInner::poll_control$", c_control_script),
        (r"^ConnectionInner::poll_accept_bi$", lambda ex, st, key, argv, dest_ty, raw: [Case(None, lambda ex, st, a: ex.make_enum(dest_ty, "Pending"))]),
    ] + base_contracts()
    inline = INLINE_COMMON + [
        (r"^ConnectionInner::process_goaway$", r"^connection::<impl[^>]*>::process_goaway$"),
    ]
    ex = E.make_executor(L, inline, con, max_unroll=k + 2)
    st = State()
    script = [z3.BitVec(f"goaway{i}", 64) for i in range(k)]
    for g in script:
        st.pc.append(z3.ULE(g, bv(MAX62)))
    st.world["ctrl_script"] = script
    conn = Obj("client::connection::Connection<C, B>")
    # the client's Connection: field indices are taken from the MIR's own projections; recv_closing starts None
    recv_ty = "std::option::Option<proto::stream::StreamId>"
    fn = ex.find_fn(r"^client::connection::<impl[^>]*>::poll_close$")
    # find the field index of recv_closing from the call site of process_goaway: `&mut ((*_1).K: Option<StreamId>)`
    import re as _re
    idx = None
    for b in fn.blocks.values():
        for s_ in b.stmts:
            m = _re.search(r"&mut \(\(\*_1\)\.(\d+): std::option::Option<proto::stream::StreamId>\)", s_)
            if m:
                idx = int(m.group(1))
    if idx is None:
        raise Inconclusive("client poll_close: cannot locate recv_closing")
    conn.fields[(None, idx)] = Cell(ex.make_enum(recv_ty, "None"))
    st.world["conn"] = Cell(conn)
    E.call(ex, st, r"^client::connection::<impl[^>]*>::poll_close$", [Ref(st.world["conn"]), Ref(Cell(Obj("Context")))])
    outs = E.collect(ex, st)
    if ex.unroll_exceeded:
        raise Inconclusive("loop bound exceeded: " + repr(ex.unroll_exceeded[:3]))
    id_error = E.code_value(L.consts, "H3_ID_ERROR")
    viols = []
    queries = 0
    wit = {"id_error": False, "accepted_sequence": False}
    for s, ret in outs:
        errs = [e for e in s.effects if e[0] == "connection_error"]
        consumed = s.world.get("ctrl_pos", 0)
        # the spec's own verdict over the consumed prefix
        bad = []
        for i in range(consumed):
            c = (script[i] & 3) != 0
            if i > 0:
                c = z3.Or(c, z3.UGT(script[i], script[i - 1]))
            bad.append(c)
        if errs:
            wit["id_error"] = True
            code = E.get_field(C.deref(errs[0][1]), (None, 0), (None, 0))
            queries += 1
            # an error is reported: the last consumed GOAWAY must be the (first) offending one, code H3_ID_ERROR
            first_bad_is_last = z3.And([z3.Not(b) for b in bad[:-1]] + [bad[-1]]) if bad else z3.BoolVal(False)
            mm = ex.model(s, z3.Not(first_bad_is_last))
            if mm is not None:
                viols.append({"key": "c08.client.valid_goaway_sequence.rejected",
                              "what": "a GOAWAY that is a client bidi id and not larger than the previous one is a connection error",
                              "model": {"ids": [mm.eval(g, True).as_long() for g in script[:consumed]]}})
            queries += 1
            if code is None or ex.feasible(s, code != id_error):
                viols.append({"key": "c08.client.wrong_error_code", "model": {},
                              "what": "an invalid GOAWAY id is not reported as H3_ID_ERROR"})
        else:
            wit["accepted_sequence"] = wit["accepted_sequence"] or consumed == k
            queries += 1
            mm = ex.model(s, z3.Or(bad)) if bad else None
            if mm is not None:
                viols.append({"key": "c08.client.invalid_goaway.accepted",
                              "what": "a GOAWAY id that is not a client-initiated bidirectional id, or larger than the previous one, is accepted",
                              "model": {"ids": [mm.eval(g, True).as_long() for g in script[:consumed]]}})
            if consumed > 0:
                post = C.deref(s.world["conn"].v.fields[(None, idx)].v)
                pid = E.get_field(post, ("Some", 0), (None, 0))
                queries += 1
                if pid is None or ex.feasible(s, pid != script[consumed - 1]) or not s.world.get("closing"):
                    viols.append({"key": "c08.client.goaway_not_recorded", "model": {},
                                  "what": "after a valid GOAWAY the id is not recorded or the closing flag is not set"})
    # closing flag => send_request refuses (check_peer_connection_closing is its first statement)
    ex2 = E.make_executor(L, [], base_contracts())
    for closing in (True, False):
        s2 = State()
        s2.world["closing"] = closing
        E.call(ex2, s2, r"^CloseStream::check_peer_connection_closing$", [Ref(Cell(Obj("Self")))])
        for s3, r in E.collect(ex2, s2):
            is_some = z3.is_bv_value(r.discr) and r.discr.as_long() == 1
            queries += 1
            if is_some != closing:
                viols.append({"key": "c08.client.request_started_after_goaway", "model": {"closing": closing},
                              "what": "check_peer_connection_closing does not refuse exactly when the closing flag is set"})
            elif closing:
                se = E.get_field(r, ("Some", 0))
                idx_rc = ex.enums.index_of("error::error::StreamError", "RemoteClosing")
                if not (z3.is_bv_value(se.discr) and se.discr.as_long() == idx_rc):
                    viols.append({"key": "c08.client.wrong_refusal", "model": {}, "what": "refusal is not StreamError::RemoteClosing"})
    samples.append({"part": "D", "paths": len(outs), "script_len": k})
    log(f"D client GOAWAY rules: {len(outs)} paths over scripts of {k} GOAWAY frames, {queries} property queries")
    return viols, {"paths": len(outs), "queries": queries + ex.queries + ex2.queries, "solver_s": ex.solver_s, "witness": wit,
                   "functions": sorted(ex.functions_used | ex2.functions_used)}


def check(L, tier, log, samples):
    t0 = time.time()
    viols = []
    stats = {"queries": 0, "solver_s": 0.0, "witness": {}, "functions": set(), "states": 0}
    for name, part in (("A", part_a), ("B", part_b), ("C", part_c), ("D", part_d)):
        v, s = part(L, tier, log, samples)
        viols += v
        stats["queries"] += s["queries"]
        stats["solver_s"] += s["solver_s"]
        stats["states"] += s["paths"]
        for k, w in s["witness"].items():
            stats["witness"][f"{name}.{k}"] = w
        stats["functions"] |= set(s["functions"])
    stats["functions"] = sorted(stats["functions"])
    stats["solver_s"] = round(stats["solver_s"], 2)
    stats["transitions"] = stats["queries"]
    stats["script_len"] = 3 if tier == "quick" else 4
    stats["wall_s"] = round(time.time() - t0, 1)
    return viols, stats


def replay_args(v):
    """Native replay (see /verif/replay/src/main.rs: c08_goaway <requests accepted before shutdown> <n>)."""
    if v["key"].startswith("c08.server_shutdown.announces"):
        n = min(int(v.get("model", {}).get("max_requests", 0)), 3)
        return ("c08_goaway", ["2", str(n)])
    if v["key"].startswith("c08.accept_line.") and v["key"].endswith(".accepted"):
        return ("c08_goaway", ["1", "1"])
    if v["key"].startswith("c08.client."):
        ids = v.get("model", {}).get("ids")
        if v["key"] == "c08.client.goaway_not_recorded" or not ids:
            # a limit that is not recorded shows when a later GOAWAY is compared with a stale one
            return ("c08_client_goaways", ["8,4,8"])
        return ("c08_client_goaways", [",".join(str(i) for i in ids)])
    if v["key"].startswith("c08.shutdown.") or v["key"].startswith("c08.accept_line.") or v["key"].startswith("c08.reject."):
        # two shutdowns with a decreasing id, then arrivals on every id around the line
        return ("c08_shutdown_sequence", ["2", "0"])
    return None


# native scenarios that exercise, against the real build, the behaviours this spec decides: on a tree where the spec finds no
# violation every one of them must NOT reproduce (a scenario that reproduces there means the spec misses something)
SCENARIOS = [('c08_goaway', ['1', '1']), ('c08_goaway', ['2', '0']), ('c08_shutdown_sequence', ['2', '0']), ('c08_client_goaways', ['8,4,8']), ('c08_client_goaways', ['8,4,4']), ('c08_client_goaways', ['0,4'])]
