"""C11 (encode side) — the static-table look-ups the QPACK encoder relies on are exact.

Analysed (MIR): qpack::static_::StaticTable::find (a 2000-block decision tree over lengths and bytes generated from the
`match` on byte-string patterns) and StaticTable::find_name, on a SYMBOLIC field: name and value are slices of symbolic
length whose bytes are materialised on demand. Every path of the tree is enumerated; z3 decides each length/byte test.
For every path that returns Some(j): the path condition must imply that the field IS row j of RFC 9204 Appendix A (the
independent copy in kani/src/qpack_static.rs): same name length and bytes, same value length and bytes — so a field is
only ever emitted as a static index (or static name reference) that an independent decoder turns back into the same
field; and every row of Appendix A must be found (find(row j) returns an index whose row equals row j).
Together with the decode side (Kani, C11) and the prefixed-integer codec (C15) this gives the round trip for static hits
and static name references of encode_stateless. Emission of literal strings (always Huffman-coded) is not covered.
"""
import os
import re
import time
import z3

from .. import engine as E
from .. import contracts as C
from ..sym import State, Cell, Obj, Ref, UNIT, Case, Inconclusive
from . import c08

VERIF = os.path.dirname(os.path.dirname(os.path.dirname(os.path.abspath(__file__))))


def load_static_table():
    """The independent Appendix A copy used by the Kani harnesses (kani/src/qpack_static.rs)."""
    src = open(os.path.join(VERIF, "kani", "src", "qpack_static.rs")).read()
    rows = re.findall(r'\(b"((?:[^"\\]|\\.)*)", b"((?:[^"\\]|\\.)*)"\),', src)
    if len(rows) != 99:
        raise Inconclusive(f"static table copy has {len(rows)} rows")
    return [(n.encode().decode("unicode_escape").encode("latin1"), v.encode().decode("unicode_escape").encode("latin1")) for n, v in rows]


def c_slice_identity(ex, st, key, argv, dest_ty, raw):
    return [Case(None, lambda ex, st, a: a[0])]


def c_cow_deref(ex, st, key, argv, dest_ty, raw):
    """<Cow<[u8]> as Deref>::deref: the bytes of the field, whichever variant holds them."""
    def ap(ex, st, a):
        cow = C.deref(a[0])
        return Ref(ex.field(cow, "bytes", 0, "[u8]"))
    return [Case(None, ap)]


def slice_terms(ex, sl, n):
    ln = ex.field(sl, "meta", 0, "usize").v
    return ln, [ex.field(sl, "elem", i, "u8").v for i in range(n)]


def equals(ex, sl, data):
    ln, bs = slice_terms(ex, sl, len(data))
    return z3.And([ln == z3.BitVecVal(len(data), 64)] + [b == z3.BitVecVal(c, 8) for b, c in zip(bs, data)])


def run_find(L, fn_pat, with_value, log):
    con = [
        (r"^Cow as Deref::deref$", c_cow_deref),
        (r"^\[u8\] as Index::index$", c_slice_identity),
    ] + c08.base_contracts()
    ex = E.make_executor(L, [], con, max_unroll=2, max_paths=200000)
    st = State()
    name_sl = Obj("[u8]")
    value_sl = Obj("[u8]")
    if with_value:
        field = Obj("qpack::field::HeaderField")
        cn = Obj("std::borrow::Cow<'_, [u8]>")
        cn.fields[("bytes", 0)] = Cell(name_sl)
        cv = Obj("std::borrow::Cow<'_, [u8]>")
        cv.fields[("bytes", 0)] = Cell(value_sl)
        field.fields[(None, 0)] = Cell(cn)
        field.fields[(None, 1)] = Cell(cv)
        args = [Ref(Cell(field))]
    else:
        args = [Ref(Cell(name_sl))]
    st.world["name"] = Cell(name_sl)
    st.world["value"] = Cell(value_sl)
    E.call(ex, st, fn_pat, args)
    outs = E.collect(ex, st)
    return ex, outs


def check(L, tier, log, samples):
    t0 = time.time()
    rows = load_static_table()
    viols = []
    queries = 0
    wit = {"find_some": False, "find_none": False, "find_name_some": False}
    fns = set()
    total_paths = 0
    # ---- find(field)
    ex, outs = run_find(L, r"static_::<impl[^>]*>::find$", True, log)
    fns |= ex.functions_used
    total_paths += len(outs)
    found_rows = set()
    for s, ret in outs:
        if not (isinstance(ret, Obj) and z3.is_bv_value(ret.discr)):
            raise Inconclusive("find: symbolic result")
        if ret.discr.as_long() == 0:
            wit["find_none"] = True
            continue
        wit["find_some"] = True
        j = E.get_field(ret, ("Some", 0))
        if not z3.is_bv_value(j):
            raise Inconclusive("find: symbolic index")
        j = j.as_long()
        name_sl, value_sl = s.world["name"].v, s.world["value"].v
        if j >= 99:
            viols.append({"key": "c11.encode.find.index_out_of_table", "what": f"find returns index {j}", "model": {"index": j}})
            continue
        queries += 1
        is_row = z3.And(equals(ex, name_sl, rows[j][0]), equals(ex, value_sl, rows[j][1]))
        m = ex.model(s, z3.Not(is_row))
        if m is not None:
            nl = m.eval(ex.field(name_sl, "meta", 0, "usize").v, True).as_long()
            vl = m.eval(ex.field(value_sl, "meta", 0, "usize").v, True).as_long()
            nb = bytes(m.eval(ex.field(name_sl, "elem", i, "u8").v, True).as_long() for i in range(min(nl, 64)))
            vb = bytes(m.eval(ex.field(value_sl, "elem", i, "u8").v, True).as_long() for i in range(min(vl, 64)))
            viols.append({"key": "c11.encode.find.returns_index_of_a_different_field",
                          "what": f"StaticTable::find maps a field to static index {j} although the field is not row {j} of RFC 9204 Appendix A: "
                                  f"the encoder would emit an index that every decoder turns into a different field",
                          "model": {"index": j, "input_name": nb.decode("latin1"), "input_value": vb.decode("latin1"),
                                    "row_name": rows[j][0].decode("latin1"), "row_value": rows[j][1].decode("latin1")}})
        else:
            found_rows.add(j)
    missing = [j for j in range(99) if j not in found_rows]
    # rows that share name+value with an earlier row cannot be returned; Appendix A has no duplicates
    if missing and not viols:
        viols.append({"key": "c11.encode.find.row_not_found", "what": f"rows {missing[:8]} of Appendix A are never returned by find "
                      "(such a field is still encoded correctly as a literal, but not 'exactly' as the table allows)", "model": {"rows": missing[:20]}})
    q1 = ex.queries
    # ---- find_name(name)
    ex2, outs2 = run_find(L, r"static_::<impl[^>]*>::find_name$", False, log)
    fns |= ex2.functions_used
    total_paths += len(outs2)
    for s, ret in outs2:
        if ret.discr.as_long() == 0:
            continue
        wit["find_name_some"] = True
        j = E.get_field(ret, ("Some", 0)).as_long()
        name_sl = s.world["name"].v
        queries += 1
        if j >= 99:
            viols.append({"key": "c11.encode.find_name.index_out_of_table", "what": f"find_name returns index {j}", "model": {"index": j}})
            continue
        m = ex2.model(s, z3.Not(equals(ex2, name_sl, rows[j][0])))
        if m is not None:
            nl = m.eval(ex2.field(name_sl, "meta", 0, "usize").v, True).as_long()
            nb = bytes(m.eval(ex2.field(name_sl, "elem", i, "u8").v, True).as_long() for i in range(min(nl, 64)))
            viols.append({"key": "c11.encode.find_name.returns_index_of_a_different_name",
                          "what": f"StaticTable::find_name maps a name to static index {j} whose row has a different name",
                          "model": {"index": j, "input_name": nb.decode("latin1"), "row_name": rows[j][0].decode("latin1")}})
    if len(samples) < 2:
        samples.append({"find_paths": len(outs), "find_name_paths": len(outs2), "rows_found_exactly": len(found_rows)})
    log(f"StaticTable::find: {len(outs)} paths ({len(found_rows)} rows returned exactly); find_name: {len(outs2)} paths; "
        f"{queries} property queries, {q1 + ex2.queries} feasibility queries")
    stats = {"states": total_paths, "transitions": q1 + ex2.queries + queries, "queries": q1 + ex2.queries + queries,
             "solver_s": round(ex.solver_s + ex2.solver_s, 2), "witness": wit, "functions": sorted(fns), "wall_s": round(time.time() - t0, 1)}
    return viols, stats


def replay_args(v):
    m = v.get("model", {})
    if v["key"] == "c11.encode.find.returns_index_of_a_different_field":
        return ("c11_static_find", [m["input_name"], m["input_value"]])
    if v["key"] == "c11.encode.find_name.returns_index_of_a_different_name":
        return ("c11_static_find", [m["input_name"], ""])
    return None


# native scenarios that exercise, against the real build, the behaviours this spec decides: on a tree where the spec finds no
# violation every one of them must NOT reproduce (a scenario that reproduces there means the spec misses something)
SCENARIOS = [('c11_static_find', ['content-type', 'text/plain; charset=utf-8']), ('c11_static_find', ['content-type', 'text/plain;charset=utf-8']), ('c11_static_find', [':method', 'GET'])]
