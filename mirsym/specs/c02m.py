"""C02 (stream part) — the incremental frame decoder never waits on, skips or re-reads a frame because of how the bytes
were chunked.

Analysed (MIR): frame::FrameDecoder::decode (27 blocks) with an ABSTRACT BUFFER: the buffered byte count is a symbolic
integer, the buffer's head is a symbolic script of up to 3 frames, each with a symbolic total size (>= 2) and a symbolic
verdict of Frame::decode (a known frame, an unknown frame to be skipped, or one of the six decoder errors). Contract for
Frame::decode on the cursor (proved for the real function by the Kani harnesses of C02, incl. the bound on the hint):
complete frame at the head (size <= buffered) -> its verdict and position = size; otherwise Incomplete(n) with n <= size.
Pre-state: the memo `expected` is arbitrary subject to the representation invariant 'Some(m) was recorded for the frame now
at the head, so m <= its size' — the post-state is checked to satisfy the same invariant (one inductive step covers every
chunking history). Decided by z3 on every path:
  * Ok(None) ('wait for more bytes') is returned only if nothing is buffered or the frame at the head is really incomplete;
  * a returned frame / error is the verdict of the first not-skipped complete frame, unknown frames before it were
    skipped in full (advance = their size), nothing after it was consumed;
  * the memo after the call satisfies the invariant again.
"""
import time
import z3

from .. import engine as E
from .. import contracts as C
from ..sym import State, Cell, Obj, Ref, UNIT, Case, Inconclusive
from . import c08

FRAME = "proto::frame::Frame<proto::frame::PayloadLen>"
FE = "proto::frame::FrameError"
VERDICTS = ["frame", "unknown", "Malformed", "UnsupportedFrame", "InvalidFrameValue", "Settings", "InvalidStreamId", "InvalidPushId"]


def head(st):
    return st.world["pos"]


def c_has_remaining(ex, st, key, argv, dest_ty, raw):
    return [Case(None, lambda ex, st, a: z3.UGT(st.world["buffered"], z3.BitVecVal(0, 64)))]


def c_remaining(ex, st, key, argv, dest_ty, raw):
    return [Case(None, lambda ex, st, a: st.world["buffered"])]


def c_frame_decode(nframes):
    def f(ex, st, key, argv, dest_ty, raw):
        j = head(st)
        buffered = st.world["buffered"]
        if j >= nframes:
            # beyond the script: an incomplete frame whose size is unknown but larger than what is buffered
            n = z3.BitVec(E.fresh("hint"), 64)

            def inc(ex, st, a):
                st.world["last_decode"] = ("incomplete", None)
                st.pc.append(z3.UGT(n, st.world["buffered"]))
                return ex.make_enum(dest_ty, "Err", [ex.make_enum(FE, "Incomplete", [n])])
            return [Case(None, inc)]
        size = st.world["sizes"][j]
        complete = z3.ULE(size, buffered)
        cases = []

        def mk(v):
            def ap(ex, st, a):
                st.world["last_decode"] = ("complete", v)
                st.world["cursor_pos"] = st.world["sizes"][head(st)]
                if v == "frame":
                    fr = Obj(FRAME)
                    fr.attrs["script_index"] = head(st)
                    return ex.make_enum(dest_ty, "Ok", [fr])
                if v == "unknown":
                    return ex.make_enum(dest_ty, "Err", [ex.make_enum(FE, "UnknownFrame", [z3.BitVec(E.fresh("ty"), 64)])])
                payload = [] if v in ("Malformed", "InvalidFrameValue") else [ex.fresh("u64", "p") if v == "UnsupportedFrame" else Obj("p")]
                return ex.make_enum(dest_ty, "Err", [ex.make_enum(FE, v, payload)])
            return ap
        for v in VERDICTS:
            cases.append(Case(z3.And(complete, st.world["verdict_is"][j][v]), mk(v)))
        n = z3.BitVec(E.fresh("hint"), 64)

        def inc(ex, st, a):
            st.world["last_decode"] = ("incomplete", n)
            st.world["cursor_pos"] = z3.BitVec(E.fresh("pos_after_incomplete"), 64)
            # Frame::decode's hint never exceeds the frame's total size (Kani: c02.*.incomplete_hint_within_frame)
            st.pc.append(z3.And(z3.ULE(n, st.world["sizes"][head(st)]), z3.UGE(n, z3.BitVecVal(1, 64))))
            return ex.make_enum(dest_ty, "Err", [ex.make_enum(FE, "Incomplete", [n])])
        cases.append(Case(z3.Not(complete), inc))
        return cases
    return f


def c_position(ex, st, key, argv, dest_ty, raw):
    return [Case(None, lambda ex, st, a: st.world["cursor_pos"])]


def c_advance(ex, st, key, argv, dest_ty, raw):
    def ap(ex, st, a):
        n = a[1]
        st.effects.append(("advance", head(st), n))
        st.world["buffered"] = st.world["buffered"] - n
        st.world["pos"] = head(st) + 1
        return UNIT
    return [Case(None, ap)]


def check(L, tier, log, samples):
    t0 = time.time()
    nframes = 2 if tier == "quick" else 3
    con = [
        (r"BufList as Buf::has_remaining$", c_has_remaining),
        (r"BufList as Buf::remaining$", c_remaining),
        (r"^BufList::cursor$", C.c_opaque),
        (r"^Frame::decode$", c_frame_decode(nframes)),
        (r"^buf::Cursor::position$", c_position),
        (r"BufList as Buf::advance$", c_advance),
    ] + c08.base_contracts()
    ex = E.make_executor(L, [], con, max_unroll=nframes + 2)
    st = State()
    sizes = [z3.BitVec(f"frame{j}_size", 64) for j in range(nframes)]
    buffered0 = z3.BitVec("buffered_bytes", 64)
    st.pc.append(z3.ULE(buffered0, z3.BitVecVal(1 << 40, 64)))
    verdict_is = []
    for j in range(nframes):
        st.pc.append(z3.And(z3.UGE(sizes[j], z3.BitVecVal(2, 64)), z3.ULE(sizes[j], z3.BitVecVal(1 << 32, 64))))
        sel = z3.BitVec(f"frame{j}_verdict", 8)
        st.pc.append(z3.ULT(sel, z3.BitVecVal(len(VERDICTS), 8)))
        verdict_is.append({v: sel == z3.BitVecVal(i, 8) for i, v in enumerate(VERDICTS)})
    st.world.update({"buffered": buffered0, "sizes": sizes, "verdict_is": verdict_is, "pos": 0})
    dec = Obj("frame::FrameDecoder")
    memo = Obj("std::option::Option<usize>")
    md = ex.discr_of(st, memo)
    m0 = z3.BitVec("memo_hint", 64)
    memo.fields[("Some", 0)] = Cell(m0)
    # representation invariant of the memo: recorded for the frame now at the head
    st.pc.append(z3.Implies(md == 1, z3.And(z3.ULE(m0, sizes[0]), z3.UGE(m0, z3.BitVecVal(1, 64)))))
    dec.fields[(None, 0)] = Cell(memo)
    st.world["dec"] = Cell(dec)
    E.call(ex, st, r"^frame::<impl at src/frame\.rs[^>]*>::decode$", [Ref(st.world["dec"]), Ref(Cell(Obj("buf::BufList<B>")))])
    outs = E.collect(ex, st)
    if ex.unroll_exceeded:
        raise Inconclusive("loop bound exceeded: " + repr(ex.unroll_exceeded[:3]))
    viols = []
    queries = 0
    wit = {"waits_on_incomplete_frame": False, "skips_unknown_then_returns_frame": False, "returns_error": False}

    def model_of(m, s):
        return {"buffered_bytes": m.eval(buffered0, True).as_long(), "memo": (m.eval(m0, True).as_long() if m.eval(md, True).as_long() == 1 else None),
                "frames": [{"size": m.eval(sizes[j], True).as_long(), "verdict": VERDICTS[m.eval(z3.BitVec(f"frame{j}_verdict", 8), True).as_long()]} for j in range(nframes)],
                "advances": [e[0] for e in s.effects]}
    for s, ret in outs:
        j = s.world["pos"]
        buffered = s.world["buffered"]
        adv = [e for e in s.effects if e[0] == "advance"]
        is_ok = z3.is_bv_value(ret.discr) and ret.discr.as_long() == 0
        opt = E.get_field(ret, ("Ok", 0)) if is_ok else None
        waits = is_ok and z3.is_bv_value(opt.discr) and opt.discr.as_long() == 0
        # every advance is a full frame, in order
        for (_, idx, n) in adv:
            queries += 1
            if idx >= nframes or ex.feasible(s, n != sizes[idx]):
                viols.append({"key": "c02.decoder.partial_or_excess_skip", "what": "the decoder consumed a number of bytes that is not the total size of the frame at the head", "model": {}})
        if waits:
            # allowed only if nothing is buffered or the head frame is incomplete
            head_complete = z3.And(z3.UGT(buffered, 0), z3.ULE(sizes[j], buffered)) if j < nframes else z3.BoolVal(False)
            queries += 1
            m = ex.model(s, head_complete)
            if m is not None:
                viols.append({"key": "c02.decoder.waits_although_frame_complete",
                              "what": "FrameDecoder::decode answers 'wait for more bytes' although a complete frame is buffered at the head "
                                      "(a stale size hint from an earlier, since skipped frame): the frame is only acted upon once more bytes arrive, or "
                                      "is reported as truncated if the stream ends", "model": model_of(m, s)})
            else:
                wit["waits_on_incomplete_frame"] = True
            # memo invariant after the call
            post = C.deref(s.world["dec"].v.fields[(None, 0)].v)
            pm = E.get_field(post, ("Some", 0))
            if post.discr is not None and pm is not None and j < nframes:
                queries += 1
                if ex.feasible(s, z3.And(post.discr == 1, z3.UGT(pm, sizes[j]))):
                    viols.append({"key": "c02.decoder.memo_invariant_broken", "what": "the size hint kept for the next call exceeds the size of the frame at the head", "model": {}})
        else:
            # a frame or an error: it is the verdict of frame j-1 (frame) / j (error), all earlier ones were unknown
            if is_ok:
                fr = E.get_field(opt, ("Some", 0))
                idx = fr.attrs.get("script_index")
                if idx is None or idx != len(adv) - 1:
                    viols.append({"key": "c02.decoder.wrong_frame_returned", "what": "the frame returned is not the first not-skipped frame", "model": {}})
                elif len(adv) >= 2:
                    wit["skips_unknown_then_returns_frame"] = True
                post = C.deref(s.world["dec"].v.fields[(None, 0)].v)
                if not (z3.is_bv_value(post.discr) and post.discr.as_long() == 0):
                    viols.append({"key": "c02.decoder.memo_not_reset_after_frame", "what": "the size hint is not cleared after a frame was returned", "model": {}})
            else:
                wit["returns_error"] = True
        if len(samples) < 3:
            samples.append({"advances": [e[1] for e in adv], "returns": "wait" if waits else ("frame" if is_ok else "error")})
    log(f"FrameDecoder::decode: {len(outs)} paths over scripts of {nframes} buffered frames, {queries} property queries, {ex.queries} feasibility queries")
    stats = {"states": len(outs), "transitions": ex.queries + queries, "queries": ex.queries + queries, "solver_s": round(ex.solver_s, 2),
             "witness": wit, "functions": sorted(ex.functions_used), "script_len": nframes, "wall_s": round(time.time() - t0, 1)}
    return viols, stats


def replay_args(v):
    if v["key"] in ("c02.decoder.waits_although_frame_complete", "c02.decoder.memo_invariant_broken"):
        return ("c02_decoder_memo", [])
    return None


# ------------------------------------------------------------------------------------------------
# FrameStream::poll_data — a DATA payload cut off by the end of the stream

def check_poll_data(L, tier, log, samples):
    """One call of FrameStream::poll_data from an arbitrary state (payload bytes still owed: symbolic, > 0, not the
    'no length' sentinel usize::MAX used for WebTransport streams), every outcome of the transport read (more data / end
    of stream / error / pending) and of the buffer (no chunk, a chunk of any length <= owed, more bytes behind it or not):
      * Ok(None) ('end of body') is returned only if no payload byte is owed any more;
      * once the end of the stream has been seen, nothing is buffered and payload is still owed, the result is
        Err(UnexpectedEnd) — never Ok(None), never Pending (the call would wait forever);
      * the owed count decreases by exactly the chunk handed out (checked subtraction never fails)."""
    FSE = "frame::FrameStreamError"

    def c_try_recv(ex, st, key, argv, dest_ty, raw):
        inner = C.payload_type(dest_ty, "Ready")

        def ok(end):
            def ap(ex, st, a):
                st.world["end"] = end
                return ex.make_enum(dest_ty, "Ready", [ex.make_enum(inner, "Ok", [z3.BoolVal(end)])])
            return ap

        def err(ex, st, a):
            st.world["end"] = "error"
            return ex.make_enum(dest_ty, "Ready", [ex.make_enum(inner, "Err", [ex.make_enum(FSE, "Quic", [Obj("quic::StreamErrorIncoming")])])])

        def pend(ex, st, a):
            st.world["end"] = "pending"
            return ex.make_enum(dest_ty, "Pending")
        return [Case(None, ok(True)), Case(z3.BoolVal(True), ok(False)), Case(z3.BoolVal(True), err), Case(z3.BoolVal(True), pend)]

    def c_take_chunk(ex, st, key, argv, dest_ty, raw):
        def none(ex, st, a):
            st.world["chunk"] = None
            return ex.make_enum(dest_ty, "None")

        def some(ex, st, a):
            n = z3.BitVec(E.fresh("chunk_len"), 64)
            st.pc.append(z3.And(z3.UGE(n, 1), z3.ULE(n, a[1])))      # take_chunk(max) never returns more than max, nor an empty chunk
            st.world["chunk"] = n
            b = Obj("bytes::Bytes")
            b.attrs["len"] = n
            return ex.make_enum(dest_ty, "Some", [b])
        return [Case(None, none), Case(z3.BoolVal(True), some)]

    def c_bytes_remaining(ex, st, key, argv, dest_ty, raw):
        return [Case(None, lambda ex, st, a: C.deref(a[0]).attrs["len"])]

    def c_buf_has_remaining(ex, st, key, argv, dest_ty, raw):
        b = z3.Bool(E.fresh("more_buffered"))

        def ap(ex, st, a):
            st.world["more_buffered"] = b
            return b
        return [Case(None, ap)]
    con = [
        (r"^FrameStream::try_recv$", c_try_recv),
        (r"^BufRecvStream::buf_mut$", C.c_opaque),
        (r"^BufList::take_chunk$", c_take_chunk),
        (r"^bytes::Bytes as Buf::remaining$", c_bytes_remaining),
        (r"BufList as Buf::has_remaining$", c_buf_has_remaining),
    ] + c08.base_contracts()
    ex = E.make_executor(L, [], con)
    st = State()
    owed = z3.BitVec("payload_bytes_owed", 64)
    st.pc.append(z3.And(z3.UGE(owed, 1), owed != z3.BitVecVal((1 << 64) - 1, 64)))
    fs = Obj("frame::FrameStream<S, B>")
    fs.fields[(None, 2)] = Cell(owed)
    st.world["fs"] = Cell(fs)
    E.call(ex, st, r"^frame::<impl[^>]*>::poll_data$", [Ref(st.world["fs"]), Ref(Cell(Obj("Context")))])
    outs = E.collect(ex, st)
    viols = []
    queries = 0
    wit = {"chunk_delivered": False, "truncated_reported": False, "pending_while_open": False}
    for s, ret in outs:
        if ret == ("panic",):
            viols.append({"key": "c02.poll_data.arithmetic_panic", "what": "poll_data can panic (checked subtraction)", "model": {}})
            continue
        end = s.world.get("end")
        chunk = s.world.get("chunk")
        post = s.world["fs"].v.fields[(None, 2)].v
        is_pending = z3.is_bv_value(ret.discr) and ret.discr.as_long() == 1
        res = None if is_pending else E.get_field(ret, ("Ready", 0))
        is_err = res is not None and res.discr.as_long() == 1
        ok_none = res is not None and not is_err and E.get_field(res, ("Ok", 0)).discr.as_long() == 0
        ok_some = res is not None and not is_err and not ok_none
        if ok_none:
            queries += 1
            m = ex.model(s, z3.UGT(post, 0))
            if m is not None:
                viols.append({"key": "c02.poll_data.end_of_body_reported_while_payload_owed",
                              "what": "poll_data reports the end of the body (Ok(None)) although payload bytes of the DATA frame are still owed: a DATA "
                                      "payload cut off by the end of the stream is accepted (and the next poll_next hits its assert!)",
                              "model": {"owed": m.eval(owed, True).as_long(), "transport": str(end), "chunk": None if chunk is None else m.eval(chunk, True).as_long()}})
        if end is True:
            nothing_left = z3.BoolVal(True) if chunk is None else z3.Not(s.world.get("more_buffered", z3.BoolVal(True)))
            still_owed = z3.UGT(post, 0) if not ok_some else z3.UGT(post, 0)
            if is_pending:
                viols.append({"key": "c02.poll_data.pending_after_end_of_stream", "what": "poll_data returns Pending although the stream has ended", "model": {}})
            if is_err:
                wit["truncated_reported"] = True
        if end is False and is_pending:
            wit["pending_while_open"] = True
        if ok_some:
            wit["chunk_delivered"] = True
            queries += 1
            if ex.feasible(s, post != owed - chunk):
                viols.append({"key": "c02.poll_data.owed_count_wrong", "what": "the owed payload count is not decreased by exactly the chunk handed out", "model": {}})
        if len(samples) < 5:
            samples.append({"poll_data": {"transport": str(end), "chunk": chunk is not None, "returns": "pending" if is_pending else ("err" if is_err else ("none" if ok_none else "chunk"))}})
    log(f"FrameStream::poll_data: {len(outs)} paths, {queries} property queries")
    return viols, {"states": len(outs), "queries": ex.queries + queries, "solver_s": ex.solver_s, "witness": wit, "functions": sorted(ex.functions_used)}


_check_decoder = check


def check(L, tier, log, samples):
    v1, s1 = _check_decoder(L, tier, log, samples)
    v2, s2 = check_poll_data(L, tier, log, samples)
    s1["states"] += s2["states"]
    s1["queries"] += s2["queries"]
    s1["transitions"] = s1["queries"]
    s1["solver_s"] = round(s1["solver_s"] + s2["solver_s"], 2)
    s1["witness"].update({"poll_data." + k: v for k, v in s2["witness"].items()})
    s1["functions"] = sorted(set(s1["functions"]) | set(s2["functions"]))
    return v1 + v2, s1


_replay_decoder = replay_args


def replay_args(v):
    if v["key"].startswith("c02.poll_data."):
        return ("c02_truncated_data", [])
    return _replay_decoder(v)


# ------------------------------------------------------------------------------------------------
# FrameStream::poll_next / try_recv — what the transport reports is what the caller gets

def check_poll_next(L, tier, log, samples):
    """One call of FrameStream::poll_next (with try_recv inlined) from the state 'no payload owed', for every outcome of
    the transport read (already ended; data arrived; end; each of the three stream errors; pending), of the incremental
    decoder (a frame, nothing decodable yet, a decoder error) and of the buffer (bytes left or not):
      * a transport error is returned as exactly that error (Err(Quic(e))) — a peer RESET is never turned into a frame
        error or a clean end, whatever is buffered (C07: stream-scoped faults stay stream-scoped);
      * a decoded frame / decoder error is returned as such; DATA records its length as owed, nothing else does;
      * nothing decodable + stream ended: Err(UnexpectedEnd) iff bytes are left over, Ok(None) otherwise; never Pending;
      * nothing decodable + stream open: Pending (after reading until the transport has nothing more)."""
    FSE = "frame::FrameStreamError"

    def c_is_eos(ex, st, key, argv, dest_ty, raw):
        def yes(ex, st, a):
            st.world.setdefault("reads", []).append("already_ended")
            return z3.BoolVal(True)
        return [Case(None, lambda ex, st, a: z3.BoolVal(False)), Case(z3.BoolVal(True), yes)]

    def c_poll_read(ex, st, key, argv, dest_ty, raw):
        inner = C.payload_type(dest_ty, "Ready")
        n = len([r for r in st.world.get("reads", []) if r == "data"])

        def ok(end):
            def ap(ex, st, a):
                st.world.setdefault("reads", []).append("end" if end else "data")
                return ex.make_enum(dest_ty, "Ready", [ex.make_enum(inner, "Ok", [z3.BoolVal(end)])])
            return ap

        def err(kind):
            def ap(ex, st, a):
                st.world.setdefault("reads", []).append("error:" + kind)
                e = ex.make_enum("quic::StreamErrorIncoming", kind, [z3.BitVec(E.fresh("code"), 64) if kind == "StreamTerminated" else Obj("x")])
                st.world["transport_error"] = e
                return ex.make_enum(dest_ty, "Ready", [ex.make_enum(inner, "Err", [e])])
            return ap

        def pend(ex, st, a):
            st.world.setdefault("reads", []).append("pending")
            return ex.make_enum(dest_ty, "Pending")
        cases = [Case(None, ok(True)), Case(z3.BoolVal(True), pend)] + [Case(z3.BoolVal(True), err(k)) for k in
                                                                          ("StreamTerminated", "ConnectionErrorIncoming", "Unknown")]
        if n < 1:
            cases.append(Case(z3.BoolVal(True), ok(False)))
        return cases

    def c_decode(ex, st, key, argv, dest_ty, raw):
        def none(ex, st, a):
            w = st.world
            nreads = len(w.get("reads", []))
            if w.get("reads_at_last_none") == nreads:
                # second 'nothing decodable yet' in a row without asking the transport in between: buffer and decoder are
                # unchanged, so the real (deterministic) decoder answers the same for ever - the poll never returns
                st.effects.append(("spin",))
                e = ex.make_enum(FSE, "Proto", [Obj("frame::FrameProtocolError")])
                return ex.make_enum(dest_ty, "Err", [e])        # leave the loop; the path is judged by the 'spin' effect
            w["reads_at_last_none"] = nreads
            w.setdefault("decodes", []).append("none")
            return ex.make_enum(dest_ty, "Ok", [ex.make_enum("Option<Frame>", "None")])

        def frame(kind):
            def ap(ex, st, a):
                st.world.setdefault("decodes", []).append(kind)
                if kind == "Data":
                    ln = z3.BitVec(E.fresh("data_len"), 64)
                    st.world["data_len"] = ln
                    pl = Obj("proto::frame::PayloadLen")
                    pl.fields[(None, 0)] = Cell(ln)
                    fr = ex.make_enum(FRAME, "Data", [pl])
                else:
                    fr = ex.make_enum(FRAME, kind, [Obj("payload")])
                return ex.make_enum(dest_ty, "Ok", [ex.make_enum("Option<Frame>", "Some", [fr])])
            return ap

        def err(ex, st, a):
            st.world.setdefault("decodes", []).append("error")
            e = ex.make_enum(FSE, "Proto", [Obj("frame::FrameProtocolError")])
            st.world["decode_error"] = e
            return ex.make_enum(dest_ty, "Err", [e])
        return [Case(None, none), Case(z3.BoolVal(True), err)] + [Case(z3.BoolVal(True), frame(k)) for k in ("Data", "Headers", "Goaway", "WebTransportStream")]

    def c_has_rem(ex, st, key, argv, dest_ty, raw):
        # what is buffered changes only when the transport delivers data: one symbolic byte count per number of data reads
        def ap(ex, st, a):
            n = len([r for r in st.world.get("reads", []) if r == "data"])
            cnt = z3.BitVec(f"buffered_after_{n}_reads", 64)
            b = cnt != 0
            st.world["bytes_left"] = b
            return cnt if key.endswith("::remaining") else b
        return [Case(None, ap)]
    con = [
        (r"^BufRecvStream::is_eos$", c_is_eos),
        (r"^BufRecvStream::poll_read$", c_poll_read),
        (r"^BufRecvStream::buf_mut$|^BufRecvStream::buf$", C.c_opaque),
        (r"^FrameDecoder::decode$", c_decode),
        (r"BufList as Buf::has_remaining$|^BufList::has_remaining$|BufList as Buf::remaining$", c_has_rem),
        (r"^Arguments::from_str$|^std::rt::panic_fmt$", C.c_opaque),
    ] + c08.base_contracts()
    inline = [(r"^FrameStream::try_recv$", r"^frame::<impl[^>]*>::try_recv$")]
    ex = E.make_executor(L, inline, con, max_unroll=3)
    st = State()
    fs = Obj("frame::FrameStream<S, B>")
    fs.fields[(None, 2)] = Cell(z3.BitVecVal(0, 64))
    st.world["fs"] = Cell(fs)
    E.call(ex, st, r"^frame::<impl[^>]*>::poll_next$", [Ref(st.world["fs"]), Ref(Cell(Obj("Context")))])
    outs = E.collect(ex, st)
    if ex.unroll_exceeded:
        raise Inconclusive("loop bound exceeded: " + repr(ex.unroll_exceeded[:3]))
    viols = []
    queries = 0
    wit = {"transport_error_returned": False, "frame_returned": False, "truncated_at_end": False, "clean_end": False, "pending": False}
    for s, ret in outs:
        if ret == ("panic",):
            continue   # the assert!(remaining_data == 0) cannot fire from this pre-state; other panics would show as effects
        reads = s.world.get("reads", [])
        decs = s.world.get("decodes", [])
        is_pending = z3.is_bv_value(ret.discr) and ret.discr.as_long() == 1
        res = None if is_pending else E.get_field(ret, ("Ready", 0))
        is_err = res is not None and res.discr.as_long() == 1
        err = E.get_field(res, ("Err", 0)) if is_err else None
        ok = E.get_field(res, ("Ok", 0)) if (res is not None and not is_err) else None
        ok_none = ok is not None and ok.discr.as_long() == 0
        te = s.world.get("transport_error")
        info = {"transport": reads, "decoder": decs, "returns": "Pending" if is_pending else ("Err" if is_err else ("None" if ok_none else "frame"))}
        if any(e[0] == "spin" for e in s.effects):
            viols.append({"key": "c06.poll_next.spins_without_reading",
                          "what": "poll_next goes round its loop again after the decoder said 'not enough bytes yet' WITHOUT asking the transport in between: "
                                  "nothing can change, the call never returns (late bytes, FIN, RESET and connection close are never seen)", "model": info})
            continue
        if te is not None:
            same = (is_err and z3.is_bv_value(err.discr) and ex.enums.name_of(FSE, err.discr.as_long()) == "Quic"
                    and E.get_field(err, ("Quic", 0)) is not None
                    and z3.is_bv_value(E.get_field(err, ("Quic", 0)).discr)
                    and E.get_field(err, ("Quic", 0)).discr.as_long() == te.discr.as_long())
            if not same:
                viols.append({"key": "c07.poll_next.transport_error_not_returned",
                              "what": "the transport reported a stream error (e.g. the peer's RESET) but poll_next does not return that error: it is turned "
                                      "into another outcome (a frame error is a CONNECTION error) depending on what happens to be buffered", "model": info})
            else:
                wit["transport_error_returned"] = True
            continue
        ended = any(r in ("end", "already_ended") for r in reads)
        last_dec = decs[-1] if decs else None
        if last_dec == "error":
            if not is_err:
                viols.append({"key": "c02.poll_next.decoder_error_lost", "what": "a decoder error is not returned", "model": info})
            continue
        if last_dec in ("Data", "Headers", "Goaway", "WebTransportStream"):
            if ok is None or ok_none:
                viols.append({"key": "c02.poll_next.decoded_frame_not_returned", "what": "a decoded frame is not returned by poll_next", "model": info})
                continue
            wit["frame_returned"] = True
            post = s.world["fs"].v.fields[(None, 2)].v
            queries += 1
            want = s.world["data_len"] if last_dec == "Data" else (z3.BitVecVal((1 << 64) - 1, 64) if last_dec == "WebTransportStream" else z3.BitVecVal(0, 64))
            if ex.feasible(s, post != want):
                viols.append({"key": "c02.poll_next.owed_payload_wrong", "what": f"after a {last_dec} frame the owed payload count is wrong", "model": info})
            continue
        # nothing decodable
        if ended:
            left = s.world.get("bytes_left")
            if is_pending:
                viols.append({"key": "c02.poll_next.pending_after_end_of_stream", "what": "poll_next returns Pending although the stream has ended", "model": info})
                continue
            if left is None:
                viols.append({"key": "c02.poll_next.end_without_buffer_check", "what": "at the end of the stream the leftover bytes are not examined", "model": info})
                continue
            unexpected = is_err and z3.is_bv_value(err.discr) and ex.enums.name_of(FSE, err.discr.as_long()) == "UnexpectedEnd"
            queries += 2
            if unexpected:
                wit["truncated_at_end"] = True
                if ex.feasible(s, z3.Not(left)):
                    viols.append({"key": "c02.poll_next.clean_end_reported_as_truncated", "what": "a stream that ends on a frame boundary is reported as truncated", "model": info})
            elif ok_none:
                wit["clean_end"] = True
                if ex.feasible(s, left):
                    viols.append({"key": "c02.poll_next.truncated_frame_accepted_at_end",
                                  "what": "the stream ended with bytes of an incomplete frame left over and poll_next reports a clean end", "model": info})
            else:
                viols.append({"key": "c02.poll_next.wrong_outcome_at_end", "what": "unexpected outcome at the end of the stream", "model": info})
        else:
            if is_pending:
                wit["pending"] = True
            else:
                viols.append({"key": "c02.poll_next.returns_without_frame_while_open", "what": "poll_next returns without a frame although the stream is still open", "model": info})
        if len(samples) < 8:
            samples.append({"poll_next": info})
    log(f"FrameStream::poll_next: {len(outs)} paths, {queries} property queries")
    return viols, {"states": len(outs), "queries": ex.queries + queries, "solver_s": ex.solver_s, "witness": wit, "functions": sorted(ex.functions_used)}


_check_two = check


def check(L, tier, log, samples):
    v1, s1 = _check_two(L, tier, log, samples)
    v2, s2 = check_poll_next(L, tier, log, samples)
    s1["states"] += s2["states"]
    s1["queries"] += s2["queries"]
    s1["transitions"] = s1["queries"]
    s1["solver_s"] = round(s1["solver_s"] + s2["solver_s"], 2)
    s1["witness"].update({"poll_next." + k: v for k, v in s2["witness"].items()})
    s1["functions"] = sorted(set(s1["functions"]) | set(s2["functions"]))
    return v1 + v2, s1


_replay_two = replay_args


def replay_args(v):
    if v["key"] == "c07.poll_next.transport_error_not_returned":
        return ("c07_reset_inside_frame", [])
    return _replay_two(v)


# ------------------------------------------------------------------------------------------------
# BufRecvStream::poll_read — the lowest layer: the transport's answer is passed on as it is

def check_poll_read(L, tier, log, samples):
    """One call of BufRecvStream::poll_read over every transport answer (pending, a chunk, end of stream, stream terminated
    with ANY code, connection error, unknown error): a chunk is appended to the buffer and Ok(false) returned; the end of
    the stream sets eos and returns Ok(true); EVERY error is returned as that very error - in particular a reset is never
    turned into a clean end of stream (which, inside a frame, the frame layer would turn into the connection error
    H3_FRAME_ERROR), whatever its code."""
    SEI = "quic::StreamErrorIncoming"

    def c_transport(ex, st, key, argv, dest_ty, raw):
        inner = C.payload_type(dest_ty, "Ready") or "std::result::Result<std::option::Option<<S as quic::RecvStream>::Buf>, quic::StreamErrorIncoming>"
        opt = C.payload_type(inner, "Ok") or "std::option::Option<<S as quic::RecvStream>::Buf>"

        def mk(kind):
            def ap(ex, st, a):
                st.world["transport"] = kind
                if kind == "pending":
                    return ex.make_enum(dest_ty, "Pending")
                if kind == "data":
                    ch = Obj("<S as quic::RecvStream>::Buf")
                    ch.attrs["tag"] = "transport_chunk"
                    return ex.make_enum(dest_ty, "Ready", [ex.make_enum(inner, "Ok", [ex.make_enum(opt, "Some", [ch])])])
                if kind == "fin":
                    return ex.make_enum(dest_ty, "Ready", [ex.make_enum(inner, "Ok", [ex.make_enum(opt, "None")])])
                if kind == "reset":
                    code = z3.BitVec("reset_code", 64)
                    e = ex.make_enum(SEI, "StreamTerminated", [code])
                elif kind == "conn":
                    e = ex.make_enum(SEI, "ConnectionErrorIncoming", [Obj("quic::ConnectionErrorIncoming")])
                else:
                    e = ex.make_enum(SEI, "Unknown", [Obj("Box<dyn Error>")])
                e.attrs["tag"] = "transport_error:" + kind
                return ex.make_enum(dest_ty, "Ready", [ex.make_enum(inner, "Err", [e])])
            return ap
        kinds = ("pending", "data", "fin", "reset", "conn", "unknown")
        return [Case(None if i == 0 else z3.BoolVal(True), mk(k)) for i, k in enumerate(kinds)]

    def c_push(ex, st, key, argv, dest_ty, raw):
        def ap(ex, st, a):
            st.effects.append(("push_bytes", C.deref(a[1]).attrs.get("tag") if isinstance(C.deref(a[1]), Obj) else None))
            return UNIT
        return [Case(None, ap)]

    def c_code_eq(ex, st, key, argv, dest_ty, raw):
        # `Code == u64` / `u64 == Code`: numeric comparison of the code's value
        def ap(ex, st, a):
            vals = []
            for x in a:
                x = C.deref(x)
                if isinstance(x, Obj):
                    x = E.get_field(x, (None, 0)) if E.get_field(x, (None, 0)) is not None else ex.field(x, None, 0, "u64").v
                vals.append(x)
            r = vals[0] == vals[1]
            return z3.Not(r) if key.endswith("::ne") else r
        return [Case(None, ap)]
    con = [
        (r"^S as RecvStream::poll_data$", c_transport),
        (r"^BufList::push_bytes$", c_push),
        (r"^Code as PartialEq::(eq|ne)$|^u64 as PartialEq::(eq|ne)$", c_code_eq),
    ] + c08.base_contracts()
    ex = E.make_executor(L, [], con)
    st = State()
    import re as _re
    fn = ex.find_fn(r"^stream::<impl[^>]*>::poll_read$ @@ ^&mut BufRecvStream")
    text = "\n".join(s_ for b in fn.blocks.values() for s_ in b.stmts)
    m = _re.search(r"\(\(\*_1\)\.(\d+): bool\)", text)
    brs = Obj("stream::BufRecvStream<S, B>")
    eos0 = z3.Bool("eos_before")
    eos_idx = int(m.group(1)) if m else None
    if eos_idx is not None:
        brs.fields[(None, eos_idx)] = Cell(eos0)
    st.world["brs"] = Cell(brs)
    E.call(ex, st, r"^stream::<impl[^>]*>::poll_read$ @@ ^&mut BufRecvStream", [Ref(st.world["brs"]), Ref(Cell(Obj("Context")))])
    outs = E.collect(ex, st)
    viols = []
    wit = {"chunk_buffered": False, "end_recorded": False, "reset_passed_on": False, "pending": False}
    queries = 0
    for s, ret in outs:
        if ret == ("panic",):
            viols.append({"key": "c07.poll_read.panic", "what": "BufRecvStream::poll_read can panic", "model": {}})
            continue
        t = s.world.get("transport")
        pend = ret.discr.as_long() == 1
        res = None if pend else E.get_field(ret, ("Ready", 0))
        pushes = [e for e in s.effects if e[0] == "push_bytes"]
        if t == "pending":
            if not pend or pushes:
                viols.append({"key": "c07.poll_read.answer_changed", "what": "the transport is pending but poll_read does not return Pending", "model": {}})
            else:
                wit["pending"] = True
            continue
        if pend:
            viols.append({"key": "c07.poll_read.answer_changed", "what": "poll_read returns Pending although the transport answered", "model": {"transport": t}})
            continue
        is_err = res.discr.as_long() == 1
        if t in ("reset", "conn", "unknown"):
            e = E.get_field(res, ("Err", 0)) if is_err else None
            if not is_err or not isinstance(e, Obj) or e.attrs.get("tag") != "transport_error:" + t or pushes:
                mm = ex.model(s, z3.BoolVal(True))
                code = mm.eval(z3.BitVec("reset_code", 64), True).as_long() if t == "reset" else None
                viols.append({"key": "c07.poll_read.stream_error_not_passed_on",
                              "what": "a transport stream error (e.g. the peer's reset) is not returned as that error by BufRecvStream::poll_read: "
                                      "a reset read as a clean end of stream makes the frame layer report a truncated frame, i.e. a connection error",
                              "model": {"transport": t, "reset_code": code}})
            elif t == "reset":
                queries += 1
                got = E.get_field(e, ("StreamTerminated", 0))
                if got is None or ex.feasible(s, got != z3.BitVec("reset_code", 64)):
                    viols.append({"key": "c07.poll_read.stream_error_not_passed_on", "what": "the reset code is changed", "model": {"transport": t}})
                else:
                    wit["reset_passed_on"] = True
            continue
        if is_err:
            viols.append({"key": "c07.poll_read.answer_changed", "what": "poll_read returns an error the transport did not report", "model": {"transport": t}})
            continue
        val = E.get_field(res, ("Ok", 0))
        if t == "data":
            queries += 1
            if pushes != [("push_bytes", "transport_chunk")] or ex.feasible(s, val):
                viols.append({"key": "c07.poll_read.answer_changed", "what": "a chunk from the transport is not buffered exactly once / is reported as the end", "model": {}})
            else:
                wit["chunk_buffered"] = True
        if t == "fin":
            post = s.world["brs"].v.fields[(None, eos_idx)].v if eos_idx is not None else None
            queries += 1
            if pushes or ex.feasible(s, z3.Not(val)) or post is None or ex.feasible(s, z3.Not(post)):
                viols.append({"key": "c07.poll_read.answer_changed", "what": "the end of the stream is not reported as Ok(true) with eos recorded", "model": {}})
            else:
                wit["end_recorded"] = True
    log(f"BufRecvStream::poll_read: {len(outs)} paths")
    return viols, {"states": len(outs), "queries": ex.queries + queries, "solver_s": ex.solver_s, "witness": wit, "functions": sorted(ex.functions_used)}


_check_three = check


def check(L, tier, log, samples):
    v1, s1 = _check_three(L, tier, log, samples)
    v2, s2 = check_poll_read(L, tier, log, samples)
    s1["states"] += s2["states"]
    s1["queries"] += s2["queries"]
    s1["transitions"] = s1["queries"]
    s1["solver_s"] = round(s1["solver_s"] + s2["solver_s"], 2)
    s1["witness"].update({"poll_read." + k: v for k, v in s2["witness"].items()})
    s1["functions"] = sorted(set(s1["functions"]) | set(s2["functions"]))
    return v1 + v2, s1


_replay_three = replay_args


def replay_args(v):
    if v["key"] == "c06.poll_next.spins_without_reading":
        return ("c06_poll_next_spin", [])
    if v["key"].startswith("c07.poll_read."):
        code = v.get("model", {}).get("reset_code")
        return ("c07_reset_inside_frame", [str(code)] if code is not None else [])
    return _replay_three(v)


# native scenarios that exercise, against the real build, the behaviours this spec decides: on a tree where the spec finds no
# violation every one of them must NOT reproduce (a scenario that reproduces there means the spec misses something)
SCENARIOS = [('c02_decoder_memo', []), ('c02_truncated_data', []), ('c07_reset_inside_frame', []), ('c07_reset_inside_frame', ['256']), ('c06_poll_next_spin', [])]
