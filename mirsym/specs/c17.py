"""C17 — the Quinn adapter (h3-quinn) moves bytes, identifiers and errors faithfully: the adapter's own logic.

Analysed: the MIR of the h3-quinn crate, regenerated from /repo's working tree (cargo +nightly rustc -p h3-quinn). Every call
into quinn is a contract (quinn objects only exist inside a live connection and cannot be constructed symbolically):
  E  error tables: convert_connection_error, convert_read_error_to_stream_error, convert_write_error_to_stream_error on a
     SYMBOLIC quinn error (every variant, arbitrary codes): application close -> ApplicationClose with the peer's code, timeout
     -> Timeout, reset / stop -> StreamTerminated with the peer's code, connection lost -> the converted connection error,
     everything else -> Undefined / Unknown carrying the original error. ReadError::IllegalOrderedRead is excluded (quinn
     returns it only after an unordered read, which the adapter never performs).
  W  writes: SendStream::poll_ready from a pending write of up to 4 bytes, quinn's poll_write answering at every call
     Pending / an error / any accepted count 1..=offered: each call is offered exactly the bytes from the current position
     (= sum of the counts accepted so far): nothing skipped, nothing repeated, in order; Ready(Ok) iff everything was
     accepted and then the write slot is empty; on Pending the remainder stays in the slot. send_data while a write is
     unfinished is refused with an internal connection error and leaves the pending write untouched; otherwise stored.
  I  identifiers: send_id / recv_id return quinn's id unchanged (no panic for ids < 2^62, quinn's own invariant);
     recv_id is called in EVERY state poll_data can leave the stream in - in particular after a read that returned Pending
     (the quinn stream then lives inside the boxed read future) - and must not panic; nor must stop_sending in that state.
Not covered (needs live quinn objects): that quinn delivers what it accepted, flow-control behaviour, datagrams, the
accept/open plumbing (BoxStream), 0-RTT flags.
"""
import re
import time
import z3

from .. import engine as E
from .. import contracts as C
from ..sym import State, Cell, Obj, Ref, UNIT, Case, Inconclusive
from . import c08

CEI = "h3::quic::ConnectionErrorIncoming"
SEI = "h3::quic::StreamErrorIncoming"
QCE = "quinn::ConnectionError"
MAX62 = (1 << 62) - 1


def bv(v, n=64):
    return z3.BitVecVal(v, n)


def c_varint_into(ex, st, key, argv, dest_ty, raw):
    def ap(ex, st, a):
        o = C.deref(a[0])
        return ex.field(o, None, 0, "u64").v if isinstance(o, Obj) else o
    return [Case(None, ap)]


def c_wrap(tag):
    def f(ex, st, key, argv, dest_ty, raw):
        def ap(ex, st, a):
            o = Obj(dest_ty or tag)
            o.attrs["wraps"] = a[0]
            return o
        return [Case(None, ap)]
    return f


def common():
    return [
        (r"^VarInt as Into::into$|^VarInt::into_inner$|^quinn::StreamId as Into::into$|^StreamId as Into::into$", c_varint_into),
        (r"^Arc::new$", c_wrap("Arc")), (r"^Box::new$", c_wrap("Box")),
        (r"^Arguments::from_str$", C.c_opaque),
        (r"ToString::to_string$", C.c_opaque),
    ] + c08.base_contracts()


def sym_conn_error(ex, st, name):
    e = Obj(QCE)
    e.origin = name
    return e


def judge_conn(ex, s, src, got, viols, where):
    """src: quinn::ConnectionError object (discriminant concrete on this path), got: ConnectionErrorIncoming"""
    sv = ex.enums.name_of(QCE, s_discr(ex, s, src))
    gv = ex.enums.name_of(CEI, s_discr(ex, s, got))
    if sv == "ApplicationClosed":
        ac = E.ensure_field(ex, src, ("ApplicationClosed", 0), "quinn_proto::ApplicationClose")
        vi = E.ensure_field(ex, ac, (None, 0), "quinn::VarInt")
        code = E.ensure_field(ex, vi, (None, 0), "u64")
        gcode = E.get_field(got, ("ApplicationClose", 0))
        if gv != "ApplicationClose" or code is None or gcode is None or ex.feasible(s, code != gcode):
            viols.append({"key": "c17.errors.application_close_code_not_preserved", "what": f"{where}: the peer's application close is not ApplicationClose with the peer's code", "model": {"got": gv}})
        return "app"
    if sv == "TimedOut":
        if gv != "Timeout":
            viols.append({"key": "c17.errors.timeout_not_timeout", "what": f"{where}: a quinn timeout is not reported as Timeout", "model": {"got": gv}})
        return "timeout"
    inner = E.get_field(got, ("Undefined", 0))
    orig = inner.attrs.get("wraps") if isinstance(inner, Obj) else None
    if gv != "Undefined" or orig is None or s_discr(ex, s, C.deref(orig)) != s_discr(ex, s, src):
        viols.append({"key": "c17.errors.other_connection_error_changed", "what": f"{where}: quinn::ConnectionError::{sv} is not passed on as Undefined(that error)", "model": {"got": gv}})
    return "other"


def s_discr(ex, s, o):
    d = z3.simplify(o.discr) if o.discr is not None else None
    if d is not None and z3.is_bv_value(d):
        return d.as_long()
    m = ex.model(s, z3.BoolVal(True))
    return m.eval(ex.discr_of(s, o), True).as_long()


def part_errors(L, log):
    viols = []
    wit = {"E.application_close": False, "E.timeout": False, "E.reset": False, "E.stopped": False, "E.connection_lost": False, "E.unknown": False}
    n = 0
    q = 0
    fns = set()
    # connection errors
    ex = E.make_executor(L, [], common())
    st = State()
    src = Obj(QCE)
    st.world["src"] = Cell(src)
    E.call(ex, st, r"^convert_connection_error$", [src])
    for s, ret in E.collect(ex, st):
        n += 1
        if ret == ("panic",):
            viols.append({"key": "c17.errors.panic", "what": "convert_connection_error can panic", "model": {}})
            continue
        k = judge_conn(ex, s, s.world["src"].v, ret, viols, "convert_connection_error")
        wit["E.application_close"] |= k == "app"
        wit["E.timeout"] |= k == "timeout"
    fns |= ex.functions_used
    q += ex.queries
    for fn_name, ety, code_variant, key in (("convert_read_error_to_stream_error", "quinn::ReadError", "Reset", "E.reset"),
                                            ("convert_write_error_to_stream_error", "quinn::WriteError", "Stopped", "E.stopped")):
        inline = [(r"^convert_connection_error$", r"^convert_connection_error$")]
        ex = E.make_executor(L, inline, common())
        st = State()
        src = Obj(ety)
        st.world["src"] = Cell(src)
        E.call(ex, st, "^" + fn_name + "$", [src])
        for s, ret in E.collect(ex, st):
            n += 1
            src = s.world["src"].v
            sv = ex.enums.name_of(ety, s_discr(ex, s, src))
            if ret == ("panic",):
                if sv != "IllegalOrderedRead":
                    viols.append({"key": "c17.errors.panic", "what": f"{fn_name} panics on {sv}", "model": {}})
                continue
            gv = ex.enums.name_of(SEI, s_discr(ex, s, ret))
            if sv == code_variant:
                vi = E.ensure_field(ex, src, (code_variant, 0), "quinn::VarInt")
                code = E.ensure_field(ex, vi, (None, 0), "u64")
                gcode = E.get_field(ret, ("StreamTerminated", 0))
                q += 1
                if gv != "StreamTerminated" or code is None or gcode is None or ex.feasible(s, code != gcode):
                    viols.append({"key": "c17.errors.stream_code_not_preserved", "what": f"{fn_name}: {sv}(code) is not StreamTerminated with the peer's code", "model": {"got": gv}})
                else:
                    wit[key] = True
            elif sv == "ConnectionLost":
                inner = E.get_field(ret, ("ConnectionErrorIncoming", 0))
                if gv != "ConnectionErrorIncoming" or inner is None:
                    viols.append({"key": "c17.errors.connection_lost_not_connection_error", "what": f"{fn_name}: ConnectionLost is not a connection error", "model": {"got": gv}})
                else:
                    judge_conn(ex, s, E.ensure_field(ex, src, ("ConnectionLost", 0), QCE), inner, viols, fn_name)
                    wit["E.connection_lost"] = True
            else:
                inner = E.get_field(ret, ("Unknown", 0))
                orig = None
                x = inner
                for _ in range(3):          # Box -> (unsize cast keeps the object) -> error
                    if isinstance(x, Obj) and "wraps" in x.attrs:
                        orig = x.attrs["wraps"]
                        break
                if gv != "Unknown" or orig is None or s_discr(ex, s, C.deref(orig)) != s_discr(ex, s, src):
                    viols.append({"key": "c17.errors.other_stream_error_changed", "what": f"{fn_name}: {sv} is not passed on as Unknown(that error)", "model": {"got": gv}})
                else:
                    wit["E.unknown"] = True
        fns |= ex.functions_used
        q += ex.queries
    log(f"E error tables: {n} paths")
    return fns, viols, n, q, wit


def part_writes(L, tier, log):
    total_max = 3 if tier == "quick" else 4
    viols = []
    wit = {"W.partial_writes_complete": False, "W.pending_keeps_remainder": False, "W.overlapping_write_refused": False, "W.write_accepted_when_idle": False}

    def c_has_remaining(ex, st, key, argv, dest_ty, raw):
        return [Case(None, lambda ex, st, a: z3.BoolVal(st.world["total"] - st.world["pos"] > 0))]

    def c_chunk(ex, st, key, argv, dest_ty, raw):
        # WriteBuf::chunk(): a non-empty prefix of what remains (header first, then payload: possibly shorter than the rest)
        w = st.world
        rest = w["total"] - w["pos"]

        def mk(k):
            def ap(ex, st, a):
                sl = Obj("[u8]")
                ex.field(sl, "meta", 0, "usize").v = bv(k)
                sl.attrs["from"] = st.world["pos"]
                sl.attrs["len"] = k
                return Ref(Cell(sl))
            return ap
        return [Case(None if i == 0 else z3.BoolVal(True), mk(k)) for i, k in enumerate(range(1, rest + 1))] or \
               [Case(None, lambda ex, st, a: Ref(Cell(Obj("[u8]"))))]

    def c_poll_write(ex, st, key, argv, dest_ty, raw):
        inner = C.payload_type(dest_ty, "Ready") or "Result<usize, quinn::WriteError>"
        sl = C.deref(argv[2])
        offered_from, offered_len = sl.attrs.get("from"), sl.attrs.get("len", 0)

        def pend(ex, st, a):
            st.effects.append(("poll_write", offered_from, offered_len, "pending"))
            return ex.make_enum(dest_ty, "Pending")

        def err(ex, st, a):
            st.effects.append(("poll_write", offered_from, offered_len, "error"))
            e = Obj("quinn::WriteError")
            return ex.make_enum(dest_ty, "Ready", [ex.make_enum(inner, "Err", [e])])

        def acc(k):
            def ap(ex, st, a):
                st.effects.append(("poll_write", offered_from, offered_len, k))
                return ex.make_enum(dest_ty, "Ready", [ex.make_enum(inner, "Ok", [bv(k)])])
            return ap
        cases = [Case(None, pend), Case(z3.BoolVal(True), err)]
        for k in range(1, offered_len + 1):
            cases.append(Case(z3.BoolVal(True), acc(k)))
        return cases

    def c_advance(ex, st, key, argv, dest_ty, raw):
        def ap(ex, st, a):
            n = z3.simplify(a[1])
            if not z3.is_bv_value(n):
                raise Inconclusive("advance by a symbolic amount")
            st.effects.append(("advance", st.world["pos"], n.as_long()))
            st.world["pos"] += n.as_long()
            return UNIT
        return [Case(None, ap)]
    con = [
        (r"WriteBuf as Buf::has_remaining$", c_has_remaining), (r"WriteBuf as Buf::chunk$", c_chunk), (r"WriteBuf as Buf::advance$", c_advance),
        (r"^quinn::SendStream::poll_write$|SendStream as AsyncWrite::poll_write$", c_poll_write),
        (r"^Pin::new$", C.c_identity),
    ] + common()
    inline = [(r"^convert_connection_error$", r"^convert_connection_error$")]
    n = 0
    fns = set()
    q = 0
    for total in range(0, total_max + 1):
        ex = E.make_executor(L, inline, con, max_unroll=total_max + 2, max_paths=200000)
        st = State()
        ss = Obj("SendStream<B>")
        wb = Obj("WriteBuf<B>")
        wb.attrs["tag"] = "pending_write"
        ss.fields[(None, 1)] = Cell(ex.make_enum("std::option::Option<WriteBuf<B>>", "Some", [wb]))
        st.world.update({"total": total, "pos": 0, "ss": Cell(ss)})
        E.call(ex, st, r"::poll_ready$ @@ ^&mut SendStream", [Ref(st.world["ss"]), Ref(Cell(Obj("Context")))])
        outs = E.collect(ex, st)
        if ex.unroll_exceeded:
            raise Inconclusive("loop bound exceeded: " + repr(ex.unroll_exceeded[:3]))
        for s, ret in outs:
            n += 1
            if ret == ("panic",):
                viols.append({"key": "c17.write.panic", "what": "SendStream::poll_ready can panic", "model": {}})
                continue
            writes = [e for e in s.effects if e[0] == "poll_write"]
            adv = [e for e in s.effects if e[0] == "advance"]
            # order / completeness: each offer starts where the accepted bytes end
            pos = 0
            bad = None
            for w_ in writes:
                if w_[1] != pos:
                    bad = ("offer starts at byte %s, %d bytes were accepted so far" % (w_[1], pos))
                    break
                if isinstance(w_[3], int):
                    pos += w_[3]
            if bad or sum(a[2] for a in adv) != pos:
                viols.append({"key": "c17.write.bytes_skipped_or_repeated",
                              "what": "poll_ready offers quinn bytes that do not start exactly after the bytes quinn has accepted (a partial write loses or repeats bytes)",
                              "model": {"total": total, "writes": [w_[1:] for w_ in writes], "detail": bad}})
                continue
            slot = s.world["ss"].v.fields[(None, 1)].v
            slot_some = z3.is_bv_value(slot.discr) and slot.discr.as_long() == 1
            ready_ok = ret.discr.as_long() == 0 and E.get_field(ret, ("Ready", 0)).discr.as_long() == 0
            if ready_ok:
                if pos != total or slot_some:
                    viols.append({"key": "c17.write.ready_before_complete", "what": "poll_ready reports Ready(Ok) before every byte was accepted, or keeps the finished write in its slot",
                                  "model": {"total": total, "accepted": pos}})
                elif len([w_ for w_ in writes if isinstance(w_[3], int)]) >= 2:
                    wit["W.partial_writes_complete"] = True
            elif ret.discr.as_long() == 1:
                if not slot_some or pos == total and total > 0:
                    viols.append({"key": "c17.write.remainder_lost_on_pending", "what": "poll_ready is Pending but the unfinished write is no longer in its slot", "model": {"total": total}})
                elif pos > 0:
                    wit["W.pending_keeps_remainder"] = True
        fns |= ex.functions_used
        q += ex.queries
    # send_data
    def c_into(ex, st, key, argv, dest_ty, raw):
        def ap(ex, st, a):
            o = Obj("WriteBuf<B>")
            o.attrs["tag"] = "new_write"
            return o
        return [Case(None, ap)]
    ex = E.make_executor(L, [], [(r"^D as Into::into$", c_into)] + common())
    for busy in (True, False):
        st = State()
        ss = Obj("SendStream<B>")
        if busy:
            wb = Obj("WriteBuf<B>")
            wb.attrs["tag"] = "pending_write"
            ss.fields[(None, 1)] = Cell(ex.make_enum("std::option::Option<WriteBuf<B>>", "Some", [wb]))
        else:
            ss.fields[(None, 1)] = Cell(ex.make_enum("std::option::Option<WriteBuf<B>>", "None"))
        st.world["ss"] = Cell(ss)
        E.call(ex, st, r"::send_data$ @@ ^&mut SendStream", [Ref(st.world["ss"]), Obj("D")])
        for s, ret in E.collect(ex, st):
            n += 1
            if ret == ("panic",):
                viols.append({"key": "c17.write.panic", "what": "SendStream::send_data can panic", "model": {}})
                continue
            slot = s.world["ss"].v.fields[(None, 1)].v
            held = E.get_field(slot, ("Some", 0))
            tag = held.attrs.get("tag") if isinstance(held, Obj) else None
            is_err = ret.discr.as_long() == 1
            if busy:
                e = E.get_field(ret, ("Err", 0)) if is_err else None
                kind = ex.enums.name_of(SEI, e.discr.as_long()) if e is not None and z3.is_bv_value(e.discr) else None
                if not is_err or tag != "pending_write":          # which error class reports the refusal is not part of the property
                    viols.append({"key": "c17.write.overlapping_write_not_refused",
                                  "what": "send_data while an earlier write is unfinished is not refused (or replaces / interleaves with the pending write)", "model": {"slot": tag}})
                else:
                    wit["W.overlapping_write_refused"] = True
            else:
                if is_err or tag != "new_write":
                    viols.append({"key": "c17.write.idle_write_not_accepted", "what": "send_data on an idle stream does not store the buffer", "model": {"slot": tag}})
                else:
                    wit["W.write_accepted_when_idle"] = True
    fns |= ex.functions_used
    q += ex.queries
    log(f"W writes: {n} paths (pending writes of 0..{total_max} bytes, every partial-write pattern)")
    return fns, viols, n, q, wit


def part_ids(L, log):
    viols = []
    wit = {"I.recv_id_after_pending_read": False, "I.recv_id_idle": False, "I.send_id": False, "I.deferred_stop_applied": False}
    qid = z3.BitVec("quinn_stream_id", 64)

    def c_quinn_id(ex, st, key, argv, dest_ty, raw):
        def ap(ex, st, a):
            o = Obj("quinn::StreamId")
            o.fields[(None, 0)] = Cell(qid)
            return o
        return [Case(None, ap)]

    def c_try_into(ex, st, key, argv, dest_ty, raw):
        # h3's TryFrom<u64> for StreamId (decided by the Kani harnesses of C16): Ok iff the value is below 2^62
        v = argv[0]

        def ok(ex, st, a):
            o = Obj("h3::quic::StreamId")
            o.fields[(None, 0)] = Cell(a[0])
            return ex.make_enum(dest_ty, "Ok", [o])
        return [Case(z3.ULE(v, bv(MAX62)), ok), Case(z3.UGT(v, bv(MAX62)), lambda ex, st, a: ex.make_enum(dest_ty, "Err", [Obj("InvalidStreamId")]))]

    def c_future_set(ex, st, key, argv, dest_ty, raw):
        def ap(ex, st, a):
            st.effects.append(("read_started",))
            st.world["future_holds_stream"] = True
            return UNIT
        return [Case(None, ap)]

    def c_future_poll(ex, st, key, argv, dest_ty, raw):
        def pend(ex, st, a):
            st.world["read"] = "pending"
            return ex.make_enum(dest_ty, "Pending")

        def done(kind):
            def ap(ex, st, a):
                st.world["read"] = kind
                st.world["future_holds_stream"] = False
                tup = Obj("(quinn::RecvStream, Result<Option<Chunk>, quinn::ReadError>)")
                qs = Obj("quinn::RecvStream")
                qs.attrs["tag"] = "the_quinn_stream"
                tup.fields[(None, 0)] = Cell(qs)
                rty = "std::result::Result<std::option::Option<quinn::Chunk>, quinn::ReadError>"
                if kind == "chunk":
                    r = ex.make_enum(rty, "Ok", [ex.make_enum("std::option::Option<quinn::Chunk>", "Some", [Obj("quinn::Chunk")])])
                elif kind == "fin":
                    r = ex.make_enum(rty, "Ok", [ex.make_enum("std::option::Option<quinn::Chunk>", "None")])
                else:
                    e = Obj("quinn::ReadError")
                    st.pc.append(ex.discr_of(st, e) != ex.enums.index_of("quinn::ReadError", "IllegalOrderedRead"))
                    r = ex.make_enum(rty, "Err", [e])
                tup.fields[(None, 1)] = Cell(r)
                return ex.make_enum(dest_ty, "Ready", [tup])
            return ap
        return [Case(None, pend)] + [Case(z3.BoolVal(True), done(k)) for k in ("chunk", "fin", "error")]

    def c_stop(ex, st, key, argv, dest_ty, raw):
        def ap(ex, st, a):
            st.effects.append(("quinn_stop", E.get_field(C.deref(a[1]), (None, 0)) if isinstance(C.deref(a[1]), Obj) else a[1]))
            return Obj(dest_ty or "Result<(), ClosedStream>")
        return [Case(None, ap)]

    def c_varint_from_u64(ex, st, key, argv, dest_ty, raw):
        v = argv[0]

        def ok(ex, st, a):
            o = Obj("quinn::VarInt")
            o.fields[(None, 0)] = Cell(a[0])
            return ex.make_enum(dest_ty, "Ok", [o])
        return [Case(z3.ULE(v, bv(MAX62)), ok), Case(z3.UGT(v, bv(MAX62)), lambda ex, st, a: ex.make_enum(dest_ty, "Err", [Obj("VarIntBoundsExceeded")]))]
    con = [
        (r"^quinn::RecvStream::id$|^quinn::SendStream::id$", c_quinn_id),
        (r"^u64 as TryInto::try_into$", c_try_into),
        (r"^ReusableBoxFuture::set$", c_future_set), (r"^ReusableBoxFuture::poll$", c_future_poll),
        (r"^quinn::RecvStream::stop$", c_stop), (r"^VarInt::from_u64$", c_varint_from_u64),
        (r"^quinn::RecvStream::is_0rtt$", lambda ex, st, key, argv, dest_ty, raw: [Case(None, lambda ex, st, a: z3.Bool("is_0rtt"))]),
        (r"^ReusableBoxFuture::new$", C.c_opaque),
    ] + common()
    inline = [(r"^convert_connection_error$", r"^convert_connection_error$")]
    ex = E.make_executor(L, inline, con)
    n = 0

    def fresh_recv():
        """the adapter's RecvStream as its own constructor builds it (RecvStream::new is executed, not assumed)"""
        st = State()
        st.pc.append(z3.ULE(qid, bv(MAX62)))           # quinn's own invariant on stream ids
        qs = Obj("quinn::RecvStream")
        qs.attrs["tag"] = "the_quinn_stream"
        E.call(ex, st, r"::new$ @@ ^quinn::RecvStream$", [qs])
        outs = E.collect(ex, st)
        if len(outs) != 1 or outs[0][1] == ("panic",):
            raise Inconclusive("RecvStream::new does not build exactly one state")
        s, rs = outs[0]
        s.world["rs"] = Cell(rs)
        return s

    def ask_id(s, label):
        nonlocal n
        s2 = s.clone()
        E.call(ex, s2, r"::recv_id$ @@ ^&RecvStream", [Ref(s2.world["rs"])])
        for s3, ret in E.collect(ex, s2):
            n += 1
            if ret == ("panic",):
                viols.append({"key": "c17.ids.recv_id_panics_while_read_pending" if label == "after_pending_read" else "c17.ids.recv_id_panics",
                              "what": "RecvStream::recv_id panics when it is asked while a read is pending: poll_data has moved the quinn stream into its boxed read "
                                      "future and recv_id unwraps the empty slot" if label == "after_pending_read" else f"recv_id panics ({label})",
                              "model": {"state": label, "panic": [e[1:3] for e in s3.effects if e[0] == "panic"][:1]}})
                continue
            got = E.get_field(ret, (None, 0))
            if got is None or ex.feasible(s3, got != qid):
                viols.append({"key": "c17.ids.recv_id_changes", "what": "recv_id does not return quinn's stream id", "model": {"state": label}})
            else:
                wit["I.recv_id_after_pending_read" if label == "after_pending_read" else "I.recv_id_idle"] = True

    st = fresh_recv()
    ask_id(st, "idle")
    # every state poll_data can leave the stream in
    E.call(ex, st, r"::poll_data$ @@ ^&mut RecvStream", [Ref(st.world["rs"]), Ref(Cell(Obj("Context")))])
    for s, ret in E.collect(ex, st):
        n += 1
        if ret == ("panic",):
            viols.append({"key": "c17.ids.poll_data_panics", "what": "RecvStream::poll_data can panic", "model": {"read": s.world.get("read")}})
            continue
        label = "after_pending_read" if s.world.get("read") == "pending" else "after_completed_read"
        ask_id(s, label)
        if s.world.get("read") == "pending":
            # stop_sending while the read is pending is deferred ...
            s2 = s.clone()
            code = z3.BitVec("stop_code", 64)
            s2.pc.append(z3.ULE(code, bv(MAX62)))
            E.call(ex, s2, r"::stop_sending$ @@ ^&mut RecvStream", [Ref(s2.world["rs"]), code])
            for s3, r3 in E.collect(ex, s2):
                n += 1
                if r3 == ("panic",):
                    viols.append({"key": "c17.ids.stop_sending_panics", "what": "stop_sending panics while a read is pending", "model": {}})
                    continue
                # ... and applied when the read completes
                E.call(ex, s3, r"::poll_data$ @@ ^&mut RecvStream", [Ref(s3.world["rs"]), Ref(Cell(Obj("Context")))])
                for s4, r4 in E.collect(ex, s3):
                    n += 1
                    if s4.world.get("read") in ("chunk", "fin", "error"):
                        stops = [e for e in s4.effects if e[0] == "quinn_stop"]
                        # (recorded, not judged: the property speaks of identifiers and errors, not of when a stop is applied)
                        if len(stops) == 1 and stops[0][1] is not None and not ex.feasible(s4, stops[0][1] != code):
                            wit["I.deferred_stop_applied"] = True
    # send side
    st = State()
    st.pc.append(z3.ULE(qid, bv(MAX62)))
    E.call(ex, st, r"::send_id$ @@ ^&SendStream", [Ref(Cell(Obj("SendStream<B>")))])
    for s, ret in E.collect(ex, st):
        n += 1
        got = None if ret == ("panic",) else E.get_field(ret, (None, 0))
        if got is None or ex.feasible(s, got != qid):
            viols.append({"key": "c17.ids.send_id_changes_or_panics", "what": "send_id does not return quinn's stream id", "model": {}})
        else:
            wit["I.send_id"] = True
    log(f"I identifiers: {n} paths")
    return ex.functions_used, viols, n, ex.queries, wit


def check(L_h3, tier, log, samples):
    t0 = time.time()
    L = E.Loaded("h3-quinn")
    log(f"MIR of h3-quinn regenerated from /repo in {L.dump_s:.1f}s: {len(L.fns)} functions")
    viols, fns, queries, states, wit = [], set(), 0, 0, {}
    for part in (part_errors, lambda L, log: part_writes(L, tier, log), part_ids):
        f, v, n, q, w = part(L, log)
        viols += v
        fns |= f
        queries += q
        states += n
        wit.update(w)
    samples.append({"parts": ["error tables", "write loop / send_data", "identifiers in every read state"], "paths": states})
    stats = {"states": states, "transitions": queries, "queries": queries, "solver_s": 0.0, "witness": wit,
             "functions": sorted(fns), "wall_s": round(time.time() - t0, 1)}
    return viols, stats


def replay_args(v):
    if v["key"].startswith("c17.ids.recv_id_panics"):
        return ("c17_recv_id_while_read_pending", [])
    if v["key"].startswith("c17.write."):
        return ("c17_partial_writes", [])
    return None


# native scenarios that exercise, against the real build, the behaviours this spec decides: on a tree where the spec finds no
# violation every one of them must NOT reproduce (a scenario that reproduces there means the spec misses something)
SCENARIOS = [('c17_recv_id_while_read_pending', []), ('c17_partial_writes', [])]
