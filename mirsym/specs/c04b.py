"""C04 / C19 (classification of incoming unidirectional streams) — ConnectionInner::poll_accept_recv.

Analysed (MIR, 103 blocks): one call from an ARBITRARY pre-state (control / QPACK encoder / QPACK decoder stream already
present or not, WebTransport enabled or not, 0..1 stream still waiting for its header) with the transport handing over 0..2
new streams (or a connection error), every outcome of AcceptRecvStream::poll_type per stream (pending, resolved, stream
ended before its header, transport connection error, internal error) and every stream type the header can resolve to
(control, push, encoder, decoder, WebTransport-uni, unknown). Decided on every path:
  * a second control / encoder / decoder stream - second with respect to the pre-state OR to a stream classified earlier in
    the same call - is the connection error H3_STREAM_CREATION_ERROR, and nothing else raises that error;
  * the first one of each kind is installed in its slot and raises nothing;
  * a stream of unknown type is never a connection error (that h3 aborts reading it with H3_STREAM_CREATION_ERROR is
    recorded as a witness, not demanded: RFC 9114 6.2 leaves 'abort or discard' to the implementation); a stream that
    ended or was reset before its header was complete is dropped silently;
  * a WebTransport unidirectional stream is handed on (with the session id from its header) if and only if WebTransport
    is enabled in the configuration, and is never a connection error;
  * Ok(()) is returned iff no connection error was raised; a resolved stream is taken out of the waiting list.
Contracts: Vec push / iter_mut().filter(is_some) / retain over an explicit list; poll_type and into_stream answer
arbitrarily (poll_type itself is decided by the stream-header spec c19_uni_stream_header).
"""
import re
import time
import z3

from .. import engine as E
from .. import contracts as C
from ..sym import State, Cell, Obj, Ref, UNIT, Case, Inconclusive
from . import c08

KINDS = ["Control", "Push", "Encoder", "Decoder", "WebTransportUni", "Unknown"]
ARS = "stream::AcceptedRecvStream<<C as quic::Connection<B>>::RecvStream, B>"
PTE = "stream::PollTypeError"


def locate(fn):
    text = "\n".join(s_ for b in fn.blocks.values() for s_ in b.stmts + [b.term or ""])
    def one(rx, what, optional=False):
        m = re.search(rx, text)
        if not m:
            if optional:
                return None
            raise Inconclusive("poll_accept_recv: cannot locate " + what)
        return [int(g) for g in m.groups()]
    return {
        "pending": one(r"\(\(\*_1\)\.(\d+): std::vec::Vec<std::option::Option<stream::AcceptRecvStream<", "pending_recv_streams")[0],
        "control": one(r"\(\(\*_1\)\.(\d+): std::option::Option<frame::FrameStream<", "control_recv")[0],
        # the LOCAL configuration flag; if the code does not read it at all it stays an unconstrained variable of the property
        "wt": one(r"\(\(\(\*_1\)\.(\d+): config::Config\)\.(\d+): config::Settings\)\.(\d+): bool\)", "enable_webtransport", optional=True),
        "qpack": one(r"\(\(\*_1\)\.(\d+): connection::QpackStreams<C, B>\)\.\d+: std::option::Option<stream::AcceptedRecvStream<", "qpack_streams")[0],
    }


def check(L, tier, log, samples):
    t0 = time.time()
    max_new = 2
    con = []

    def c_transport_accept(ex, st, key, argv, dest_ty, raw):
        w = st.world
        inner = C.payload_type(dest_ty, "Ready") or "Result<?, ?>"

        def pend(ex, st, a):
            return ex.make_enum(dest_ty, "Pending")

        def new(ex, st, a):
            s = Obj("<C as quic::Connection<B>>::RecvStream")
            s.attrs["tag"] = "new%d" % st.world["accepted"]
            st.world["accepted"] += 1
            return ex.make_enum(dest_ty, "Ready", [ex.make_enum(inner, "Ok", [s])])

        def err(ex, st, a):
            st.world["transport_error"] = True
            return ex.make_enum(dest_ty, "Ready", [ex.make_enum(inner, "Err", [Obj("quic::ConnectionErrorIncoming")])])
        cases = [Case(None, pend), Case(z3.BoolVal(True), err)]
        if w["accepted"] < max_new:
            cases.append(Case(z3.BoolVal(True), new))
        return cases

    def c_ars_new(ex, st, key, argv, dest_ty, raw):
        def ap(ex, st, a):
            o = Obj(dest_ty or "stream::AcceptRecvStream")
            o.attrs["tag"] = a[0].attrs.get("tag") if isinstance(a[0], Obj) else "?"
            return o
        return [Case(None, ap)]

    def c_vec_push(ex, st, key, argv, dest_ty, raw):
        def ap(ex, st, a):
            item = a[1]
            if isinstance(item, Obj) and item.ty.startswith("("):
                # (SessionId, BufRecvStream) onto accepted_streams.wt_uni_streams
                sid = E.get_field(item, (None, 0))
                s = E.get_field(item, (None, 1))
                st.effects.append(("wt_surfaced", s.attrs.get("tag") if isinstance(s, Obj) else None, sid))
            else:
                st.world["pending"].append(Cell(item))
            return UNIT
        return [Case(None, ap)]

    def c_iter_setup(ex, st, key, argv, dest_ty, raw):
        def ap(ex, st, a):
            st.world["it"] = 0
            return Obj(dest_ty or "iter")
        return [Case(None, ap)]

    def c_filter_next(ex, st, key, argv, dest_ty, raw):
        def ap(ex, st, a):
            w = st.world
            while w["it"] < len(w["pending"]):
                cell = w["pending"][w["it"]]
                w["it"] += 1
                o = cell.v
                if isinstance(o, Obj) and z3.is_bv_value(o.discr) and o.discr.as_long() == 1:   # filter(|s| s.is_some())
                    w["visited"].append(w["it"] - 1)
                    return ex.make_enum(dest_ty, "Some", [Ref(cell)])
            return ex.make_enum(dest_ty, "None")
        return [Case(None, ap)]

    def c_poll_type(ex, st, key, argv, dest_ty, raw):
        inner = C.payload_type(dest_ty, "Ready") or "std::result::Result<(), stream::PollTypeError>"

        def mk(kind):
            def ap(ex, st, a):
                tag = C.deref(a[0]).attrs.get("tag")
                st.world["poll_type"].append((tag, kind))
                if kind == "pending":
                    return ex.make_enum(dest_ty, "Pending")
                if kind == "resolved":
                    return ex.make_enum(dest_ty, "Ready", [ex.make_enum(inner, "Ok", [UNIT])])
                payload = [] if kind == "EndOfStream" else [Obj("err:" + kind)]
                return ex.make_enum(dest_ty, "Ready", [ex.make_enum(inner, "Err", [ex.make_enum(PTE, kind, payload)])])
            return ap
        kinds = ["pending", "resolved", "EndOfStream", "IncomingError", "InternalError"]
        return [Case(None if i == 0 else z3.BoolVal(True), mk(k)) for i, k in enumerate(kinds)]

    def c_into_stream(ex, st, key, argv, dest_ty, raw):
        def mk(kind):
            def ap(ex, st, a):
                tag = a[0].attrs.get("tag") if isinstance(a[0], Obj) else None
                st.world["classified"].append((tag, kind))
                s = Obj("stream of " + kind)
                s.attrs["tag"] = tag
                if kind == "WebTransportUni":
                    sid = Obj("webtransport::session_id::SessionId")
                    sid.attrs["tag"] = "session_id_of_" + str(tag)
                    o = ex.make_enum(ARS, kind, [sid, s])
                else:
                    o = ex.make_enum(ARS, kind, [s])
                o.attrs["tag"] = tag
                o.attrs["kind"] = kind
                return o
            return ap
        return [Case(None if i == 0 else z3.BoolVal(True), mk(k)) for i, k in enumerate(KINDS)]

    def c_stop_sending(ex, st, key, argv, dest_ty, raw):
        def ap(ex, st, a):
            st.effects.append(("stop_sending", C.deref(a[0]).attrs.get("tag"), a[1]))
            return UNIT
        return [Case(None, ap)]

    def c_pce(ex, st, key, argv, dest_ty, raw):
        return [Case(None, lambda ex, st, a: ex.make_enum(dest_ty, "Pending"))]

    def c_retain(ex, st, key, argv, dest_ty, raw):
        def ap(ex, st, a):
            st.effects.append(("retain",))
            st.world["pending"] = [c for c in st.world["pending"] if isinstance(c.v, Obj) and z3.is_bv_value(c.v.discr) and c.v.discr.as_long() == 1]
            return UNIT
        return [Case(None, ap)]
    con = [
        (r"poll_connection_error$", c_pce),
        (r"^C as quic::Connection::poll_accept_recv$", c_transport_accept),
        (r"^AcceptRecvStream::new$", c_ars_new),
        (r"^Vec::push$", c_vec_push),
        (r"^Vec as DerefMut::deref_mut$", C.c_opaque),
        (r"iter_mut$|as Iterator::filter$|Filter as IntoIterator::into_iter$", c_iter_setup),
        (r"Filter as Iterator::next$", c_filter_next),
        (r"^AcceptRecvStream::poll_type$", c_poll_type),
        (r"^AcceptRecvStream::into_stream$", c_into_stream),
        (r"BufRecvStream as RecvStream::stop_sending$", c_stop_sending),
        (r"^Vec::retain$", c_retain),
        (r"ToString::to_string$", C.c_opaque),
        # the PEER's settings (shared state): arbitrary, unrelated to the local configuration
        (r"as ConnectionState::settings$|^SharedState::settings$|ConnectionState::settings$", lambda ex, st, key, argv, dest_ty, raw:
            [Case(None, lambda ex, st, a: Obj("std::borrow::Cow<'_, config::Settings>(peer)"))]),
        (r"^Cow as Deref::deref$", lambda ex, st, key, argv, dest_ty, raw:
            [Case(None, lambda ex, st, a: Ref(C.deref(a[0]).attrs.setdefault("inner", Cell(Obj("config::Settings(peer)")))))]),
    ] + c08.base_contracts()
    inline = c08.INLINE_COMMON + [(r"^Settings::enable_webtransport$|^config::Settings::enable_webtransport$", r"config::<impl[^>]*>::enable_webtransport$")]
    ex = E.make_executor(L, inline, con, max_unroll=6, max_paths=400000)
    fn = ex.find_fn(r"^connection::<impl[^>]*>::poll_accept_recv$")
    loc = locate(fn)
    st = State()
    inner = Obj("connection::ConnectionInner<C, B>")
    # arbitrary pre-state
    pre = {}
    ctrl = Obj("std::option::Option<frame::FrameStream<<C as quic::Connection<B>>::RecvStream, B>>")
    pre["control"] = ex.discr_of(st, ctrl) == 1
    inner.fields[(None, loc["control"])] = Cell(ctrl)
    wt = z3.Bool("enable_webtransport")
    if loc["wt"] is not None:
        cfg = Obj("config::Config")
        sett = Obj("config::Settings")
        sett.fields[(None, loc["wt"][2])] = Cell(wt)
        cfg.fields[(None, loc["wt"][1])] = Cell(sett)
        inner.fields[(None, loc["wt"][0])] = Cell(cfg)
    # QPACK slots: field order read from the struct definition in /repo
    src = open("/repo/h3/src/connection.rs").read()
    m = re.search(r"struct QpackStreams<[^{]*\{([^}]*)\}", src)
    if not m:
        raise Inconclusive("cannot read struct QpackStreams from connection.rs")
    names = re.findall(r"^\s*(?:pub(?:\([^)]*\))?\s+)?(\w+)\s*:[^:]", re.sub(r"//[^\n]*", "", m.group(1)), re.M)
    if "encoder_recv" not in names or "decoder_recv" not in names:
        raise Inconclusive("QpackStreams has no encoder_recv/decoder_recv: " + repr(names))
    qp = Obj("connection::QpackStreams<C, B>")
    for slot in ("encoder_recv", "decoder_recv"):
        o = Obj("std::option::Option<" + ARS + ">")
        pre[{"encoder_recv": "Encoder", "decoder_recv": "Decoder"}[slot]] = ex.discr_of(st, o) == 1
        qp.fields[(None, names.index(slot))] = Cell(o)
    inner.fields[(None, loc["qpack"])] = Cell(qp)
    pre["Control"] = pre["control"]
    st.world.update({"accepted": 0, "pending": [], "it": 0, "visited": [], "poll_type": [], "classified": [], "inner": Cell(inner)})
    outs_all = []
    wit = {"duplicate_control_refused": False, "duplicate_within_one_call_refused": False, "unknown_stopped": False,
           "wt_surfaced": False, "wt_ignored_when_disabled": False, "ended_before_header_dropped": False, "first_control_installed": False,
           "duplicate_qpack_stream_refused": False}
    viols = []
    queries = 0
    creation = E.code_value(L.consts, "H3_STREAM_CREATION_ERROR")
    for waiting in (0, 1):
        s0 = st.clone()
        for i in range(waiting):
            o = Obj("stream::AcceptRecvStream")
            o.attrs["tag"] = "old%d" % i
            s0.world["pending"].append(Cell(ex.make_enum("std::option::Option<stream::AcceptRecvStream>", "Some", [o])))
        E.call(ex, s0, r"^connection::<impl[^>]*>::poll_accept_recv$", [Ref(s0.world["inner"]), Ref(Cell(Obj("Context")))])
        outs = E.collect(ex, s0)
        if ex.unroll_exceeded:
            raise Inconclusive("loop bound exceeded: " + repr(ex.unroll_exceeded[:3]))
        outs_all += outs
    qp_idx = loc["qpack"]
    for s, ret in outs_all:
        if ret == ("panic",):
            viols.append({"key": "c04.accept_recv.panic", "what": "poll_accept_recv can panic", "model": {"effects": [e for e in s.effects if e[0] == "panic"][:2]}})
            continue
        ok = z3.is_bv_value(ret.discr) and ret.discr.as_long() == 0
        errs = [e for e in s.effects if e[0] == "connection_error"]
        classified = s.world["classified"]
        # replay the classification against the property's rules
        inner_post = s.world["inner"].v
        qp = inner_post.fields.get((None, qp_idx))
        # pre-state of the qpack slots: their discriminants were materialised lazily by Option::replace -> read from origin
        have = {"Control": pre["control"], "Encoder": None, "Decoder": None}
        expected_error = None
        dup_in_call = False
        seen_kinds = []
        for tag, kind in classified:
            if kind in ("Control", "Encoder", "Decoder"):
                if kind in seen_kinds:
                    expected_error = (tag, kind, "same call")
                    dup_in_call = True
                    break
                seen_kinds.append(kind)
        stops = [e for e in s.effects if e[0] == "stop_sending"]
        surf = [e for e in s.effects if e[0] == "wt_surfaced"]
        internal = [e for e in errs if isinstance(C.deref(e[1]), Obj) and "InternalConnectionError" in C.deref(e[1]).ty or (isinstance(C.deref(e[1]), Obj) and E.get_field(C.deref(e[1]), (None, 0)) is not None)]
        creation_errs = []
        for e in errs:
            o = C.deref(e[1])
            code = E.get_field(o, (None, 0), (None, 0)) if isinstance(o, Obj) else None
            if code is not None and not ex.feasible(s, code != creation):
                creation_errs.append(e)
        last = classified[-1] if classified else None
        # 1. a creation error is raised only for a duplicate critical stream, and for every duplicate within the call
        if creation_errs:
            if last is not None and last[1] == "Push":
                pass        # RFC 9114 6.2.2 lets (for a server: obliges) an endpoint refuse a push stream; the property is silent
            elif last is None or last[1] not in ("Control", "Encoder", "Decoder"):
                viols.append({"key": "c04.accept_recv.creation_error_for_other_stream",
                              "what": "H3_STREAM_CREATION_ERROR is raised for a stream that is not a duplicate control/encoder/decoder stream",
                              "model": {"classified": classified}})
            else:
                kind = last[1]
                earlier = any(k == kind for _, k in classified[:-1])
                if earlier:
                    wit["duplicate_within_one_call_refused"] = True
                else:
                    queries += 1
                    if ex.feasible(s, z3.Not(pre[kind])):
                        viols.append({"key": "c04.accept_recv.first_critical_stream_refused", "what": f"the first {kind} stream is refused as a duplicate", "model": {}})
                    else:
                        wit["duplicate_control_refused" if kind == "Control" else "duplicate_qpack_stream_refused"] = True
            if ok:
                viols.append({"key": "c04.accept_recv.error_not_returned", "what": "a connection error is raised but Ok(()) returned", "model": {}})
        else:
            if dup_in_call and not errs:
                viols.append({"key": "c04.accept_recv.duplicate_critical_stream_accepted",
                              "what": "a second control / QPACK encoder / QPACK decoder stream in one call does not raise H3_STREAM_CREATION_ERROR",
                              "model": {"classified": classified}})
            for tag, kind in classified:
                if kind in ("Control", "Encoder", "Decoder") and not errs:
                    queries += 1
                    if ex.feasible(s, pre[kind]):
                        viols.append({"key": "c04.accept_recv.duplicate_critical_stream_accepted",
                                      "what": f"a {kind} stream is accepted although one is already installed", "model": {"classified": classified}})
                    elif kind == "Control":
                        wit["first_control_installed"] = True
        # 2. unknown streams: stop_sending(H3_STREAM_CREATION_ERROR), never a connection error
        for tag, kind in classified:
            if kind == "Unknown":
                # the property: never a connection error (checked below). Whether reading is aborted (and with which code) or
                # the data is discarded is the implementation's choice (RFC 9114 6.2): recorded, not judged
                if [e for e in stops if e[1] == tag]:
                    wit["unknown_stopped"] = True
            if kind in ("Unknown", "WebTransportUni") and last == (tag, kind) and errs and not s.world.get("transport_error") \
                    and not any(k in ("IncomingError", "InternalError") for _, k in s.world["poll_type"]):
                viols.append({"key": "c04.accept_recv.connection_error_for_harmless_stream",
                              "what": f"a {kind} stream raises a connection error", "model": {"classified": classified}})
            if kind == "WebTransportUni":
                mine = [e for e in surf if e[1] == tag]
                queries += 1
                if mine:
                    wit["wt_surfaced"] = True
                    sid = mine[0][2]
                    if ex.feasible(s, z3.Not(wt)):
                        viols.append({"key": "c19.gating.webtransport_stream_surfaced_while_disabled",
                                      "what": "a WebTransport unidirectional stream is handed on although WebTransport is not enabled", "model": {}})
                    if not (isinstance(sid, Obj) and sid.attrs.get("tag") == "session_id_of_" + str(tag)) or len(mine) != 1:
                        viols.append({"key": "c19.gating.surfaced_with_other_session_id", "what": "the stream is handed on with a session id other than the one in its header", "model": {}})
                else:
                    if ex.feasible(s, wt) and not (errs and last != (tag, kind)):
                        # not surfaced although enabled (and the call did not abort before reaching it)
                        viols.append({"key": "c19.gating.webtransport_stream_not_surfaced",
                                      "what": "a WebTransport unidirectional stream is not handed on although WebTransport is enabled", "model": {}})
                    else:
                        wit["wt_ignored_when_disabled"] = True
        # 3. streams that ended before their header: dropped silently
        for tag, k in s.world["poll_type"]:
            if k == "EndOfStream":
                wit["ended_before_header_dropped"] = True
                if any(c[0] == tag for c in classified):
                    viols.append({"key": "c04.accept_recv.ended_stream_classified", "what": "a stream that ended before its header is classified", "model": {}})
        harmless_only = (not s.world.get("transport_error") and not any(k in ("IncomingError", "InternalError") for _, k in s.world["poll_type"]) and not creation_errs
                         and not any(k == "Push" for _, k in classified))
        if harmless_only and (errs or not ok):
            viols.append({"key": "c04.accept_recv.connection_error_without_cause",
                          "what": "a connection error / Err is produced although no duplicate critical stream and no transport error occurred",
                          "model": {"classified": classified, "poll_type": s.world["poll_type"]}})
        if not errs and not ok:
            viols.append({"key": "c04.accept_recv.err_without_error", "what": "Err returned without raising a connection error", "model": {}})
    log(f"poll_accept_recv: {len(outs_all)} paths")
    samples.append({"paths": len(outs_all), "example": [s.world["classified"] for s, _ in outs_all[:3]]})
    stats = {"states": len(outs_all), "transitions": queries + ex.queries, "queries": queries + ex.queries, "solver_s": round(ex.solver_s, 2),
             "witness": wit, "functions": sorted(ex.functions_used), "wall_s": round(time.time() - t0, 1)}
    return viols, stats


def replay_args(v):
    k = v["key"]
    if k.startswith("c19.gating."):
        return ("c04_uni_streams", ["wt"])
    if "duplicate" in k or "creation_error" in k or "first_c" in k:
        return ("c04_uni_streams", ["duplicates"])
    if "unknown" in k or "harmless" in k or "without_cause" in k:
        return ("c04_uni_streams", ["unknown"])
    return None


# native scenarios that exercise, against the real build, the behaviours this spec decides: on a tree where the spec finds no
# violation every one of them must NOT reproduce (a scenario that reproduces there means the spec misses something)
SCENARIOS = [('c04_uni_streams', ['duplicates']), ('c04_uni_streams', ['unknown']), ('c04_uni_streams', ['wt'])]
