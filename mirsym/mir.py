"""Parser for the text rustc prints with `-Zunpretty=mir` (pinned nightly).

Only the subset documented in DESIGN.md §2.8 is understood; anything else raises `Unsupported`, which the
caller reports as INCONCLUSIVE (never as a pass).
"""
import re


class Unsupported(Exception):
    pass


# ---------------------------------------------------------------------------------------------
# small helpers for bracket-aware scanning

OPEN = "([{<"
CLOSE = ")]}>"


def _depth_scan(s):
    """Yield (index, char, depth_before) skipping string literals; '<'/'>' count only when they look like
    generic brackets (not '->', '=>', ' < ', ' > ')."""
    depth = 0
    i = 0
    n = len(s)
    in_str = False
    while i < n:
        c = s[i]
        if in_str:
            if c == "\\":
                i += 2
                continue
            if c == '"':
                in_str = False
            i += 1
            continue
        if c == '"':
            in_str = True
            yield i, c, depth
            i += 1
            continue
        if c in "([{":
            yield i, c, depth
            depth += 1
        elif c in ")]}":
            depth -= 1
            yield i, c, depth
        elif c == "<":
            # generic bracket unless surrounded by spaces (comparison) or part of '<='/'<<'
            if i + 1 < n and s[i + 1] in " =":
                yield i, c, depth
            else:
                yield i, c, depth
                depth += 1
        elif c == ">":
            prev = s[i - 1] if i > 0 else ""
            if prev in "-=" or (prev == " " and (i + 1 >= n or s[i + 1] in " =")):
                yield i, c, depth
            else:
                depth -= 1
                yield i, c, depth
        else:
            yield i, c, depth
        i += 1


def split_top(s, sep):
    """Split s at top-level occurrences of the separator string."""
    out = []
    last = 0
    L = len(sep)
    skip_until = -1
    for i, c, d in _depth_scan(s):
        if i < skip_until:
            continue
        if d == 0 and s.startswith(sep, i):
            out.append(s[last:i])
            last = i + L
            skip_until = i + L
    out.append(s[last:])
    return out


def find_top(s, sub, start=0):
    for i, c, d in _depth_scan(s):
        if i >= start and d == 0 and s.startswith(sub, i):
            return i
    return -1


def rfind_top(s, sub):
    r = -1
    for i, c, d in _depth_scan(s):
        if d == 0 and s.startswith(sub, i):
            r = i
    return r


def matching_paren(s, i):
    """s[i] == '(' ; return index of the matching ')'."""
    depth = 0
    for j, c, d in _depth_scan(s[i:]):
        if c == "(":
            depth += 1
        elif c == ")":
            depth -= 1
            if depth == 0:
                return i + j
    raise Unsupported("unbalanced parenthesis in: " + s)


# ---------------------------------------------------------------------------------------------
# places and operands

class Place:
    """local + projections: ('deref',), ('field', k, ty), ('downcast', variant), ('index', operand_str),
    ('constindex', k)"""

    def __init__(self, local, proj):
        self.local = local
        self.proj = proj

    def __repr__(self):
        return f"Place({self.local},{self.proj})"


def parse_place(s):
    s = s.strip()
    proj_tail = []
    # trailing index projections
    while s.endswith("]") and not s.startswith("["):
        k = s.rfind("[")
        inner = s[k + 1:-1]
        m = re.match(r"^(\d+) of \d+$", inner)
        if m:
            proj_tail.insert(0, ("constindex", int(m.group(1))))
        elif re.match(r"^_\d+$", inner):
            proj_tail.insert(0, ("index", inner))
        else:
            raise Unsupported("index projection: " + s)
        s = s[:k].strip()
    if s.startswith("("):
        e = matching_paren(s, 0)
        if e != len(s) - 1:
            raise Unsupported("place syntax: " + s)
        inner = s[1:-1].strip()
        if inner.startswith("*"):
            p = parse_place(inner[1:])
            return Place(p.local, p.proj + [("deref",)] + proj_tail)
        k = find_top(inner, ": ")
        if k >= 0:
            left = inner[:k]
            ty = inner[k + 2:].strip()
            d = left.rfind(".")
            base = left[:d]
            field = left[d + 1:]
            p = parse_place(base)
            return Place(p.local, p.proj + [("field", int(field), ty)] + proj_tail)
        k = rfind_top(inner, " as ")
        if k >= 0:
            p = parse_place(inner[:k])
            return Place(p.local, p.proj + [("downcast", inner[k + 4:].strip())] + proj_tail)
        raise Unsupported("place syntax: " + s)
    m = re.match(r"^_(\d+)$", s)
    if m:
        return Place(int(m.group(1)), proj_tail)
    raise Unsupported("place syntax: " + s)


class Operand:
    def __init__(self, kind, place=None, const=None):
        self.kind = kind  # 'copy' | 'move' | 'const'
        self.place = place
        self.const = const

    def __repr__(self):
        return f"Op({self.kind},{self.place or self.const})"


def parse_operand(s):
    s = s.strip()
    if s.startswith("no_retag "):
        s = s[len("no_retag "):]
    if s.startswith("move "):
        return Operand("move", parse_place(s[5:]))
    if s.startswith("copy "):
        return Operand("copy", parse_place(s[5:]))
    if s.startswith("const "):
        return Operand("const", const=s[6:].strip())
    # bare place (old printer) — treat as copy
    if re.match(r"^_\d+$", s) or s.startswith("("):
        return Operand("copy", parse_place(s))
    # function items are printed without `const`
    return Operand("const", const=s)


# ---------------------------------------------------------------------------------------------
# functions

class Block:
    def __init__(self, name, cleanup):
        self.name = name
        self.cleanup = cleanup
        self.stmts = []   # raw strings without trailing ';'
        self.term = None  # raw string without trailing ';'


class Function:
    def __init__(self, name, header):
        self.name = name
        self.header = header
        self.args = []        # list of (local index, type)
        self.ret_ty = None
        self.locals = {}      # index -> type
        self.debug = {}       # source name -> place text
        self.blocks = {}
        self.line = 0

    def short(self):
        return self.name.split("::")[-1]


CONST_HEAD = re.compile(r"^const (.+): (.+) = \{$")
FN_HEAD = re.compile(r"^fn (.+?)\((.*)\) -> (.+) \{$")
LET_RE = re.compile(r"^\s*let (?:mut )?_(\d+): (.+);$")
BB_RE = re.compile(r"^    (bb\d+)( \(cleanup\))?: \{$")
DEBUG_RE = re.compile(r"^\s*debug (\S+) => (.+);$")


def parse_mir(text):
    """Return dict name -> Function (last wins for duplicate names, which the dump does not contain for fns)."""
    fns = {}
    lines = text.split("\n")
    i = 0
    n = len(lines)
    while i < n:
        line = lines[i]
        mconst = CONST_HEAD.match(line)
        if mconst:
            f = Function("const:" + mconst.group(1), line)
            f.line = i + 1
            f.ret_ty = mconst.group(2)
            i += 1
            cur = None
            while i < n and lines[i] != "}":
                l = lines[i]
                mb = BB_RE.match(l)
                if mb:
                    cur = Block(mb.group(1), bool(mb.group(2)))
                    f.blocks[cur.name] = cur
                elif cur is not None:
                    if l.strip() == "}":
                        if cur.stmts:
                            cur.term = cur.stmts.pop()
                        cur = None
                    else:
                        t = l.strip()
                        cur.stmts.append(t[:-1] if t.endswith(";") else t)
                else:
                    ml = LET_RE.match(l)
                    if ml:
                        f.locals[int(ml.group(1))] = ml.group(2)
                i += 1
            fns[f.name] = f
            i += 1
            continue
        if line.startswith("fn ") and line.endswith("{"):
            # header: name(args) -> ret {   — name may contain parentheses-free generics only
            k = _find_args_open(line)
            if k < 0:
                i += 1
                continue
            name = line[3:k]
            e = matching_paren(line, k)
            args_s = line[k + 1:e]
            rest = line[e + 1:].strip()
            m = re.match(r"^-> (.+) \{$", rest)
            f = Function(name, line)
            f.line = i + 1
            f.ret_ty = m.group(1) if m else "()"
            for a in split_top(args_s, ", "):
                a = a.strip()
                if not a:
                    continue
                ma = re.match(r"^_(\d+): (.+)$", a)
                if ma:
                    f.args.append((int(ma.group(1)), ma.group(2)))
                    f.locals[int(ma.group(1))] = ma.group(2)
            i += 1
            cur = None
            while i < n and lines[i] != "}":
                l = lines[i]
                mb = BB_RE.match(l)
                if mb:
                    cur = Block(mb.group(1), bool(mb.group(2)))
                    f.blocks[cur.name] = cur
                elif cur is not None:
                    if l.strip() == "}":
                        if cur.stmts:
                            cur.term = cur.stmts.pop()
                        cur = None
                    else:
                        t = l.strip()
                        # statements can span several lines only for long asserts; join until ';'
                        while not t.endswith(";") and i + 1 < n and lines[i + 1] != "}":
                            i += 1
                            t += " " + lines[i].strip()
                        cur.stmts.append(t[:-1] if t.endswith(";") else t)
                else:
                    ml = LET_RE.match(l)
                    if ml:
                        f.locals[int(ml.group(1))] = ml.group(2)
                    else:
                        md = DEBUG_RE.match(l)
                        if md:
                            f.debug[md.group(1)] = md.group(2)
                i += 1
            fns[name] = f
        i += 1
    return fns


def _find_args_open(line):
    """Index of the '(' that opens the argument list of a `fn` header line."""
    # the argument list is the last top-level (...) group before ' -> ' or ' {'
    depth = 0
    cand = -1
    i = 3
    n = len(line)
    angle = 0
    while i < n:
        c = line[i]
        if c == "<":
            angle += 1
        elif c == ">" and line[i - 1] != "-":
            angle -= 1
        elif c == "(" and angle == 0:
            if depth == 0 and line.startswith("(_1: ", i) or (depth == 0 and line.startswith("() ->", i)) or (
                    depth == 0 and line.startswith("() {", i)):
                return i
            depth += 1
        elif c == ")" and angle == 0:
            depth -= 1
        i += 1
    return cand


# ---------------------------------------------------------------------------------------------
# statements / terminators (parsed lazily by the executor)

CALL_TAIL = re.compile(r" -> (\[return: (bb\d+), unwind[^\]]*\]|unwind [a-z() ]+|\[return: (bb\d+)\])$")


def parse_terminator(t):
    """Return a tuple describing the terminator."""
    if t == "return":
        return ("return",)
    if t == "unreachable":
        return ("unreachable",)
    if t == "resume" or t.startswith("resume"):
        return ("resume",)
    m = re.match(r"^goto -> (bb\d+)$", t)
    if m:
        return ("goto", m.group(1))
    m = re.match(r"^switchInt\((.+)\) -> \[(.+)\]$", t)
    if m:
        targets = []
        otherwise = None
        for part in m.group(2).split(", "):
            k, v = part.split(": ")
            if k == "otherwise":
                otherwise = v
            else:
                targets.append((int(k), v))
        return ("switch", parse_operand(m.group(1)), targets, otherwise)
    m = re.match(r"^drop\((.+)\) -> \[return: (bb\d+), unwind[^\]]*\]$", t)
    if m:
        return ("drop", parse_place(m.group(1)), m.group(2))
    m = re.match(r"^assert\((!?)(.+?), (\".*)\) -> \[success: (bb\d+), unwind[^\]]*\]$", t)
    if m:
        return ("assert", m.group(1) == "!", parse_operand(m.group(2)), m.group(3), m.group(4))
    # call:  [dest = ] callee(args) -> [return: bbN, unwind ...]   |  callee(args) -> unwind continue
    m = CALL_TAIL.search(t)
    if m:
        head = t[:m.start()]
        ret = m.group(2) or m.group(3)
        dest = None
        k = find_top(head, " = ")
        if k >= 0 and re.match(r"^[_(]", head):
            dest = parse_place(head[:k])
            head = head[k + 3:]
        # callee(args): args are the last top-level paren group
        if not head.endswith(")"):
            raise Unsupported("call syntax: " + t)
        # find the '(' matching the final ')'
        depth = 0
        open_i = -1
        for j in range(len(head) - 1, -1, -1):
            c = head[j]
            if c == ")":
                depth += 1
            elif c == "(":
                depth -= 1
                if depth == 0:
                    open_i = j
                    break
        callee = head[:open_i]
        args_s = head[open_i + 1:-1]
        args = [parse_operand(a) for a in split_top(args_s, ", ") if a.strip()]
        return ("call", dest, callee, args, ret)
    raise Unsupported("terminator: " + t)
