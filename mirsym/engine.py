"""Shared plumbing of the mirsym specs: MIR dump of /repo's current tree, named constants, path collection,
structural equality over lazily materialised objects."""
import hashlib
import os
import re
import shutil
import subprocess
import time
import z3

from . import mir
from .sym import (Executor, State, Frame, Cell, Obj, Ref, UNIT, FnItem, Inconclusive, PathDead, Case)
from .mir import Unsupported
from .rustenums import EnumTable

VERIF = os.path.dirname(os.path.dirname(os.path.abspath(__file__)))
DUMP_DIR = os.path.join(VERIF, ".build", "mir")
FEATURE = "i-implement-a-third-party-backend-and-opt-into-breaking-changes"


def repo_fingerprint():
    h = hashlib.sha256()
    for dp, _, files in sorted(os.walk("/repo/h3/src")):
        for fn in sorted(files):
            if fn.endswith(".rs"):
                p = os.path.join(dp, fn)
                h.update(p.encode())
                h.update(open(p, "rb").read())
    h.update(open("/repo/h3/Cargo.toml", "rb").read())
    return h.hexdigest()


def dump_mir():
    """Regenerate the MIR text from /repo's current working tree (a throw-away copy of /repo/h3 with the
    dev-dependencies stripped). The dump is reused only if /repo/h3's sources are byte-identical to the ones it was
    made from (fingerprint over every source file)."""
    os.makedirs(DUMP_DIR, exist_ok=True)
    fp = repo_fingerprint()
    out = os.path.join(DUMP_DIR, "h3.mir")
    stamp = os.path.join(DUMP_DIR, "h3.mir.fp")
    if os.path.exists(out) and os.path.exists(stamp) and open(stamp).read() == fp:
        return out, 0.0
    t0 = time.time()
    src = os.path.join(DUMP_DIR, "h3")
    if os.path.exists(src):
        shutil.rmtree(src)
    shutil.copytree("/repo/h3", src)
    toml = open(os.path.join(src, "Cargo.toml")).read()
    k = toml.find("[dev-dependencies]")
    if k >= 0:
        toml = toml[:k]
    toml += "\n[lints.rust]\nunexpected_cfgs = { level = \"allow\", check-cfg = ['cfg(hyperium_h3_verif)'] }\n\n[workspace]\n"
    open(os.path.join(src, "Cargo.toml"), "w").write(toml)
    if os.path.exists("/repo/Cargo.lock"):
        shutil.copyfile("/repo/Cargo.lock", os.path.join(src, "Cargo.lock"))
    env = dict(os.environ)
    env["RUSTFLAGS"] = "--cfg hyperium_h3_verif"
    env["CARGO_NET_OFFLINE"] = "true"
    env.pop("RUSTUP_TOOLCHAIN", None)
    cmd = ["cargo", "+nightly", "rustc", "--offline", "--lib", "--features", FEATURE,
           "--target-dir", os.path.join(DUMP_DIR, "target"), "--",
           "-Zunpretty=mir", "-C", "overflow-checks=on"]
    p = subprocess.run(cmd, cwd=src, env=env, capture_output=True, text=True, timeout=900)
    if p.returncode != 0 or "fn " not in p.stdout:
        raise Inconclusive("MIR dump failed: " + p.stderr[-600:])
    open(out, "w").write(p.stdout)
    open(stamp, "w").write(fp)
    return out, time.time() - t0


def load_named_consts(text):
    """`Code::NAME` constants (read from the dump, not hard-coded) and the few other named constants used."""
    consts = {}
    for m in re.finditer(r"^const (.+)::(\w+): (\w+) = \{\n(?:.*\n)*?    bb0: \{\n((?:.*\n)*?)    \}", text, re.M):
        name, ty, body = m.group(2), m.group(3), m.group(4)
        mc = re.search(r"_0 = Code \{ code: const (\d+)_u64 \}", body)
        if ty == "Code" and mc:
            o = Obj("error::codes::Code")
            o.fields[(None, 0)] = Cell(z3.BitVecVal(int(mc.group(1)), 64))
            consts["Code::" + name] = o
    # plain integer constants written on one line: `const NAME: usize = const 32_usize;`
    from .sym import INT_BITS
    for m in re.finditer(r"^const (\w+): (\w+) = const (\d+)_(\w+);", text, re.M):
        if m.group(4) in INT_BITS and m.group(1) not in consts:
            consts[m.group(1)] = z3.BitVecVal(int(m.group(3)), INT_BITS[m.group(4)])
    return consts


class NamedConsts(dict):
    """Lookup by suffix: 'error::codes::Code::H3_INTERNAL_ERROR' -> entry 'Code::H3_INTERNAL_ERROR'."""

    def __contains__(self, k):
        return self._find(k) is not None

    def __getitem__(self, k):
        return dict.__getitem__(self, self._find(k))

    def _find(self, k):
        for key in self.keys():
            if k == key or k.endswith("::" + key):
                return key
        return None


def code_value(consts, name):
    o = consts["Code::" + name]
    return o.fields[(None, 0)].v


def quinn_fingerprint():
    h = hashlib.sha256()
    for root in ("/repo/h3-quinn/src", "/repo/h3/src"):
        for dp, _, files in sorted(os.walk(root)):
            for fn in sorted(files):
                if fn.endswith(".rs"):
                    p = os.path.join(dp, fn)
                    h.update(p.encode())
                    h.update(open(p, "rb").read())
    for f in ("/repo/h3-quinn/Cargo.toml", "/repo/h3/Cargo.toml", "/repo/Cargo.toml"):
        if os.path.exists(f):
            h.update(open(f, "rb").read())
    return h.hexdigest()


def dump_mir_quinn():
    """MIR of the h3-quinn adapter, from a throw-away copy of /repo's workspace (current working tree)."""
    os.makedirs(DUMP_DIR, exist_ok=True)
    fp = quinn_fingerprint()
    out = os.path.join(DUMP_DIR, "h3-quinn.mir")
    stamp = out + ".fp"
    if os.path.exists(out) and os.path.exists(stamp) and open(stamp).read() == fp:
        return out, 0.0
    t0 = time.time()
    ws = os.path.join(DUMP_DIR, "ws")
    if os.path.exists(ws):
        shutil.rmtree(ws)
    shutil.copytree("/repo", ws, ignore=shutil.ignore_patterns("target", ".git", "fuzz"))
    env = dict(os.environ)
    env["CARGO_NET_OFFLINE"] = "true"
    env.pop("RUSTUP_TOOLCHAIN", None)
    env.pop("RUSTFLAGS", None)
    cmd = ["cargo", "+nightly", "rustc", "--offline", "-p", "h3-quinn", "--lib",
           "--target-dir", os.path.join(DUMP_DIR, "target-ws"), "--", "-Zunpretty=mir", "-C", "overflow-checks=on"]
    p = subprocess.run(cmd, cwd=ws, env=env, capture_output=True, text=True, timeout=1800)
    if p.returncode != 0 or "fn " not in p.stdout:
        raise Inconclusive("MIR dump of h3-quinn failed: " + p.stderr[-600:])
    open(out, "w").write(p.stdout)
    open(stamp, "w").write(fp)
    return out, time.time() - t0


def registry_src(crate, lock="/repo/Cargo.lock"):
    """source directory of `crate` at the version /repo's lock file pins (cargo registry, offline)"""
    m = re.search(r'name = "%s"\nversion = "([^"]+)"' % re.escape(crate), open(lock).read())
    if not m:
        return None
    base = os.path.expanduser("~/.cargo/registry/src")
    for d in os.listdir(base):
        cand = os.path.join(base, d, f"{crate}-{m.group(1)}", "src")
        if os.path.isdir(cand):
            return cand
    return None


class Loaded:
    def __init__(self, crate="h3"):
        if crate == "h3-quinn":
            from . import rustenums
            path, secs = dump_mir_quinn()
            self.text = open(path).read()
            self.dump_s = secs
            self.fns = mir.parse_mir(self.text)
            roots = ["/repo/h3/src", "/repo/h3-quinn/src"] + [(r, n) for r, n in ((registry_src("quinn"), "quinn"), (registry_src("quinn-proto"), "quinn_proto")) if r]
            self.enums = EnumTable(rustenums.scan(tuple(roots)))
            self.consts = NamedConsts(load_named_consts(self.text))
            return
        path, secs = dump_mir()
        self.text = open(path).read()
        self.dump_s = secs
        self.fns = mir.parse_mir(self.text)
        self.enums = EnumTable()
        self.consts = NamedConsts(load_named_consts(self.text))
        sid = Obj("proto::stream::StreamId")
        sid.fields[(None, 0)] = Cell(z3.BitVecVal(0, 64))
        self.consts["StreamId::FIRST_REQUEST"] = sid

    def fn_sha(self, pattern):
        rx = re.compile(pattern)
        hits = [n for n in self.fns if rx.search(n)]
        if len(hits) != 1:
            return None
        f = self.fns[hits[0]]
        body = "\n".join(f"{b.name}:{';'.join(b.stmts)};{b.term}" for b in f.blocks.values())
        return hits[0], hashlib.sha256(body.encode()).hexdigest()[:12], f.line


def make_executor(loaded, inline, contracts, **kw):
    ex = Executor(loaded.fns, loaded.enums, inline, contracts, **kw)
    ex.named_consts = loaded.consts
    return ex


def call(ex, st, fn_pattern, args, ret_cell=None):
    """Push a frame for the MIR function matching `fn_pattern` with argument values `args`."""
    fn = ex.find_fn(fn_pattern)
    fr = Frame(fn, ret_cell)
    if len(args) != len(fn.args):
        raise Inconclusive(f"{fn.name}: expected {len(fn.args)} arguments, spec passes {len(args)}")
    for (idx, ty), v in zip(fn.args, args):
        fr.locals[idx] = Cell(v)
    ex.functions_used.add(fn.name)
    st.frames.append(fr)
    return fr


def collect(ex, st):
    """Run to completion; return list of (state, return value)."""
    out = []
    ex.run(st, lambda s, v: out.append((s, v)))
    return out


# ---------------------------------------------------------------------------------------------
# structural relations between lazily materialised objects

def deref(v):
    while isinstance(v, Ref):
        v = v.cell.v
    return v


def z3_consts(e, out=None):
    out = out if out is not None else {}
    stack = [e]
    seen = set()
    while stack:
        x = stack.pop()
        if x.get_id() in seen:
            continue
        seen.add(x.get_id())
        if z3.is_const(x) and x.decl().kind() == z3.Z3_OP_UNINTERPRETED:
            out[x.decl().name()] = x
        else:
            stack.extend(x.children())
    return out


def consts_of(*values):
    """All uninterpreted z3 constants (by name) occurring in python structures of values."""
    out = {}
    seen = set()
    stack = list(values)
    while stack:
        v = stack.pop()
        if z3.is_expr(v):
            z3_consts(v, out)
            continue
        if id(v) in seen:
            continue
        seen.add(id(v))
        if isinstance(v, Obj):
            if v.discr is not None:
                stack.append(v.discr)
            stack.extend(c.v for c in v.fields.values() if c.v is not None)
        elif isinstance(v, Ref):
            if v.cell.v is not None:
                stack.append(v.cell.v)
        elif isinstance(v, Cell):
            if v.v is not None:
                stack.append(v.v)
        elif isinstance(v, (list, tuple)):
            stack.extend(v)
        elif isinstance(v, dict):
            stack.extend(v.values())
    return out


def navigate(ex, st, root, segs):
    """Follow a materialisation path ('Variant.idx', '*', '#') from `root`, using explicit structure where it
    exists and (named) lazy materialisation elsewhere. `like` gives the sort for leaves."""
    cur = root
    for k, seg in enumerate(segs):
        while isinstance(cur, Ref) and seg != "*":
            cur = cur.cell.v
        if seg == "*":
            if isinstance(cur, Ref):
                cur = cur.cell.v
            continue
        if seg == "#":
            return ex.discr_of(st, cur)
        variant, idx = seg.rsplit(".", 1)
        variant = None if variant == "_" else variant
        idx = int(idx)
        if not isinstance(cur, Obj):
            return None
        c = cur.fields.get((variant, idx))
        if c is None or c.v is None:
            return ("lazy", cur.origin + "|" + "|".join(segs[k:]))
        cur = c.v
    return cur


def link(ex, st, dst_origin, src, used):
    """Equalities making every used constant materialised under `dst_origin` equal to the corresponding part of
    `src` (explicit structure where present, otherwise the constant of the same path under src's origin)."""
    cs = []
    prefix = dst_origin + "|"
    for name, c in used.items():
        if not name.startswith(prefix):
            continue
        segs = name[len(prefix):].split("|")
        v = navigate(ex, st, src, segs)
        if v is None:
            continue
        if isinstance(v, tuple) and v[0] == "lazy":
            v = z3.Const(v[1], c.sort())
        if isinstance(v, (Obj, Ref)) or v is UNIT:
            continue
        if z3.is_expr(v) and v.sort() == c.sort():
            cs.append(c == v)
    return z3.And(cs) if cs else z3.BoolVal(True)


def get_field(obj, *path):
    """Navigate materialised fields: path items are (variant, idx). Returns None if not materialised."""
    cur = deref(obj)
    for key in path:
        if not isinstance(cur, Obj):
            return None
        c = cur.fields.get(key)
        if c is None:
            return None
        cur = deref(c.v)
    return cur


def ensure_field(ex, obj, key, ty):
    obj = deref(obj)
    return deref(ex.field(obj, key[0], key[1], ty).v)


_fresh = [0]


def fresh(prefix):
    _fresh[0] += 1
    return f"{prefix}#{_fresh[0]}"
