"""mirsym: a small path-enumerating symbolic executor over rustc MIR text, deciding branch feasibility and
spec assertions with z3. See DESIGN.md §2.8 for the supported subset and the trusted base.

Values
  * integers: z3 BitVec of the declared width (python int for literals is normalised to BitVecVal)
  * bool: z3 Bool
  * unit: UNIT
  * Ref(cell): reference / raw pointer to a cell
  * Obj: struct / tuple / enum / closure / opaque library object with lazily materialised fields
  * FnItem(name): function item / closure type constant
Unknown callees raise Inconclusive (never treated as a no-op).
"""
import copy
import re
import z3

from . import mir
from .mir import Unsupported, parse_place, parse_operand, parse_terminator, split_top, find_top
from .rustenums import EnumTable


class Inconclusive(Exception):
    pass


class Case:
    """One outcome of a contract: feasible under `cond` (z3 Bool or None); `apply(ex, st, argv)` performs the
    effects on the outcome's own state and returns the call's value."""

    def __init__(self, cond, apply):
        self.cond = cond
        self.apply = apply


class PathDead(Exception):
    """The current path is infeasible / ends in compiler-declared unreachable code."""


UNIT = ("unit",)

INT_BITS = {"u8": 8, "u16": 16, "u32": 32, "u64": 64, "u128": 128, "usize": 64,
            "i8": 8, "i16": 16, "i32": 32, "i64": 64, "i128": 128, "isize": 64, "char": 32}
SIGNED = {"i8", "i16", "i32", "i64", "i128", "isize"}


class Cell:
    __slots__ = ("v",)

    def __init__(self, v=None):
        self.v = v


class Ref:
    __slots__ = ("cell",)

    def __init__(self, cell):
        self.cell = cell


class FnItem:
    def __init__(self, name):
        self.name = name

    def __repr__(self):
        return f"FnItem({self.name})"


class Obj:
    """Aggregate or opaque object. `discr` is None (not an enum / not yet known) or a z3 BitVec(64).
    `fields` maps (variant_name_or_None, index) -> Cell. `attrs` are ghost attributes set by contracts."""

    def __init__(self, ty, discr=None, origin=None):
        self.ty = ty
        self.discr = discr
        self.fields = {}
        self.attrs = {}
        # Lazily materialised parts are NAMED by (origin, path): a copy of a lazy object (copy/move/Clone)
        # materialises the very same z3 constants as the original, so laziness never breaks data flow.
        self.origin = origin or fresh_name("o")

    def __repr__(self):
        return f"Obj<{self.ty}>"


_counter = [0]


def fresh_name(prefix):
    _counter[0] += 1
    return f"{prefix}!{_counter[0]}"


def strip_ref(ty):
    ty = ty.strip()
    m = re.match(r"^&(?:'\w+ )?(?:mut )?(.*)$", ty)
    if m:
        return m.group(1), True
    m = re.match(r"^\*(?:const|mut) (.*)$", ty)
    if m:
        return m.group(1), True
    return ty, False


class State:
    def __init__(self):
        self.frames = []
        self.pc = []          # list of z3 Bool
        self.effects = []     # list of tuples
        self.world = {}       # contract-owned state (python values / z3 terms)
        self.trace = []       # (fn short name, block) for diagnostics
        self.notes = []

    def clone(self):
        return copy.deepcopy(self)


class Frame:
    def __init__(self, fn, ret_cell, ret_to=None):
        self.fn = fn
        self.locals = {}
        self.block = "bb0"
        self.ret_cell = ret_cell
        self.ret_to = ret_to  # block name in the caller to continue at
        self.unroll = {}
        self.post = None      # optional function applied to the return value (used by combinator contracts)


class Executor:
    def __init__(self, fns, enums=None, inline=None, contracts=None, max_unroll=4, max_depth=12, max_paths=20000,
                 timeout_ms=20000):
        self.fns = fns
        self.enums = enums or EnumTable()
        self.inline = inline or []          # list of (regex on normalised callee, regex on MIR fn name)
        self.contracts = contracts or []    # list of (regex on normalised callee, python function)
        self.max_unroll = max_unroll
        self.max_depth = max_depth
        self.max_paths = max_paths
        self.solver = z3.Solver()
        self.solver.set("timeout", timeout_ms)
        self.queries = 0
        self.solver_s = 0.0
        self.unroll_exceeded = []
        self.functions_used = set()
        self._fn_cache = {}

    # ------------------------------------------------------------------ solver helpers
    def feasible(self, st, extra=None):
        import time
        self.queries += 1
        t0 = time.time()
        self.solver.push()
        for c in st.pc:
            self.solver.add(c)
        if extra is not None:
            self.solver.add(extra)
        r = self.solver.check()
        self.solver.pop()
        if r == z3.unknown:
            r, _ = self._second_opinion(st, extra)
        self.solver_s += time.time() - t0
        if r == z3.unknown:
            raise Inconclusive("solver returned unknown on a feasibility query")
        return r == z3.sat

    def _second_opinion(self, st, extra, want_model=False):
        """The incremental solver gave up (its push/pop mode does not bit-blast eagerly): ask a fresh QF_BV solver."""
        s2 = z3.SolverFor("QF_BV")
        s2.set("timeout", 120000)
        for c in st.pc:
            s2.add(c)
        if extra is not None:
            s2.add(extra)
        r = s2.check()
        return r, (s2.model() if (want_model and r == z3.sat) else None)

    def model(self, st, extra=None):
        self.queries += 1
        self.solver.push()
        for c in st.pc:
            self.solver.add(c)
        if extra is not None:
            self.solver.add(extra)
        r = self.solver.check()
        m = self.solver.model() if r == z3.sat else None
        self.solver.pop()
        if r == z3.unknown:
            r, m = self._second_opinion(st, extra, want_model=True)
        if r == z3.unknown:
            raise Inconclusive("solver returned unknown")
        return m

    # ------------------------------------------------------------------ values
    def fresh(self, ty, hint="v"):
        return self.fresh_at(ty, fresh_name(hint))

    def fresh_at(self, ty, origin):
        """The symbolic value named `origin` of type `ty` (same name and type => same value)."""
        ty = ty.strip()
        if ty in INT_BITS:
            return z3.BitVec(origin, INT_BITS[ty])
        if ty == "bool":
            return z3.Bool(origin)
        if ty == "()":
            return UNIT
        inner, is_ref = strip_ref(ty)
        if is_ref:
            return Ref(Cell(self.fresh_at(inner, origin + "|*")))
        return Obj(ty, origin=origin)

    def discr_of(self, st, obj):
        if not isinstance(obj, Obj):
            raise Unsupported(f"discriminant of non-aggregate {obj!r}")
        if obj.discr is None:
            obj.discr = z3.BitVec(obj.origin + "|#", 64)
            vs = self.enums.variants(obj.ty)
            if vs:
                st.pc.append(z3.Or([obj.discr == z3.BitVecVal(v, 64) for _, v in vs]))
        return obj.discr

    def make_enum(self, ty, variant, fields=()):
        idx = self.enums.index_of(ty, variant)
        if idx is None:
            raise Inconclusive(f"enum variant index unknown for {ty}::{variant}")
        o = Obj(ty, z3.BitVecVal(idx, 64))
        for i, f in enumerate(fields):
            o.fields[(variant, i)] = Cell(f)
        return o

    def variant_is(self, st, obj, variant):
        """z3 Bool: obj's discriminant is `variant`."""
        idx = self.enums.index_of(obj.ty, variant)
        if idx is None:
            raise Inconclusive(f"enum variant index unknown for {obj.ty}::{variant}")
        return self.discr_of(st, obj) == z3.BitVecVal(idx, 64)

    def field(self, obj, variant, idx, ty=None, hint="f"):
        key = (variant, idx)
        if key not in obj.fields or obj.fields[key].v is None:
            if ty is None:
                raise Unsupported(f"field {key} of {obj!r} read without a type")
            v = self.fresh_at(ty, f"{obj.origin}|{variant or '_'}.{idx}")
            if key in obj.fields:
                obj.fields[key].v = v
            else:
                obj.fields[key] = Cell(v)
        return obj.fields[key]

    # ------------------------------------------------------------------ places
    def local_cell(self, st, fr, idx):
        if idx not in fr.locals:
            ty = fr.fn.locals.get(idx)
            if ty is None:
                raise Unsupported(f"local _{idx} has no declared type in {fr.fn.name}")
            fr.locals[idx] = Cell(None)
        return fr.locals[idx]

    def resolve(self, st, fr, place, for_write=False):
        """Return the Cell the place denotes (materialising lazy fields)."""
        cell = self.local_cell(st, fr, place.local)
        cur_ty = fr.fn.locals.get(place.local, "?")
        variant = None
        for p in place.proj:
            if p[0] == "deref":
                v = cell.v
                if v is None:
                    v = cell.v = self.fresh(cur_ty, f"l{place.local}")
                if isinstance(v, Obj):
                    # Box<T>/Pin<&mut T>-like wrappers the printer derefs directly: treat as transparent
                    cell = self.field(v, "deref", 0, strip_ref(cur_ty)[0])
                elif isinstance(v, Ref):
                    cell = v.cell
                else:
                    raise Unsupported(f"deref of {v!r}")
                cur_ty = strip_ref(cur_ty)[0]
                variant = None
            elif p[0] == "downcast":
                variant = p[1]
            elif p[0] == "field":
                v = cell.v
                if v is None:
                    v = cell.v = Obj(cur_ty)
                if not isinstance(v, Obj):
                    raise Unsupported(f"field projection on {v!r} ({cur_ty})")
                cell = self.field(v, variant, p[1], p[2])
                cur_ty = p[2]
                variant = None
            elif p[0] == "index":
                # variable index: supported when the index local holds a concrete value
                iv = fr.locals.get(int(p[1][1:]))
                iv = iv.v if iv is not None else None
                if iv is None or not z3.is_bv_value(z3.simplify(iv)):
                    raise Unsupported("slice index by a symbolic value")
                v = cell.v
                if v is None:
                    v = cell.v = Obj(cur_ty)
                if not isinstance(v, Obj) or "u8" not in cur_ty:
                    raise Unsupported(f"index projection on {v!r} ({cur_ty})")
                cell = self.field(v, "elem", z3.simplify(iv).as_long(), "u8")
                cur_ty = "u8"
            elif p[0] == "constindex":
                v = cell.v
                if v is None:
                    v = cell.v = Obj(cur_ty)
                if not isinstance(v, Obj):
                    raise Unsupported(f"index projection on {v!r}")
                elem_ty = "u8" if "u8" in cur_ty else "?"
                if elem_ty == "?":
                    raise Unsupported("constant index into a non-byte slice: " + cur_ty)
                cell = self.field(v, "elem", p[1], elem_ty)
                cur_ty = elem_ty
            else:
                raise Unsupported(f"projection {p[0]}")
        if variant is not None:
            # place ends in a downcast (used with `discriminant`/moves of whole variants): same cell
            pass
        return cell, cur_ty

    def read_place(self, st, fr, place):
        cell, ty = self.resolve(st, fr, place)
        if cell.v is None:
            cell.v = self.fresh(ty, f"l{place.local}")
        return cell.v

    def write_place(self, st, fr, place, value):
        cell, ty = self.resolve(st, fr, place, for_write=True)
        cell.v = value

    # ------------------------------------------------------------------ operands / constants
    def const_value(self, st, text, ty_hint=None):
        text = text.strip()
        if text in ("true", "false"):
            return z3.BoolVal(text == "true")
        m = re.match(r"^(-?\d+)_(\w+)$", text)
        if m and m.group(2) in INT_BITS:
            return z3.BitVecVal(int(m.group(1)), INT_BITS[m.group(2)])
        if text == "()":
            return UNIT
        if text.startswith('"') or text.startswith("b\""):
            o = Obj("&str")
            o.attrs["str"] = text
            return o
        if text in self.named_consts:
            return copy.deepcopy(self.named_consts[text])
        m = re.match(r"^core::num::<impl (u8|u16|u32|u64|usize)>::(MAX|MIN)$", text)
        if m:
            bits = INT_BITS[m.group(1)]
            return z3.BitVecVal((1 << bits) - 1 if m.group(2) == "MAX" else 0, bits)
        m = re.match(r"^(.*)::(\w+)::promoted\[(\d+)\]$", text)
        if m:
            return self.eval_const_item(st, f"::{m.group(2)}::promoted[{m.group(3)}]")
        m = re.match(r"^(.+)::\{constant#\d+\}$", text)
        # anything else: an opaque constant (function item, ZST, associated const we do not model)
        if re.match(r"^[\w:<>{}@ ,.\[\]'&#*()\-/]+$", text):
            return FnItem(text)
        raise Unsupported("constant: " + text)

    def operand(self, st, fr, op):
        if op.kind == "const":
            return self.const_value(st, op.const)
        v = self.read_place(st, fr, op.place)
        if op.kind == "copy" and isinstance(v, Obj):
            return copy.deepcopy(v)
        return v

    # ------------------------------------------------------------------ rvalues
    def as_bv(self, v, bits=None):
        if isinstance(v, int):
            return z3.BitVecVal(v, bits or 64)
        return v

    def rvalue(self, st, fr, text, dest_ty):
        text = text.strip()
        m = re.match(r"^discriminant\((.+)\)$", text)
        if m:
            v = self.read_place(st, fr, parse_place(m.group(1)))
            d = self.discr_of(st, v)
            bits = INT_BITS.get(dest_ty, 64)
            return d if bits == 64 else z3.Extract(bits - 1, 0, d)
        m = re.match(r"^&(?:raw (?:const|mut) |mut |fake )?(?:\(fake\) )?(.+)$", text)
        if m and not text.startswith("&&"):
            cell, _ = self.resolve(st, fr, parse_place(m.group(1)))
            return Ref(cell)
        if text.startswith("no_retag "):
            text = text[len("no_retag "):]
        for kind in ("move ", "copy ", "const "):
            if text.startswith(kind) and find_top(text, " as ") < 0:
                return self.operand(st, fr, parse_operand(text))
        # casts
        k = mir.rfind_top(text, " as ")
        if k >= 0 and text.endswith(")") and (text.startswith("move ") or text.startswith("copy ") or text.startswith("const ")):
            m = re.match(r"^(.*) as (.+) \((\w+)(?:\(.*\))?\)$", text)
            if m:
                v = self.operand(st, fr, parse_operand(m.group(1)))
                kind = m.group(3)
                tgt = m.group(2).strip()
                if kind == "IntToInt" and tgt in INT_BITS and z3.is_bv(v):
                    fb, tb = v.size(), INT_BITS[tgt]
                    if tb == fb:
                        return v
                    if tb < fb:
                        return z3.Extract(tb - 1, 0, v)
                    src_ty = None
                    return z3.ZeroExt(tb - fb, v)  # source signedness: only unsigned widenings occur in the analysed set
                if kind in ("PointerCoercion", "Transmute", "PtrToPtr", "PointerExposeAddress", "Subtype"):
                    return v
                if kind == "IntToInt" and z3.is_bool(v) and tgt in INT_BITS:
                    return z3.If(v, z3.BitVecVal(1, INT_BITS[tgt]), z3.BitVecVal(0, INT_BITS[tgt]))
                raise Unsupported("cast: " + text)
        # binary / unary ops
        m = re.match(r"^(\w+)\((.+)\)$", text)
        if m and m.group(1) in BINOPS:
            a, b = [self.operand(st, fr, parse_operand(x)) for x in split_top(m.group(2), ", ")]
            return self.binop(st, m.group(1), a, b)
        if m and m.group(1) in ("Not", "Neg"):
            a = self.operand(st, fr, parse_operand(m.group(2)))
            if m.group(1) == "Not":
                return z3.Not(a) if z3.is_bool(a) else ~a
            return -a
        if m and m.group(1) == "PtrMetadata":
            # metadata of a slice pointer = its length
            v = self.operand(st, fr, parse_operand(m.group(2)))
            while isinstance(v, Ref):
                v = v.cell.v
            if not isinstance(v, Obj):
                raise Unsupported("PtrMetadata of " + repr(v))
            return self.field(v, "meta", 0, "usize").v
        if m and m.group(1) == "Len":
            raise Unsupported("rvalue Len")
        # tuple
        if text.startswith("(") and text.endswith(")"):
            parts = [p for p in split_top(text[1:-1], ", ") if p.strip()]
            o = Obj(dest_ty)
            for i, p in enumerate(parts):
                o.fields[(None, i)] = Cell(self.operand(st, fr, parse_operand(p.rstrip(","))))
            return o
        if text.startswith("["):
            # arrays only occur as format-argument lists in the analysed set: opaque
            return Obj(dest_ty)
        # aggregates: Path::Variant(ops) | Path::Variant { f: op } | Path { f: op } | Path::Variant | {closure@..} { .. }
        return self.aggregate(st, fr, text, dest_ty)

    def aggregate(self, st, fr, text, dest_ty):
        body = None
        named = False
        head = text
        if text.endswith(")"):
            # find the '(' matching the last ')'
            depth = 0
            for j in range(len(text) - 1, -1, -1):
                if text[j] == ")":
                    depth += 1
                elif text[j] == "(":
                    depth -= 1
                    if depth == 0:
                        head, body = text[:j], text[j + 1:-1]
                        break
        elif text.endswith("}") and not text.endswith("{}") or text.endswith(" { }"):
            k = mir.rfind_top(text, " { ")
            if k >= 0:
                head, body = text[:k], text[k + 3:-1].strip()
                named = True
        ops = []
        names = []
        if body is not None and body.strip():
            for p in split_top(body, ", "):
                p = p.strip()
                if not p:
                    continue
                if named:
                    kk = p.index(": ")
                    names.append(p[:kk])
                    p = p[kk + 2:]
                ops.append(self.operand(st, fr, parse_operand(p)))
        head_nogen = strip_generics(head)
        segs = head_nogen.split("::")
        # enum variant?
        vs = self.enums.variants(dest_ty)
        if vs is not None and len(segs) >= 1 and any(segs[-1] == n for n, _ in vs):
            return self.make_enum(dest_ty, segs[-1], ops)
        if vs is not None and vs != []:
            # dest is an enum but the head does not name one of its variants
            raise Unsupported(f"aggregate {text} for enum type {dest_ty}")
        o = Obj(dest_ty)
        if head.startswith("{coroutine@"):
            # a freshly created `async fn` body: state 0 (unresumed), upvars in declaration order
            o.discr = z3.BitVecVal(0, 32)
        for i, v in enumerate(ops):
            o.fields[(None, i)] = Cell(v)
        if names:
            o.attrs["field_names"] = names
        return o

    def binop(self, st, op, a, b):
        if z3.is_bool(a) or z3.is_bool(b):
            if op == "Eq":
                return a == b
            if op == "Ne":
                return a != b
            if op == "BitAnd":
                return z3.And(a, b)
            if op == "BitOr":
                return z3.Or(a, b)
            if op == "BitXor":
                return z3.Xor(a, b)
            raise Unsupported("bool binop " + op)
        if not (z3.is_bv(a) and z3.is_bv(b)):
            raise Unsupported(f"binop {op} on {a!r}, {b!r}")
        if op in ("Shl", "Shr", "ShlUnchecked", "ShrUnchecked") and a.size() != b.size():
            b = z3.ZeroExt(a.size() - b.size(), b) if b.size() < a.size() else z3.Extract(a.size() - 1, 0, b)
        f = BINOPS[op]
        if op.endswith("WithOverflow"):
            res, ovf = f(a, b)
            if op == "AddWithOverflow":
                # interval pre-check: when the operands' upper bounds (from the path condition) cannot reach 2^n the
                # overflow flag is false - no adder-tree query for the SAT back end
                bounds = _bounds_from_pc(st.pc)
                ua, ub_ = _upper_bound(a, bounds), _upper_bound(b, bounds)
                if ua is not None and ub_ is not None and ua + ub_ < (1 << a.size()):
                    ovf = z3.BoolVal(False)
            o = Obj("(int, bool)")
            o.fields[(None, 0)] = Cell(res)
            o.fields[(None, 1)] = Cell(ovf)
            return o
        return f(a, b)

    # ------------------------------------------------------------------ calls
    def find_fn(self, pattern):
        if pattern in self._fn_cache:
            return self._fn_cache[pattern]
        # "name regex @@ regex on the type of the first argument": source positions inside `<impl at file:line..>` move with
        # every edit above them, the (method name, self type) pair does not
        if " @@ " in pattern:
            name_re, arg_re = pattern.split(" @@ ", 1)
            rx, ax = re.compile(name_re), re.compile(arg_re)
            hits = [n for n, f in self.fns.items() if rx.search(n) and f.args and ax.search(f.args[0][1])]
        else:
            rx = re.compile(pattern)
            hits = [n for n in self.fns if rx.search(n)]
        if len(hits) != 1:
            raise Inconclusive(f"MIR function pattern {pattern!r} matches {len(hits)} functions: {hits[:4]}")
        self._fn_cache[pattern] = self.fns[hits[0]]
        return self._fn_cache[pattern]

    def dispatch(self, st, fr, dest, callee, args, ret):
        key = normalise_callee(callee)
        argv = [self.operand(st, fr, a) for a in args]
        dest_ty = None
        if dest is not None:
            dest_ty = self.place_type(fr, dest)
        if key in ("Option::map", "Result::map_err", "Result::map", "Poll::map_err", "Poll::map", "Option::and_then",
                   "Option::unwrap_or_else", "Result::unwrap_or_else", "Option::map_or", "Option::ok_or_else"):
            r = self.combinator(st, fr, dest, key, argv, dest_ty, ret)
            if r is not None:
                return r
        for rx, target in self.inline:
            if re.search(rx, key):
                fn = self.find_fn(target)
                if len(st.frames) >= self.max_depth:
                    raise Inconclusive("inline depth bound exceeded at " + key)
                cell = None
                if dest is not None:
                    cell, _ = self.resolve(st, fr, dest, for_write=True)
                nf = Frame(fn, cell, ret)
                for (idx, ty), v in zip(fn.args, argv):
                    nf.locals[idx] = Cell(v)
                self.functions_used.add(fn.name)
                st.frames.append(nf)
                return [st]
        for rx, fnc in self.contracts:
            if re.search(rx, key):
                # phase 1 (on the current state): the contract materialises what it needs and returns its cases
                cases = fnc(self, st, key, argv, dest_ty, callee)
                live = [c for c in cases if c.cond is None or self.feasible(st, c.cond)]
                res = []
                for i, c in enumerate(live):
                    s2 = st if i == len(live) - 1 else st.clone()
                    f2 = s2.frames[-1]
                    if c.cond is not None:
                        s2.pc.append(c.cond)
                    # phase 2 (on the case's own state): arguments are re-read there
                    argv2 = [self.operand(s2, f2, a) for a in args]
                    val = c.apply(self, s2, argv2)
                    if s2.world.pop("__panicked", False):
                        # the contract found the call to panic (unwrap / expect on the failing variant): an outcome of the
                        # path, not a value to go on with
                        self.on_panic(s2, self._on_done)
                        continue
                    if dest is not None:
                        self.write_place(s2, f2, dest, val)
                    if ret is None:
                        continue  # diverging call
                    self.enter(s2, f2, ret)
                    res.append(s2)
                return res
        # default for code of the crate under analysis that no contract abstracts: execute its real MIR body
        fn = self.auto_target(key, callee, argv)
        if fn is not None:
            if len(st.frames) >= self.max_depth:
                raise Inconclusive("inline depth bound exceeded at " + key)
            cell = None
            if dest is not None:
                cell, _ = self.resolve(st, fr, dest, for_write=True)
            nf = Frame(fn, cell, ret)
            for (idx, ty), v in zip(fn.args, argv):
                nf.locals[idx] = Cell(v)
            self.functions_used.add(fn.name)
            self.auto_inlined.add(fn.name)
            st.frames.append(nf)
            return [st]
        raise Inconclusive(f"unmodelled callee: {key}   (raw: {callee})")

    auto_inlined = set()

    def auto_target(self, key, callee, argv):
        """The unique MIR function of the dump that `callee` denotes, or None. Methods are matched by name and by the self
        type appearing in the first parameter; `<{async fn body of T::f()} as Future>::poll` is the coroutine body
        `..::f::{closure#0}`."""
        raw = callee.strip()
        m = re.search(r"async fn body of (.+?)::(\w+)(?:<[^()]*>)?\(\)\} as [\w:]*Future>::poll", raw)
        if m:
            name = m.group(2)
            ty_name = strip_generics(m.group(1)).split("::")[-1]
            hits = [f for n, f in self.fns.items() if n.endswith(f"::{name}::{{closure#0}}") and f.args
                    and f"::{name}" in f.args[0][1] and "async fn body of" in f.args[0][1] and ty_name in f.args[0][1]]
            return hits[0] if len(hits) == 1 else None
        if " as " in key or key.startswith("{"):
            return None
        segs = key.split("::")
        if len(segs) < 2:
            return None
        name, ty_name = segs[-1], segs[-2]
        if ty_name in ("Option", "Result", "Poll", "Vec", "Arc", "Box", "String", "Pin", "Cow") or not re.match(r"^\w+$", name):
            return None
        cands = [f for n, f in self.fns.items() if n.endswith("::" + name) and not n.startswith("const:") and "{closure" not in n]
        hits = [f for f in cands if f.args and re.search(r"\b" + re.escape(ty_name) + r"\b", f.args[0][1]) and len(f.args) == len(argv)]
        if len(hits) != 1:
            # associated function without self: the type must show in the return type
            hits = [f for f in cands if len(f.args) == len(argv) and re.search(r"\b" + re.escape(ty_name) + r"\b", f.locals.get(0, ""))]
        return hits[0] if len(hits) == 1 else None

    def combinator(self, st, fr, dest, key, argv, dest_ty, ret):
        """Option::map, Result::map_err, Poll<Result>::map_err ... with a closure (or function item) argument: fork on
        the variant, run the closure's MIR body where it applies and re-wrap its result."""
        x = argv[0]
        f = argv[1]
        if not isinstance(x, Obj):
            raise Unsupported(f"{key} on {x!r}")
        head, meth = key.split("::")
        table = {("Option", "map"): ("Some", "None"), ("Result", "map_err"): ("Err", "Ok"), ("Result", "map"): ("Ok", "Err")}
        if (head, meth) not in table:
            if head == "Poll" and meth == "map_err":
                return self.poll_map_err(st, fr, dest, x, f, dest_ty, ret)
            if (head, meth) == ("Option", "ok_or_else"):
                return self.option_ok_or_else(st, fr, dest, x, f, dest_ty, ret)
            raise Inconclusive("combinator not modelled: " + key)
        hit, miss = table[(head, meth)]
        out = []
        c_hit = self.variant_is(st, x, hit)
        c_miss = self.variant_is(st, x, miss)
        from .contracts import payload
        if self.feasible(st, c_miss):
            s2 = st.clone()
            s2.pc.append(c_miss)
            f2 = s2.frames[-1]
            x2 = self.operand_values_again(s2, f2)
            # rebuild the untouched variant with the destination type
            xx = self.reread_arg0(s2, f2)
            if miss == "None":
                val = self.make_enum(dest_ty, "None")
            else:
                val = self.make_enum(dest_ty, miss, [payload(self, xx, miss)])
            self.write_place(s2, f2, dest, val)
            self.enter(s2, f2, ret)
            out.append(s2)
        if self.feasible(st, c_hit):
            st.pc.append(c_hit)
            inner = payload(self, x, hit)
            cell, _ = self.resolve(st, fr, dest, for_write=True)
            wrap = lambda ex, s, v, hit=hit, dest_ty=dest_ty: ex.make_enum(dest_ty, hit, [v])
            if isinstance(f, FnItem) and "closure@" not in f.name:
                # a plain function item (e.g. `<VarInt as From<T>>::from`): apply its (non-forking) contract
                from .contracts import payload_type
                fkey = normalise_callee(f.name)
                inner_ty = payload_type(dest_ty, hit) or "?"
                for rx, fnc in self.contracts:
                    if re.search(rx, fkey):
                        cases = fnc(self, st, fkey, [inner], inner_ty, f.name)
                        if len(cases) != 1 or cases[0].cond is not None:
                            raise Inconclusive(f"{key} with forking function item {f.name}")
                        v = cases[0].apply(self, st, [inner])
                        self.write_place(st, fr, dest, self.make_enum(dest_ty, hit, [v]))
                        self.enter(st, fr, ret)
                        out.append(st)
                        return out
                # a function of the crate under analysis passed by name: execute its MIR body
                fname = strip_generics(f.name).strip()
                hits = [fn for n, fn in self.fns.items() if n == fname or n.endswith("::" + fname)]
                if len(hits) == 1:
                    nf = Frame(hits[0], cell, ret)
                    nf.post = wrap
                    nf.locals[hits[0].args[0][0]] = Cell(inner)
                    self.functions_used.add(hits[0].name)
                    st.frames.append(nf)
                    out.append(st)
                    return out
                raise Inconclusive(f"{key} with unmodelled function item {f.name}")
            self.call_closure(st, f, [inner], cell, ret, post=wrap)
            out.append(st)
        return out

    def option_ok_or_else(self, st, fr, dest, x, f, dest_ty, ret):
        from .contracts import payload
        out = []
        c_some = self.variant_is(st, x, "Some")
        c_none = self.variant_is(st, x, "None")
        if self.feasible(st, c_some):
            s2 = st.clone()
            s2.pc.append(c_some)
            f2 = s2.frames[-1]
            xx = self.reread_arg0(s2, f2)
            self.write_place(s2, f2, dest, self.make_enum(dest_ty, "Ok", [payload(self, xx, "Some")]))
            self.enter(s2, f2, ret)
            out.append(s2)
        if self.feasible(st, c_none):
            st.pc.append(c_none)
            cell, _ = self.resolve(st, fr, dest, for_write=True)
            wrap = lambda ex, s, v: ex.make_enum(dest_ty, "Err", [v])
            self.call_closure(st, f, [], cell, ret, post=wrap)
            out.append(st)
        return out

    def poll_map_err(self, st, fr, dest, x, f, dest_ty, ret):
        from .contracts import payload, payload_type
        out = []
        c_pending = self.variant_is(st, x, "Pending")
        inner = payload(self, x, "Ready", 0, "Result<?, ?>")
        c_ok = z3.And(self.variant_is(st, x, "Ready"), self.variant_is(st, inner, "Ok"))
        c_err = z3.And(self.variant_is(st, x, "Ready"), self.variant_is(st, inner, "Err"))
        inner_ty = payload_type(dest_ty, "Ready") or "Result<?, ?>"
        for cond, kind in ((c_pending, "pending"), (c_ok, "ok")):
            if self.feasible(st, cond):
                s2 = st.clone()
                s2.pc.append(cond)
                f2 = s2.frames[-1]
                xx = self.reread_arg0(s2, f2)
                if kind == "pending":
                    val = self.make_enum(dest_ty, "Pending")
                else:
                    okv = payload(self, payload(self, xx, "Ready"), "Ok")
                    val = self.make_enum(dest_ty, "Ready", [self.make_enum(inner_ty, "Ok", [okv])])
                self.write_place(s2, f2, dest, val)
                self.enter(s2, f2, ret)
                out.append(s2)
        if self.feasible(st, c_err):
            st.pc.append(c_err)
            e = payload(self, inner, "Err")
            cell, _ = self.resolve(st, fr, dest, for_write=True)
            wrap = lambda ex, s, v: ex.make_enum(dest_ty, "Ready", [ex.make_enum(inner_ty, "Err", [v])])
            self.call_closure(st, f, [e], cell, ret, post=wrap)
            out.append(st)
        return out

    def operand_values_again(self, st, fr):
        return None

    def reread_arg0(self, st, fr):
        """First argument of the call terminating the current block, re-read in `st`."""
        t = parse_terminator(fr.fn.blocks[fr.block].term)
        return self.operand(st, fr, t[3][0])

    def place_type(self, fr, place):
        ty = fr.fn.locals.get(place.local, "?")
        for p in place.proj:
            if p[0] == "deref":
                ty = strip_ref(ty)[0]
            elif p[0] == "field":
                ty = p[2]
        return ty

    # ------------------------------------------------------------------ main loop
    def run(self, st, on_done):
        """Depth-first exploration from state `st` (whose top frame is set up). `on_done(state, retval)` is
        called for every completed path of the bottom frame."""
        work = [st]
        paths = 0
        while work:
            s = work.pop()
            try:
                nxt = self.step(s, on_done)
            except PathDead:
                continue
            for n in nxt:
                work.append(n)
            paths += 1
            if paths > self.max_paths * 50:
                raise Inconclusive("step budget exceeded")

    def step(self, st, on_done):
        fr = st.frames[-1]
        blk = fr.fn.blocks.get(fr.block)
        if blk is None:
            raise Unsupported(f"missing block {fr.block} in {fr.fn.name}")
        st.trace.append((fr.fn.short(), fr.block))
        for s in blk.stmts:
            self.statement(st, fr, s)
        t = parse_terminator(blk.term)
        kind = t[0]
        if kind == "goto":
            self.enter(st, fr, t[1])
            return [st]
        if kind == "return":
            ret = fr.locals.get(0)
            val = ret.v if ret is not None else UNIT
            if fr.post is not None:
                val = fr.post(self, st, val)
            st.frames.pop()
            if not st.frames:
                on_done(st, val)
                return []
            if fr.ret_cell is not None:
                fr.ret_cell.v = val
            caller = st.frames[-1]
            self.enter(st, caller, fr.ret_to)
            return [st]
        if kind == "unreachable":
            raise PathDead()
        if kind == "resume":
            raise PathDead()
        if kind == "drop":
            st2s = self.on_drop(st, fr, t[1])
            out = []
            for s2 in st2s:
                self.enter(s2, s2.frames[-1], t[2])
                out.append(s2)
            return out
        if kind == "assert":
            neg, op, msg, succ = t[1], t[2], t[3], t[4]
            c = self.operand(st, fr, op)
            ok = z3.Not(c) if neg else c
            out = []
            if self.feasible(st, z3.Not(ok)):
                s2 = st.clone()
                s2.pc.append(z3.Not(ok))
                s2.effects.append(("panic", msg, fr.fn.short(), fr.block))
                self.on_panic(s2, on_done)
            if self.feasible(st, ok):
                st.pc.append(ok)
                self.enter(st, fr, succ)
                out.append(st)
            return out
        if kind == "switch":
            v = self.operand(st, fr, t[1])
            if z3.is_bool(v):
                v = z3.If(v, z3.BitVecVal(1, 8), z3.BitVecVal(0, 8))
            out = []
            conds = []
            for val, tgt in t[2]:
                c = v == z3.BitVecVal(val, v.size())
                conds.append(c)
                if self.feasible(st, c):
                    s2 = st.clone()
                    s2.pc.append(c)
                    f2 = s2.frames[-1]
                    self.enter(s2, f2, tgt)
                    out.append(s2)
            if t[3] is not None:
                c = z3.Not(z3.Or(conds)) if conds else z3.BoolVal(True)
                if self.feasible(st, c):
                    s2 = st.clone()
                    s2.pc.append(c)
                    self.enter(s2, s2.frames[-1], t[3])
                    out.append(s2)
            return out
        if kind == "call":
            _, dest, callee, args, ret = t
            if ret is None and re.search(r"panic|unwrap_failed|expect_failed", callee):
                # an explicit panic!(), assert!(), unreachable!() ... : a diverging call into the panic machinery
                st.effects.append(("panic", callee, fr.fn.short(), fr.block))
                self.on_panic(st, on_done)
                return []
            self._on_done = on_done
            return self.dispatch(st, fr, dest, callee, args, ret)
        raise Unsupported("terminator kind " + kind)

    def enter(self, st, fr, block):
        n = fr.unroll.get(block, 0) + 1
        fr.unroll[block] = n
        if n > self.max_unroll + 1:
            self.unroll_exceeded.append((fr.fn.short(), block))
            raise PathDead()
        fr.block = block

    def on_panic(self, st, on_done):
        # a reachable panic is an outcome of the bottom frame
        on_done(st, ("panic",))

    def on_drop(self, st, fr, place):
        """Default: dropping has no effect, except for types with a registered drop contract."""
        ty = self.place_type(fr, place)
        for rx, fnc in self.contracts:
            if re.search(rx, "drop<" + strip_generics(ty) + ">"):
                v = self.read_place(st, fr, place)
                cases = fnc(self, st, "drop", [v], "()", ty)
                live = [c for c in cases if c.cond is None or self.feasible(st, c.cond)]
                out = []
                for i, c in enumerate(live):
                    s2 = st if i == len(live) - 1 else st.clone()
                    if c.cond is not None:
                        s2.pc.append(c.cond)
                    c.apply(self, s2, [self.read_place(s2, s2.frames[-1], place)])
                    out.append(s2)
                return out
        return [st]

    def statement(self, st, fr, s):
        if s.startswith(("StorageLive", "StorageDead", "FakeRead", "nop", "PlaceMention", "AscribeUserType", "Retag",
                         "Coverage", "ConstEvalCounter", "BackwardIncompatibleDropHint")):
            return
        m = re.match(r"^discriminant\((.+)\) = (\d+)$", s)
        if m:
            v = self.read_place(st, fr, parse_place(m.group(1)))
            v.discr = z3.BitVecVal(int(m.group(2)), 64)
            return
        m = re.match(r"^Deinit\((.+)\)$", s)
        if m:
            return
        k = find_top(s, " = ")
        if k < 0:
            raise Unsupported("statement: " + s)
        dest = parse_place(s[:k])
        dest_ty = self.place_type(fr, dest)
        val = self.rvalue(st, fr, s[k + 3:], dest_ty)
        self.write_place(st, fr, dest, val)

    named_consts = {}

    def eval_const_item(self, st, suffix):
        """Evaluate a `const ...::promoted[N]` item of the function currently executing."""
        cur = st.frames[-1].fn.name if st.frames else ""
        hits = [n for n in self.fns if n.startswith("const:") and n.endswith(suffix)]
        if len(hits) > 1:
            # same method name in several impls: prefer the one from the same impl block as the current function
            pref = cur.rsplit("::", 1)[0]
            best = [n for n in hits if n[len("const:"):].startswith(pref)]
            hits = best or hits
        if len(hits) != 1:
            raise Inconclusive(f"promoted constant {suffix}: {len(hits)} candidates")
        fn = self.fns[hits[0]]
        sub = State()
        fr = Frame(fn, None)
        sub.frames.append(fr)
        out = []
        saved = (self.max_paths,)
        self.run(sub, lambda s, v: out.append(v))
        if len(out) != 1:
            raise Inconclusive(f"promoted constant {suffix} did not evaluate to one value")
        return out[0]

    def call_closure(self, st, closure, args, ret_cell, ret_to, post=None):
        """Push a frame for the MIR body of `closure` (an Obj whose type is `{closure@file:line:col: ..}`)."""
        ty = closure.ty if isinstance(closure, Obj) else (closure.name if isinstance(closure, FnItem) else None)
        if ty is None:
            raise Inconclusive("call of a non-closure value " + repr(closure))
        m = re.search(r"\{closure@([^}]*)\}", ty)
        if not m:
            raise Inconclusive("cannot resolve closure type " + ty)
        tag = "{closure@" + m.group(1) + "}"
        hits = [f for n, f in self.fns.items() if "{closure#" in n and f.args and tag in f.args[0][1]]
        if len(hits) != 1:
            raise Inconclusive(f"closure {tag}: {len(hits)} MIR bodies")
        fn = hits[0]
        nf = Frame(fn, ret_cell, ret_to)
        nf.post = post
        first = fn.args[0][1].strip()
        self_arg = closure
        if first.startswith("&"):
            self_arg = Ref(Cell(closure))
        vals = [self_arg] + list(args)
        for (idx, _), v in zip(fn.args, vals):
            nf.locals[idx] = Cell(v)
        self.functions_used.add(fn.name)
        st.frames.append(nf)


def _bounds_from_pc(pc):
    """upper bounds of bit-vector constants stated in the path condition as `Extract(hi, k, x) == 0` or `ULE/ULT(x, c)`"""
    out = {}

    def visit(c):
        if z3.is_and(c):
            for ch in c.children():
                visit(ch)
            return
        if z3.is_eq(c):
            l, r = c.children()
            if z3.is_bv_value(r) and r.as_long() == 0 and z3.is_app_of(l, z3.Z3_OP_EXTRACT) and z3.is_const(l.arg(0)):
                hi, lo = l.params()
                x = l.arg(0)
                if hi == x.size() - 1:
                    out[x.decl().name()] = min(out.get(x.decl().name(), 1 << 200), (1 << lo) - 1)
            return
        if z3.is_app_of(c, z3.Z3_OP_ULEQ) or z3.is_app_of(c, z3.Z3_OP_ULT):
            l, r = c.children()
            if z3.is_const(l) and not z3.is_bv_value(l) and z3.is_bv_value(r):
                v = r.as_long() - (1 if z3.is_app_of(c, z3.Z3_OP_ULT) else 0)
                out[l.decl().name()] = min(out.get(l.decl().name(), 1 << 200), v)
    for c in pc:
        try:
            visit(c)
        except Exception:
            pass
    return out


def _upper_bound(t, bounds, depth=0):
    if depth > 60:
        return None
    if z3.is_bv_value(t):
        return t.as_long()
    if z3.is_const(t):
        return bounds.get(t.decl().name())
    if z3.is_app_of(t, z3.Z3_OP_BADD):
        tot = 0
        for ch in t.children():
            u = _upper_bound(ch, bounds, depth + 1)
            if u is None:
                return None
            tot += u
        return tot if tot < (1 << t.size()) else None
    if z3.is_app_of(t, z3.Z3_OP_ZERO_EXT):
        return _upper_bound(t.arg(0), bounds, depth + 1)
    if z3.is_app_of(t, z3.Z3_OP_ITE):
        a, b = _upper_bound(t.arg(1), bounds, depth + 1), _upper_bound(t.arg(2), bounds, depth + 1)
        return None if a is None or b is None else max(a, b)
    return None


def _add_ovf(a, b):
    r = a + b
    return r, z3.ULT(r, a)


def _sub_ovf(a, b):
    return a - b, z3.ULT(a, b)


def _mul_ovf(a, b):
    n = a.size()
    wide = z3.ZeroExt(n, a) * z3.ZeroExt(n, b)
    return a * b, z3.Extract(2 * n - 1, n, wide) != 0


BINOPS = {
    "Add": lambda a, b: a + b, "Sub": lambda a, b: a - b, "Mul": lambda a, b: a * b,
    "AddUnchecked": lambda a, b: a + b, "SubUnchecked": lambda a, b: a - b,
    "BitAnd": lambda a, b: a & b, "BitOr": lambda a, b: a | b, "BitXor": lambda a, b: a ^ b,
    "Shl": lambda a, b: a << b, "Shr": lambda a, b: z3.LShR(a, b),
    "ShlUnchecked": lambda a, b: a << b, "ShrUnchecked": lambda a, b: z3.LShR(a, b),
    "Eq": lambda a, b: a == b, "Ne": lambda a, b: a != b,
    "Lt": lambda a, b: z3.ULT(a, b), "Le": lambda a, b: z3.ULE(a, b),
    "Gt": lambda a, b: z3.UGT(a, b), "Ge": lambda a, b: z3.UGE(a, b),
    "Div": lambda a, b: z3.UDiv(a, b), "Rem": lambda a, b: z3.URem(a, b),
    "AddWithOverflow": _add_ovf, "SubWithOverflow": _sub_ovf, "MulWithOverflow": _mul_ovf,
}


def strip_generics(s):
    """Remove <...> groups and '::<...>' turbofish from a path."""
    out = []
    depth = 0
    i = 0
    n = len(s)
    while i < n:
        c = s[i]
        if c == "<" and not (i + 1 < n and s[i + 1] in " ="):
            depth += 1
        elif c == ">" and depth > 0 and s[i - 1] not in "-=":
            depth -= 1
        elif depth == 0:
            out.append(c)
        i += 1
    r = "".join(out)
    r = re.sub(r"::(::)+", "::", r)
    return r.strip(":")


def normalise_callee(callee):
    """'<ConnectionInner<C, B> as ConnectionState>::get_conn_error' -> 'ConnectionInner as ConnectionState::get_conn_error'
    'connection_error_creators::<impl ConnectionInner<C, B>>::close_if_needed' -> 'connection_error_creators::ConnectionInner::close_if_needed'
    'Option::<StreamId>::map::<..>' -> 'Option::map'"""
    c = callee.strip()
    for pre in ("std::option::", "core::option::", "std::result::", "core::result::", "std::task::", "core::task::",
                "std::pin::", "core::pin::", "std::ops::", "core::ops::"):
        c = c.replace(pre, "")
    m = re.match(r"^<(.+)>::(\w+)(::<.*>)?$", c)
    if m and mir.find_top(m.group(1), " as ") >= 0:
        k = mir.find_top(m.group(1), " as ")
        self_ty = strip_generics(m.group(1)[:k]).strip()
        trait = strip_generics(m.group(1)[k + 4:]).strip()
        return f"{self_ty} as {trait}::{m.group(2)}"
    if m:
        return f"{strip_generics(m.group(1)).strip()}::{m.group(2)}"
    c = re.sub(r"<impl ([^>]*?)>", lambda mm: strip_generics(mm.group(1)), impl_unwrap(c))
    return strip_generics(c)


def impl_unwrap(c):
    """turn '::<impl Foo<A, B>>::' into '::Foo::' (bracket-aware)."""
    out = ""
    i = 0
    while True:
        k = c.find("<impl ", i)
        if k < 0:
            return out + c[i:]
        out += c[i:k]
        depth = 0
        j = k
        while j < len(c):
            if c[j] == "<":
                depth += 1
            elif c[j] == ">" and c[j - 1] != "-":
                depth -= 1
                if depth == 0:
                    break
            j += 1
        inner = c[k + 6:j]
        # "Trait for Type" or "Type"
        if " for " in inner:
            inner = inner.split(" for ")[-1]
        out += strip_generics(inner).strip()
        i = j + 1
